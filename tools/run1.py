#!/venv/bin/python
"""development tool: run the named contract(s) (substring match) on a source tree and print every obligation that is not discharged.
usage: tools/run1.py <substring> [--src DIR] [-v]"""
import os, sys, json
ROOT = os.path.dirname(os.path.dirname(os.path.abspath(__file__)))
sys.path.insert(0, ROOT)
src = "/repo/src"
args = sys.argv[1:]
if "--src" in args:
    src = args[args.index("--src") + 1]
    del args[args.index("--src"): args.index("--src") + 2]
verbose = "-v" in args
args = [a for a in args if a != "-v"]
os.environ["PACTI_SRC"] = src
from checker.driver import load_contracts
from pyvc.harness import run_contract
C = load_contracts()
for name in C:
    if not any(a in name for a in args):
        continue
    r = run_contract(name, C[name]["fn"], src_root=src).to_json()
    st = {}
    for o in r["obligations"]:
        st[o["status"]] = st.get(o["status"], 0) + 1
    print("%s: paths=%s covers=%s %s error=%s wall=%.1fs" % (name, r["paths"], r["covers"], st, r.get("error"), r["wall_s"]))
    seen = set()
    for o in r["obligations"]:
        if (o["status"] != "discharged" or verbose) and (o["clause"], o["status"]) not in seen:
            seen.add((o["clause"], o["status"]))
            print("   %-10s %s  path=%s %s" % (o["status"], o["clause"], o["path"][:100], (o.get("detail") or "")[:200]))
