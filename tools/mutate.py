#!/venv/bin/python
"""Development tool: apply each single-edit mutant to a scratch copy of /repo/src and run contracts on it."""
import importlib, json, os, shutil, subprocess, sys, tempfile
sys.path.insert(0, "/verif")
def main():
    spec, mods = sys.argv[1], sys.argv[2].split(",")
    sel = sys.argv[3] if len(sys.argv) > 3 else None
    only = sys.argv[4].split(",") if len(sys.argv) > 4 else None
    muts = json.load(open(spec))
    for m in muts:
        if only and m["id"] not in only: continue
        d = tempfile.mkdtemp(prefix="pacti-verif-mut-")
        try:
            shutil.copytree("/repo/src", d + "/src")
            p = os.path.join(d, "src", m["file"]); s = open(p).read()
            if s.count(m["old"]) != 1:
                print(m["id"], "PATTERN COUNT", s.count(m["old"])); continue
            open(p, "w").write(s.replace(m["old"], m["new"]))
            code = "import sys,importlib; sys.path.insert(0,'/verif')\nfrom contracts.registry import CONTRACTS\nfor x in %r: importlib.import_module('contracts.'+x)\nfrom pyvc.harness import run_contract\nbad=set(); err=[]\nfor n,c in CONTRACTS.items():\n    if %r and %r not in n: continue\n    r=run_contract(n,c['fn'],time_limit_s=300)\n    if r.error: err.append(n+': '+r.error[:200])\n    for o in r.obligations:\n        if o['status']!='discharged': bad.add(n+' :: '+o['clause']+' '+o['status'])\nprint('\\n'.join(sorted(bad))); print('ERR',err) if err else None" % (mods, sel, sel)
            out = subprocess.run(["/venv/bin/python", "-c", code], env=dict(os.environ, PACTI_SRC=d + "/src"), capture_output=True, text=True)
            print("==", m["id"], "expect:", m["expect"]); print("  " + (out.stdout.strip().replace("\n", "\n  ") or "ALL DISCHARGED")); 
            if out.returncode: print(out.stderr[-1500:])
        finally:
            shutil.rmtree(d, ignore_errors=True)
main()
