#!/venv/bin/python
"""Regenerates MANIFEST.json from checker/plan.py (checks) and properties.jsonl (not_applicable for the rest)."""
import json, os, sys
ROOT = os.path.dirname(os.path.dirname(os.path.abspath(__file__)))
sys.path.insert(0, ROOT)
from checker import plan
props = [json.loads(l) for l in open(os.path.join(ROOT, "properties.jsonl"))]
checks, na = [], []
for p in props:
    pid = p["id"]
    pl = plan.PLAN.get(pid)
    if pl is None:
        na.append({"property_id": pid, "reason": plan.NOT_CLAIMED.get(pid, "no check registered yet (machinery under construction; see DESIGN.md)")})
        continue
    checks.append({
        "property_id": pid,
        "quick_cmd": "bin/check %s --tier quick" % pid,
        "thorough_cmd": "bin/check %s --tier thorough" % pid,
        "evidence_file": "/verif/evidence/%s.json" % pid,
        "replay_cmd_template": "bin/check %s --replay {path}" % pid,
        "engine": "pyvc",
        "level_claimed": {"category": pl["level"], "text": pl["level_text"], "design_ref": "DESIGN.md section 5, %s" % pid},
        "level_note": pl["level_note"],
        "technique": pl["technique"],
    })
m = {
    "version": 1,
    "setup_cmd": "bin/selftest",
    "hooks": {
        "guard": "PACTI_VERIF",
        "enable": "no source hooks are needed: contracts are sidecar files under /verif/contracts, the source is read with ast from /repo/src on every run, monitors wrap functions by monkeypatching",
        "baseline_off_cmd": "cd /repo && /venv/bin/python -m pytest -ra -q -p no:cacheprovider --timeout=900 --continue-on-collection-errors",
        "source_commits": plan.HOOK_COMMITS,
        "add_only": True,
    },
    "engines": [
        {"name": "pyvc", "path": "/verif/pyvc", "serves_properties": [c["property_id"] for c in checks],
         "kind_free_text": "verification-condition generator: symbolic interpreter over the ast of the real /repo/src functions, sidecar contracts in /verif/contracts, z3 (cvc5 second) as back ends; plus run-time contract monitors as labelled bounded stand-ins"},
    ],
    "checks": checks,
    "not_applicable": na,
    "notes": "Exit codes of bin/check: 0 held, 1 violation (VIOLATION line), 2 undecided obligations only, 3 checker error. Known findings: /verif/known_findings.json.",
}
json.dump(m, open(os.path.join(ROOT, "MANIFEST.json"), "w"), indent=1)
print("checks:", [c["property_id"] for c in checks], "n/a:", [x["property_id"] for x in na])
