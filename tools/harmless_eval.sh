#!/bin/bash
# development tool: usage harmless_eval.sh <worktree> <patch file> <property>...
# applies a behaviour-preserving change to a scratch worktree and runs the quick checks named on it: every one must exit 0
# (a VIOLATION here is a false alarm of the check; exit 3 means the change left the interpreted subset of Python)
WT=$1; P=$2; shift 2
git -C $WT checkout -q -- src; git -C $WT apply $P || { echo "$P does not apply"; exit 9; }
for pr in "$@"; do
  out=$(cd /verif && bin/check $pr --src $WT/src --no-evidence 2>&1); rc=$?
  echo "$(basename $WT)/$(basename $P) $pr rc=$rc :: $(echo "$out" | tail -1 | cut -c1-140)"
  [ $rc -ne 0 ] && echo "$out" | grep "^VIOLATION\|^CHECKER-ERROR\|^UNDECIDED" | head -6 | cut -c1-300
done
git -C $WT checkout -q -- src
