#!/bin/bash
# usage: seed_eval2.sh <worktree> <A|B> <seed-id> <property> [more properties...]
# For the fifth-round deliveries (change<X>.diff + demo<X>.py in a clean worktree): works on a private copy of the worktree, confirms
# the change (tests pass, demo fails with / passes without), stores it under /verif/seeded/<id>/, runs the quick checks on it.
WT=$1; X=$2; ID=$3; shift 3
D=/verif/seeded/$ID; mkdir -p $D
cp $WT/change$X.diff $D/patch.diff; cp $WT/demo$X.py $D/demo.py
CP=/tmp/ev_$ID; rm -rf $CP; mkdir -p $CP; rsync -a --exclude .git --exclude '*.diff' --exclude 'demo*.py' --exclude __pycache__ $WT/ $CP/
sed "s#$WT#$CP#g" $D/demo.py > $CP/demo_run.py
echo "== demo without change"; (cd $CP && PYTHONPATH=$CP/src timeout 600 /venv/bin/python $CP/demo_run.py > $D/demo_without_change.txt 2>&1; echo "exit $?" | tee -a $D/demo_without_change.txt)
(cd $CP && patch -s -p1 < $D/patch.diff) || { echo "patch does not apply"; exit 9; }
echo "== tests with change"; (cd $CP && PYTHONPATH=$CP/src timeout 900 /venv/bin/python -m pytest -q -p no:cacheprovider 2>&1 | grep -E "passed|failed" | tail -1) | tee $D/tests_with_change.txt
echo "== demo with change"; (cd $CP && PYTHONPATH=$CP/src timeout 600 /venv/bin/python $CP/demo_run.py > $D/demo_with_change.txt 2>&1; echo "exit $?" | tee -a $D/demo_with_change.txt)
for P in "$@"; do
  echo "== check $P on the change"
  (cd /verif && timeout 2400 bin/check $P --src $CP/src --no-evidence > $D/check_$P.full 2>&1; echo "rc=$?" >> $D/check_$P.full; grep -v "^KNOWN" $D/check_$P.full | tail -8 | cut -c1-400) | tee $D/check_$P.txt
done
rm -rf $CP
