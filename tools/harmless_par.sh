#!/bin/bash
# development tool: the harmless refactorings (harmless/*.patch), each on its own scratch worktree, HARMLESS_PAR at a time, with the
# quick checks of its area restricted to the properties named in HARMLESS_PROPS (default: all of its area); every line must say rc=0
declare -A PROPS=( [k1]="C05 C06 C08 C15 C16 C03 C13 C14" [k2]="C04 C01 C14 C13" [k3]="C03 C07 C11 C12 C14 C13" [k4]="C19 C16 C04 C10 C13" [k5]="C10 C14 C09" [k6]="C09 C06 C05 C13" [k7]="C12 C16 C17 C10 C14" [k8]="C18 C14" )
PAR=${HARMLESS_PAR:-4}
one() {
  p=$1; shift
  wt=/tmp/wt-harmless-$$-$(basename $p .patch); git -C /repo worktree add -q --detach $wt HEAD
  if git -C $wt apply $p; then
    for pr in "$@"; do
      out=$(cd /verif && bin/check $pr --src $wt/src --no-evidence --jobs $((16 / PAR)) 2>&1); rc=$?
      echo "$(basename $p) $pr rc=$rc :: $(echo "$out" | tail -1 | cut -c1-140)"
      [ $rc -ne 0 ] && echo "$out" | grep "^VIOLATION\|^CHECKER-ERROR\|^UNDECIDED" | head -6 | cut -c1-300
    done
  else
    echo "$p does not apply"
  fi
  git -C /repo worktree remove --force $wt
}
export -f one; export PAR
for p in /verif/harmless/*.patch; do
  k=$(basename $p | cut -d_ -f1); sel=""
  for pr in ${PROPS[$k]}; do
    if [ -z "$HARMLESS_PROPS" ] || echo " $HARMLESS_PROPS " | grep -q " $pr "; then sel="$sel $pr"; fi
  done
  [ -n "$sel" ] && echo "$p $sel"
done | xargs -P $PAR -L 1 bash -c 'one "$@"' _
