#!/bin/bash
# development tool: every quick check once on the unchanged tree (no evidence written); prints one line per property
cd /verif
for p in C01 C02 C03 C04 C05 C06 C07 C08 C09 C10 C11 C12 C13 C14 C15 C16 C17 C18 C19; do
  out=$(bin/check $p --no-evidence 2>&1); rc=$?
  echo "$p rc=$rc $(echo "$out" | grep -c '^VIOLATION') violations $(echo "$out" | grep -c '^CHECKER-ERROR') checker-errors $(echo "$out" | grep -c '^UNDECIDED') undecided :: $(echo "$out" | tail -1 | cut -c1-160)"
  echo "$out" | grep "^VIOLATION\|^CHECKER-ERROR\|^UNDECIDED" | head -4 | cut -c1-300
done
