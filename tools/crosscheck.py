#!/venv/bin/python
"""Engine validation: CPython cross-check of the interpreter on the functions under contract.

Every S-domain contract is re-run with all symbolic inputs replaced by random concrete values and random
nondeterministic choices (the same machinery as the counter-model replay); each `h.call` is mirrored natively on the
imported /repo/src code and the two outcomes (value or exception class) must agree.  A disagreement is an engine bug
(exit 3), never a verdict about pacti.   usage: tools/crosscheck.py [cases-per-contract] [filter]
"""
import json
import multiprocessing as mp
import os
import random
import sys
from fractions import Fraction

ROOT = os.path.dirname(os.path.dirname(os.path.abspath(__file__)))
sys.path.insert(0, ROOT)
SRC = os.environ.get("PACTI_SRC", "/repo/src")
VALUES = [0, 1, -1, 2, -2, 3, 0.5, -0.5, 4, 1.5, 0.25, -3, 10, 1e-9, 7]


def one(job):
    name, seed = job
    sys.path.insert(0, SRC)
    os.environ["PACTI_SRC"] = SRC
    import logging

    logging.disable(logging.CRITICAL)
    from checker import witness

    rnd = random.Random(seed)

    class RandomValues(dict):
        def get(self, k, default=None):
            if k not in self:
                v = rnd.choice(VALUES)
                self[k] = Fraction(v).limit_denominator(10**12) if isinstance(v, float) else Fraction(v)
            return self[k]

    class RandomTrace(dict):
        def setdefault(self, k, d):
            return super().setdefault(k, d)

        def get(self, k, default=None):
            return [rnd.random() < 0.5 for _ in range(64)]

    w = {"contract": name, "clause": "-", "trace": [], "values": {}}
    # patch the replay to use random values / choices
    orig = witness.replay

    res = witness.replay_random(w, SRC, RandomValues(), RandomTrace())
    return name, seed, res


def main():
    n = int(sys.argv[1]) if len(sys.argv) > 1 else 20
    flt = sys.argv[2] if len(sys.argv) > 2 else ""
    from checker.driver import load_contracts

    C = load_contracts()
    # contracts that rely on an assumed external contract (LP, sympy) run a model of the library, not the library
    names = [k for k, c in C.items() if c["domain"] == "S" and not c.get("canary") and flt in k and not ({"A4", "A6"} & set(c["assumes"]))]
    jobs = [(nm, s) for nm in names for s in range(n)]
    bad, calls, skipped, agreed_calls = [], 0, 0, 0
    modular = set()
    with mp.Pool(16) as pool:
        for name, seed, res in pool.imap_unordered(one, jobs, chunksize=4):
            if res.get("error") and not res.get("native_calls"):
                skipped += 1
                continue
            if res.get("failed_preconditions"):
                skipped += 1  # the random values violate the contract's precondition (e.g. a zero coefficient)
                continue
            if res.get("stubs_in_use"):
                modular.add(name)  # callee contracts / external models in use: native execution is not comparable
                continue
            for c in res.get("native_calls") or []:
                calls += 1
                if c.get("error"):
                    continue
                if c["agrees"]:
                    agreed_calls += 1
                else:
                    bad.append((name, seed, c))
    print("contracts compared %d (of %d; %d use callee contracts or external models and are not comparable), runs %d, native calls compared %d, agreed %d, runs skipped (left the supported subset / precondition) %d" % (len(names) - len(modular), len(names), len(modular), len(jobs), calls, agreed_calls, skipped))
    for name, seed, c in bad[:15]:
        print("DISAGREEMENT", name, "seed", seed, json.dumps(c, default=str)[:800])
    sys.exit(3 if bad else 0)


if __name__ == "__main__":
    main()
