#!/bin/bash
# development tool: re-applies every stored seeded change (or the ones named) to a scratch worktree of /repo and runs the quick
# check of its property on it; every line must say "caught" (exit 1 with a VIOLATION line).  SEEDS_PAR=n runs n at a time
# (each check then gets 16/n worker processes).
cd /verif
sel="$@"; [ -z "$sel" ] && sel=$(ls seeded)
PAR=${SEEDS_PAR:-1}
one() {
  d=$(basename $1); prop=$(echo $d | sed 's/^s[0-9]*_\(C[0-9][0-9]\)_.*/\1/')
  wt=/tmp/wt-seed-$$-$d; git -C /repo worktree add -q --detach $wt HEAD
  if git -C $wt apply /verif/seeded/$d/patch.diff 2>/dev/null; then
    out=$(bin/check $prop --src $wt/src --no-evidence --jobs $((16 / PAR)) 2>&1); rc=$?
    nv=$(echo "$out" | grep -c "^VIOLATION")
    vc=$(echo "$out" | grep "^VIOLATION" | grep -c "obligation=")
    if [ $rc -eq 1 ] && [ $nv -gt 0 ]; then echo "$d caught (rc=1, $nv VIOLATION lines shown, $vc naming a verification condition) :: $(echo "$out" | tail -1 | cut -c1-200)"; else echo "$d MISSED rc=$rc :: $(echo "$out" | tail -2 | cut -c1-300)"; fi
  else
    echo "$d patch does not apply to the current tree"
  fi
  git -C /repo worktree remove --force $wt
}
export -f one; export PAR
echo $sel | tr ' ' '\n' | xargs -P $PAR -I{} bash -c 'one {}'
