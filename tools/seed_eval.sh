#!/bin/bash
# usage: seed_eval.sh <worktree> <seed-id> <property> [more properties...]
# Confirms a seeded change (tests pass, demo fails with / passes without), stores it under /verif/seeded/<id>/, runs the checks on it.
WT=$1; ID=$2; shift 2
D=/verif/seeded/$ID; mkdir -p $D
git -C $WT diff > $D/patch.diff
cp $WT/demo.py $D/demo.py 2>/dev/null
echo "== tests with change"; (cd $WT && PYTHONPATH=$WT/src timeout 900 /venv/bin/python -m pytest -q -p no:cacheprovider 2>&1 | grep -E "passed|failed" | tail -1) | tee $D/tests_with_change.txt
echo "== demo with change"; (cd $WT && PYTHONPATH=$WT/src timeout 300 /venv/bin/python $WT/demo.py > $D/demo_with_change.txt 2>&1; echo "exit $?" | tee -a $D/demo_with_change.txt)
git -C $WT apply -R $D/patch.diff
echo "== demo without change"; (cd $WT && PYTHONPATH=$WT/src timeout 300 /venv/bin/python $WT/demo.py > $D/demo_without_change.txt 2>&1; echo "exit $?" | tee -a $D/demo_without_change.txt)
git -C $WT apply $D/patch.diff
for P in "$@"; do
  echo "== check $P on the change"
  (cd /verif && timeout 1800 bin/check $P --src $WT/src --no-evidence 2>&1 | grep -v "^KNOWN" | tail -6 | cut -c1-330) | tee $D/check_$P.txt
done
