#!/bin/bash
# development tool: every stored behaviour-preserving refactoring (harmless/*.patch) on a scratch worktree, with the quick checks
# of its area; every line must say rc=0
declare -A PROPS=( [k1]="C05 C06 C08 C15 C16 C03 C13 C14" [k2]="C04 C01 C14 C13" [k3]="C03 C07 C11 C12 C14 C13" [k4]="C19 C16 C04 C10 C13" [k5]="C10 C14 C09" [k6]="C09 C06 C05 C13" [k7]="C12 C16 C17 C10 C14" [k8]="C18 C14" )
wt=/tmp/wt-harmless-$$; git -C /repo worktree add -q --detach $wt HEAD
for p in /verif/harmless/*.patch; do k=$(basename $p | cut -d_ -f1); /verif/tools/harmless_eval.sh $wt $p ${PROPS[$k]}; done
git -C /repo worktree remove --force $wt
