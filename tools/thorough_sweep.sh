#!/bin/bash
# development tool: every thorough check once on the unchanged tree, with wall time and exit status
for p in "$@"; do
  t0=$(date +%s)
  out=$(bin/check $p --tier thorough --no-evidence 2>&1); rc=$?
  echo "$p rc=$rc $(( $(date +%s) - t0 ))s"
  echo "$out" | grep -v "^KNOWN" | tail -4 | cut -c1-400
done
