#!/bin/bash
# development tool: every quick check with several seeds on the unchanged tree; prints anything that is not a clean exit 0
for s in "$@"; do
  for p in C01 C02 C03 C04 C05 C06 C07 C08 C09 C10 C11 C12 C13 C14 C15 C16 C17 C18 C19; do
    out=$(VERIF_SEED=$s bin/check $p --tier quick --no-evidence 2>&1); rc=$?
    if [ $rc -ne 0 ] || echo "$out" | grep -q "^VIOLATION\|^CHECKER-ERROR\|^UNDECIDED"; then echo "seed=$s $p rc=$rc"; echo "$out" | grep -v "^KNOWN" | tail -5 | cut -c1-400; fi
  done
  echo "seed $s done"
done
