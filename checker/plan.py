"""Per-property plan: level, technique, monitors, explanation. (DESIGN.md section 5)"""

TRUSTED_ALWAYS = [
    "pyvc: own ast->z3 symbolic interpreter (/verif/pyvc), validated by canaries on every run and by the mutation corpus",
    "z3 5.1.0 / cvc5 1.0.3 soundness",
    "CPython semantics of the interpreted subset as encoded by pyvc (DESIGN.md 2.4-2.5)",
    "A7: message formatting and logging calls are pure and do not raise (arguments not evaluated)",
]

ASSUMPTIONS = {
    "P-refine": "P-refine (assumed at this layer, hypothesis of C05): elim_vars_by_refining returns R with context&R => self (or raises ValueError); vars(R) within vars(self)+vars(context)",
    "P-relax": "P-relax (assumed at this layer, hypothesis of C05): elim_vars_by_relaxing returns R with context&self => R (or raises ValueError); vars(R) within vars(self)+vars(context)",
    "P-simplify": "P-simplify (assumed at this layer, hypothesis of C05): simplify returns a sub-list equivalent to self wherever the context holds, ValueError only if infeasible in context",
    "P-refines": "P-refines (assumed at this layer): refines answers True only for containment",
    "P-refines(exact)": "P-refines exact (assumed at this layer; proved for polyhedra under the ideal LP contract in C03's H-domain obligations): list-level refines answers True iff containment",
    "A-card": "cardinality lemma: len(set(L)) == len(L) iff L is duplicate-free (pure mathematics, used by the multiset abstraction)",
    "A2": "A2: Var equality/hash is name equality (checked by the VCs on Var.__eq__/__hash__), dict iteration order irrelevant",
}

_U_EXPL = (
    "Verification conditions are generated from the ast of the real functions in /repo/src/pacti/iocontract/iocontract.py "
    "and /repo/src/pacti/utils/lists.py by symbolic execution over the unbounded abstract domain U (variables and terms "
    "are elements of uninterpreted sorts, lists are membership/duplicate predicates, constraint lists are uninterpreted "
    "predicates with holds(t) at one skolem behaviour). Every path of every function (branch structure x outcome of every "
    "primitive call: return / ValueError, refines True/False) yields one VC per postcondition clause; all are discharged by z3 "
    "with no bound on the number of variables, terms or roles. "
)

HOOK_COMMITS = []
NOT_CLAIMED = {}

_PROOF_TEXT = ("proof: every obligation is an unbounded verification condition generated from the real source and discharged by an SMT solver; "
               "this is the right level because the property is about set/list algebra and uninterpreted predicates, which the technique decides for all inputs")
_U_NOTE = ("trusted: the pyvc VC generator (own code, guarded by canaries and a mutation corpus), z3/cvc5, the CPython semantics of the interpreted subset, "
           "the primitive TermList contracts as hypotheses (they are the hypothesis of C05 by its wording; their polyhedral proofs are C04/C07/C03), "
           "list order abstracted, message formatting not interpreted")

PLAN = {
    "C05": {
        "level": "proof",
        "level_text": _PROOF_TEXT,
        "level_note": _U_NOTE,
        "domains": "U",
        "technique": "contract-based deductive verification: VCs generated from the real ast (pyvc, domain U, unbounded), discharged by z3",
        "monitor": None,
        "explanation": _U_EXPL + "The primitive contracts are the hypothesis of the property itself.",
    },
    "C06": {
        "level": "proof",
        "level_text": _PROOF_TEXT,
        "level_note": _U_NOTE,
        "domains": "U",
        "technique": "contract-based deductive verification: VCs generated from the real ast (pyvc, domain U, unbounded), discharged by z3",
        "monitor": None,
        "explanation": _U_EXPL + "List order is abstracted (the property speaks about sets and duplicate-freeness). The polyhedral wrappers "
        "(string -> Var conversion of vars_to_keep) are interpreted as well.",
    },
    "C08": {
        "level": "proof",
        "level_text": _PROOF_TEXT,
        "level_note": _U_NOTE,
        "domains": "U",
        "technique": "contract-based deductive verification: VCs generated from the real ast (pyvc, domain U, unbounded), discharged by z3",
        "monitor": None,
        "explanation": _U_EXPL + "merge is proved exact for any constraint domain whose simplify meets P-simplify; the polyhedral simplify contract is C07.",
    },
}
