"""Per-property plan: level, technique, monitors, explanation. (DESIGN.md section 5)"""

TRUSTED_ALWAYS = [
    "pyvc: own ast->z3 symbolic interpreter (/verif/pyvc), validated by canaries on every run and by the mutation corpus",
    "z3 5.1.0 / cvc5 1.0.3 soundness",
    "CPython semantics of the interpreted subset as encoded by pyvc (DESIGN.md 2.4-2.5)",
    "A7: logging calls are pure; the arguments of a raised exception are evaluated for the exceptions they can raise (their value is not kept), except where they leave the supported subset - there message formatting is assumed pure",
]

ASSUMPTIONS = {
    "P-refine": "P-refine (assumed at the algebra layer, hypothesis of C05; polyhedral proof: C04 obligations): elim_vars_by_refining returns R with context&R => self (or raises ValueError); vars(R) within vars(self)+vars(context)",
    "P-relax": "P-relax (assumed at the algebra layer, hypothesis of C05; polyhedral proof: C04 obligations): elim_vars_by_relaxing returns R with context&self => R (or raises ValueError); vars(R) within vars(self)+vars(context); with nothing to eliminate and simplify=False, R has the terms of self (P-relax.identity; polyhedral proof: C15.elim_vars_by_relaxing.nothing_to_eliminate_*)",
    "P-simplify": "P-simplify (assumed at the algebra layer, hypothesis of C05; polyhedral proof: C07 obligations): simplify returns a sub-list equivalent to self wherever the context holds, ValueError only if infeasible in context",
    "P-simplify (C07)": "P-simplify at call sites inside the elimination functions (proved by the C07 obligations)",
    "P-refines": "P-refines (assumed at the algebra layer): refines answers True only for containment",
    "P-refines(exact)": "P-refines exact (assumed at the algebra layer; proved for polyhedra under the ideal LP contract by the C03 obligations in domain H): list-level refines answers True iff containment",
    "P-empty(exact)": "P-empty (assumed at the compound layer; proved for polyhedra by the C11 obligations): is_empty answers True iff no behaviour satisfies the list",
    "P-contains": "P-contains (assumed at the compound layer; proved for polyhedra by the C11 obligations): contains_behavior answers True iff every inequality holds, ValueError iff a constrained variable is unassigned",
    "A9-fmt": "A9-fmt: default float formatting yields a non-empty string over [0-9.e+-]; variable names used in the harnesses are delimited from it (first character a letter other than e)",
    "contract of same_term_list": "call-site contract of PolyhedralSyntaxAbsoluteTerm.same_term_list (proved by SyntaxAbsoluteTerm.same_term_list[*])",
    "A-card": "cardinality lemma: len(set(L)) == len(L) iff L is duplicate-free (pure mathematics, used by the list abstraction; proved in Lean 4/Mathlib: lemmas/A3.lean theorem A_card_nodup, re-checked by bin/selftest; what stays assumed is that Python's set/len implement it)",
    "A1": "A1: floats are treated as mathematical reals (no rounding, overflow, nan, inf, -0.0; round() is an uninterpreted function); what this hides is what the bounded monitor looks at",
    "A2": "A2: Var equality/hash is name equality (checked by the VCs on Var.__eq__/__hash__), dict iteration order irrelevant",
    "A3": "A3: finite sums are bilinear: linear functionals are affine along segments (comb points instantiated explicitly; proved in Lean 4/Mathlib: lemmas/A3.lean theorems A3_affine_along_segments / A3_convex_combination, re-checked by bin/selftest)",
    "A4": "A4: ideal contract of scipy.optimize.linprog(c, A_ub, b_ub, bounds=(None,None)): status in {0,2,3}; 2 iff infeasible; 3 iff feasible and unbounded; 0 => x feasible, fun = c.x minimal, slack = b - A x; the answer depends on the problem only, not on the solver options (the retries of _solve_lp with other options are not modelled: they get the same answer) (assumed; the real HiGHS is exercised by the bounded monitors)",
    "A5": "A5: numpy array operations used by the code (array, concatenate, delete, copy, zeros, reshape, indexing, scalar multiply, isclose, where, any; linalg.norm as the non-negative root of the sum of squares) have their list/real meaning",
    "A6": "A6: sympy.solve on a square linear system returns a dict iff the solution is unique, and then every point satisfying the equations satisfies var = solution",
    "A9-repr": "A9: default float formatting (str/repr) is injective on reals (A1 excludes -0.0/nan)",
    "contract of verify_polytope_containment (h_lp)": "call-site contract of verify_polytope_containment, proved in domain H for <=3x3 rows and any dimension",
    "contract of is_polytope_empty (h_lp)": "call-site contract of is_polytope_empty, proved in domain H for <=3 rows and any dimension",
    "contract of reduce_polytope (h_lp)": "call-site contract of reduce_polytope, proved in domain H for <=3 rows, <=2 context rows and any dimension",
    "contracts of _tactic_1.._tactic_5": "call-site contracts of the five tactics inside the dispatcher: tactics 2 and 4 are proved (S domain); tactics 1, 3 and 5 (sympy-based context reduction) are ASSUMED here and covered only by the bounded monitor - tactic 5 is known to violate it (known finding)",
    "contract of _transform_term": "call-site contract of the per-term dispatcher (proved by PolyhedralTermList._transform_term[*])",
    "Term.vars is duplicate-free": "Term.vars returns a duplicate-free list (proved for PolyhedralTerm by PolyhedralTerm.accessors)",
    "contract of list_union (lists.list_union)": "contract of list_union used to summarise the union-fold loop in TermList.vars (proved by lists.list_union)",
    "Term.rename_variable contract": "Term.rename_variable is faithful substitution (proved for PolyhedralTerm by PolyhedralTerm.rename_variable, domain S)",
    "Term.rename_variable contract (proved in S for PolyhedralTerm)": "Term.rename_variable is faithful substitution (proved for PolyhedralTerm by PolyhedralTerm.rename_variable, domain S)",
}

# Obligations of other contracts that a property's argument relies on (counted for it as well).
# The algebra layer de-duplicates and subtracts terms with Term.__eq__: it must be exact equality.
TERM_EQ = [("PolyhedralTerm.__eq__", "C19.eq.iff_same_coefficients_and_constant")]
EXTRA_CLAUSES = {"C08": TERM_EQ, "C07": TERM_EQ, "C15": TERM_EQ, "C01": TERM_EQ, "C02": TERM_EQ}

HOOK_COMMITS = []
NOT_CLAIMED = {}

_VC = "contract-based deductive verification: verification conditions generated from the real ast of /repo/src (pyvc symbolic interpreter, sidecar contracts), discharged by z3 (cvc5 second back end)"
_PROOF_TEXT = (
    "proof: every obligation is an unbounded verification condition generated from the real source and discharged by an SMT solver; "
    "this is the right level because the property is about set/list algebra and uninterpreted predicates, which the technique decides for all inputs"
)
_MIXED_TEXT = (
    "verification conditions generated from the real source and discharged by an SMT solver for the stated shapes (domain U: no bound; domain H: bounded number of rows, any dimension; "
    "domain S: bounded shape, all real values), under the listed assumed contracts of scipy/sympy/numpy; what the VCs cannot reach (real solver round-off, string building, pyparsing, Qhull, histories) "
    "is covered by a run-time contract monitor on the natively executing code, labelled bounded and not counted as proved"
)
_U_NOTE = (
    "trusted: the pyvc VC generator (own code, guarded by canaries and a mutation corpus), z3/cvc5, the CPython semantics of the interpreted subset, "
    "the primitive TermList contracts as hypotheses (they are the hypothesis of C05 by its wording; their polyhedral proofs are C04/C07/C03), "
    "list order abstracted, message formatting not interpreted"
)
_MIXED_NOTE = (
    "trusted: pyvc, z3/cvc5, the encoded CPython semantics, floats as reals (A1), the ideal linprog contract (A4), numpy list meaning (A5), sympy.solve (A6) where used; "
    "bounded shapes as stated per contract in the evidence; the monitor part is random/bounded-exhaustive testing with exact oracles"
)

_U_EXPL = (
    "Verification conditions are generated from the ast of the real functions in /repo/src/pacti/iocontract/iocontract.py "
    "and /repo/src/pacti/utils/lists.py by symbolic execution over the unbounded abstract domain U (variables and terms "
    "are elements of uninterpreted sorts, lists are membership/duplicate predicates, constraint lists are uninterpreted "
    "predicates with holds(t) at one skolem behaviour). Every path of every function (branch structure x outcome of every "
    "primitive call: return / ValueError, refines True/False) yields one VC per postcondition clause; all are discharged by z3 "
    "with no bound on the number of variables, terms or roles. "
)


def _mixed(expl, monitor, domains="UHS", chain_props=(), extra_trusted=(), extra_monitors=()):
    return {
        "extra_monitors": list(extra_monitors),
        "level": "other",
        "level_text": _MIXED_TEXT,
        "level_note": _MIXED_NOTE,
        "domains": domains,
        "technique": _VC + "; bounded stand-in: run-time contract monitor with exact (z3 / rational) oracles",
        "monitor": monitor,
        "explanation": expl,
        "chain_props": list(chain_props),
        "trusted": list(extra_trusted),
    }


PLAN = {
    "C05": {
        "level": "proof",
        "level_text": _PROOF_TEXT,
        "level_note": _U_NOTE,
        "domains": "U",
        "technique": _VC + " (domain U, unbounded); counter-models are replayed natively on table-driven TermLists, which also serve as an additional bounded monitor",
        "monitor": "m_model",
        "explanation": _U_EXPL + "The primitive contracts are the hypothesis of the property itself. In addition (not part of the proof claim) the real algebra layer is run natively on random finite table-driven TermList implementations whose primitive outcomes are drawn among those the contracts allow.",
    },
    "C06": {
        "level": "proof",
        "level_text": _PROOF_TEXT,
        "level_note": _U_NOTE,
        "domains": "U",
        "technique": _VC + " (domain U, unbounded); counter-models are replayed natively on table-driven TermLists, which also serve as an additional bounded monitor",
        "monitor": "m_model",
        "extra_monitors": [("m_misc", "C16")],
        "explanation": _U_EXPL + "List order is abstracted (the property speaks about sets and duplicate-freeness). Hypothesis on the term class: Term.vars is duplicate-free (proved for PolyhedralTerm by the C04 obligation PolyhedralTerm.accessors::vars.duplicate_free, domain S).",
        "trusted": ["Term.vars returns a duplicate-free list (proved for PolyhedralTerm in domain S by PolyhedralTerm.accessors; an assumption of this unbounded proof)"],
    },
    "C08": {
        "level": "other",
        "level_text": "merge is proved exact at the algebra layer with no bound (domain U); the hypothesis that term equality is exact is discharged for PolyhedralTerm in domain S (bounded variable names), which makes the overall label bounded-shape; plus a bounded monitor of the polyhedral instance",
        "level_note": _U_NOTE + "; PolyhedralTerm.__eq__ exactness proved for terms over {x,y,z} only; additionally a bounded monitor exercises the polyhedral instance",
        "domains": "US",
        "technique": _VC + " (domain U, unbounded); plus bounded monitor of the polyhedral instance",
        "monitor": "m_algebra",
        "explanation": _U_EXPL + "merge is proved exact for any constraint domain whose simplify meets P-simplify; the polyhedral simplify contract is C07.",
    },
    "C01": _mixed(
        "Theorem chain. (1) algebra layer: the C05 compose obligations (domain U, unbounded) prove that compose is a sound abstraction for ANY TermList meeting the primitive contracts. "
        "(2) the primitive contracts for polyhedra: elimination (C04 obligations: dispatcher, _transform, elim_vars_by_*, tactics 2 and 4 proved in domain S; tactics 1/3/5 assumed), simplification (C07 obligations, domains H and S). "
        "(3) bounded monitor on real compose with real scipy/sympy over random wirings, kept variables, simplify flags and tactic orders with an exact z3 oracle in the property's tolerance reading.",
        "m_algebra",
        chain_props=["C04", "C07"],
    ),
    "C02": _mixed(
        "Theorem chain as for C01 with the C05 quotient obligations (domain U, unbounded; case split on the answer of refines and on success/ValueError of both try blocks), the C04/C07/C03 primitive obligations, "
        "and a bounded monitor on real quotient calls (dividends built by composing the divisor with a hidden partner).",
        "m_algebra",
        chain_props=["C04", "C07", "C03"],
    ),
    "C03": _mixed(
        "Contract level (domain U, unbounded): refines / <= / contains_environment / contains_implementation are exactly the two (one) list-level containment tests the property prescribes, interface mismatch raises. "
        "LP level (domain H: up to 3x3 rows, ANY dimension): verify_polytope_containment and is_polytope_empty answer True iff containment / emptiness under the ideal LP contract, in the property's tolerance reading "
        "(True only if no point violates beyond 1e-4(1+|c|), False only if not exactly contained); list level (domain S): the matrices handed over mean the lists. Real-solver round-off: bounded monitor (must-True on exact data, must-False beyond tolerance).",
        "m_algebra",
    ),
    "C04": _mixed(
        "Per-tactic contracts in domain S (all supports over the stated variable names, arbitrary real coefficients): tactic 2 (with the ideal LP contract), tactic 4 (by induction: the recursive call is replaced by the contract being proved), "
        "PolyhedralTerm primitives (isolate, substitute, multiply, add, remove), the dispatcher for 12 tactic orders and every outcome of every tactic, _transform and elim_vars_by_refining/relaxing for every outcome of the dispatcher and of simplify. "
        "Tactics 1, 3 and 5 (sympy-based context reduction) are not under contract (assumed at the dispatcher) and are covered only by the bounded monitor, where tactic 5 is a known finding.",
        "m_algebra",
    ),
    "C07": _mixed(
        "reduce_polytope (domain H: <=3 rows, <=2 context rows, ANY dimension): selection in order with unchanged constants, equivalence in context, every kept row non-redundant within the property's margin, ValueError only if infeasible; "
        "simplify (domain S) through the call-site contract of reduce_polytope: selection of the original terms, equivalence in context, irredundancy; IoContract.__init__/simplify (domain U): behaviours under assumptions unchanged. Real solver: bounded monitor with planted redundancies.",
        "m_algebra",
    ),
    "C09": _mixed(
        "Bounded monitor only at this stage for the grammar wiring (pyparsing is outside the verifier's reach, assumption A8); the parse actions and the syntax-term algebra are under contract where registered (see per_contract).",
        "m_io",
    ),
    "C10": _mixed(
        "Bounded monitor for the string/file forms (number formatting, string building, json are outside the verifier's reach); dictionary-form obligations where registered (see per_contract).",
        "m_io",
    ),
    "C11": _mixed(
        "Domain S obligations on substitute_variable, evaluate, contains_behavior (boundary included, unassigned variable => ValueError), is_empty through the call-site contract of is_polytope_empty, "
        "and domain H obligations on is_polytope_empty (any dimension). Float evaluation and the real solver on thin systems: bounded monitor with dyadic points on/inside/outside every boundary.",
        "m_misc",
    ),
    "C12": _mixed(
        "Domain S obligations on PolyhedralTermList.optimize: the LP solved has the list as feasible set and +-objective as objective; value is attained and optimal, None only if non-empty and unbounded, ValueError only if infeasible - under the ideal LP contract. "
        "Objective parsing and the real solver's status codes: bounded monitor against z3 Optimize.",
        "m_misc",
    ),
    "C13": _mixed(
        "Frame and freshness obligations generated for every function under contract (every heap write to an object that existed before the call is an obligation; results must not alias operands; tactics_order is only passed through; module constants unchanged), "
        "in all three domains. Histories: bounded monitor with operation sequences over a shared pool, deep snapshots, post-hoc mutation of results, repetition and replay of every step in a fresh interpreter.",
        "m_io",
    ),
    "C14": _mixed(
        "Exceptional postconditions of every function under contract: every raise / assert / subscript / division / None-arithmetic reachable on a path yields an outcome whose class must be documented (ValueError from the algebra layer only as propagated from a primitive). "
        "Dictionary faults: EXHAUSTIVE enumeration (finite) of single-field deletions and type changes in both representations through from_dict, validate+from_strings and the file reader; adversarial shapes by the monitor; the error paths of compose / quotient / merge / rename on the polyhedral instance through the algebra monitors (their C14 violations).",
        "m_io",
        extra_monitors=[("m_algebra", "C01"), ("m_algebra", "C02"), ("m_algebra", "C08"), ("m_misc", "C16")],
    ),
    "C15": _mixed(
        "merge: proved at the algebra layer (no operand guarantee is forgotten). compose: bounded monitor only (the obligation needs the polyhedral keep-property of relaxation; it is refuted on this tree: a guarantee present in both operands is dropped because each side is simplified against the other - known finding).",
        "m_algebra",
    ),
    "C16": _mixed(
        "Contract level (domain U, unbounded): the four interface cases, rejection iff input/output clash, absent or equal source changes nothing, meaning = renamed behaviour (given the Term.rename contract); term level (domain S): PolyhedralTerm.rename_variable is faithful substitution with coefficients added; "
        "TermList.rename_variable is the map. Sequences of mappings and round trips: bounded monitor against a reference substitution.",
        "m_misc",
    ),
    "C17": _mixed("Bounded monitor at this stage (compound contracts over polyhedral alternatives); the nested-list functions are under contract where registered (see per_contract).", "m_misc"),
    "C18": _mixed("Obligations: the 2-column system handed to the vertex routine is exactly the slice; the Chebyshev-centre LP, the halfspace encoding given to Qhull, the pass-through of its corners, the LP fallback and the permutation by angle (see per_contract). Qhull itself is the assumed contract A10 and atan2 an uninterpreted function: that the returned points ARE the corners is decided by the bounded monitor against exact rational vertex enumeration.", "m_io"),
    "C19": _mixed(
        "Domain S obligations on PolyhedralTerm.__eq__ (iff same coefficients and constant, symmetric), __hash__ (congruent with ==), copy (equal, fresh), __init__ (zero coefficients dropped); TermList.copy and IoContract.copy in domain U. "
        "Contract-level ==/hash and float corner cases (-0.0): bounded monitor with single-field edits.",
        "m_misc",
    ),
}
