"""Replay files: every reported violation gets one; native reproduction where a witness builder exists."""
from __future__ import annotations

import hashlib
import json
import os
import subprocess
import sys

ROOT = os.path.dirname(os.path.dirname(os.path.abspath(__file__)))


def write_replay(prop, rec, src):
    d = os.path.join(ROOT, "replays", prop)
    os.makedirs(d, exist_ok=True)
    h = hashlib.sha1(rec["id"].encode()).hexdigest()[:12]
    path = os.path.join(d, h + ".json")
    reproduced = False
    native = None
    w = rec.get("witness")
    if rec.get("monitor"):
        reproduced = bool(rec.get("reproduced", True))
        native = rec.get("native")
    elif w is not None:
        try:
            from checker.witness import run_witness

            native = run_witness(w, src)
            reproduced = bool(native.get("reproduced"))
        except Exception as e:
            native = {"error": repr(e)}
    out = {
        "property": prop,
        "obligation": rec["id"],
        "contract": rec.get("contract"),
        "clause": rec.get("clause"),
        "path_signature": rec.get("path"),
        "domain": rec.get("domain", "monitor" if rec.get("monitor") else None),
        "solver": {"backend": rec.get("backend"), "result": rec.get("status"), "time_s": rec.get("time_s"), "model": rec.get("model"), "detail": rec.get("detail")},
        "witness": w if w is not None else rec.get("input"),
        "native_result": native,
        "reproduced": reproduced,
        "source_root": src,
        "what": rec.get("what"),
    }
    with open(path, "w") as f:
        json.dump(out, f, indent=1, default=str)
    return path, reproduced


def replay_file(path, src):
    r = json.load(open(path))
    print("replay of %s (%s)" % (r["obligation"], r["property"]))
    if r.get("domain") == "monitor":
        from checker.monitors_run import replay_monitor_case

        return replay_monitor_case(r, src)
    if r.get("witness") is None:
        print("no native witness recorded for this obligation; solver output:\n%s" % json.dumps(r["solver"], indent=1)[:4000])
        return 2
    from checker.witness import run_witness

    native = run_witness(r["witness"], src)
    print(json.dumps(native, indent=1, default=str)[:4000])
    return 1 if native.get("reproduced") else 0
