"""Driver behind bin/check: selects contracts and monitors for a property, runs them, writes evidence."""
from __future__ import annotations

import glob
import hashlib
import importlib
import json
import multiprocessing as mp
import os
import re
import sys
import time
import traceback

ROOT = os.path.dirname(os.path.dirname(os.path.abspath(__file__)))


def load_contracts():
    from contracts.registry import CONTRACTS

    for p in sorted(glob.glob(os.path.join(ROOT, "contracts", "*.py"))):
        n = os.path.basename(p)[:-3]
        if n.startswith(("u_", "s_", "h_", "canar")):
            importlib.import_module("contracts." + n)
    return CONTRACTS


def clause_props(cinfo, clause):
    """Which properties an obligation clause is evidence for."""
    from checker import plan as planmod

    m = re.match(r"(C\d\d)\.", clause)
    if not m:
        out = set(cinfo["props"])
    else:
        p = m.group(1)
        out = {p}
        if p == "C05":
            if ".compose." in clause:
                out.add("C01")
            if ".quotient." in clause:
                out.add("C02")
        if p == "C08":
            out.add("C05")
        if p == "C06" and ".merge." in clause:
            out.add("C08")
        # the unions, differences and intersections of term lists are how the algebra layer builds every result
        if p == "C06" and ".list_union." in clause:
            out |= {"C05", "C08", "C15"}
        if p == "C06" and (".list_diff." in clause or ".list_intersection." in clause):
            out.add("C05")
    # primitive contracts are hypotheses of the C01/C02 theorem chains
    for q, pl in planmod.PLAN.items():
        if out & set(pl.get("chain_props", [])):
            out.add(q)
    for q, lst in planmod.EXTRA_CLAUSES.items():
        if (cinfo["name"], clause) in lst:
            out.add(q)
    return out


NOTES = []


def _worker(job):
    name, src, tier, limits, shard = job
    os.environ["PACTI_SRC"] = src
    try:
        sys.path.insert(0, ROOT)
        C = load_contracts()
        from pyvc.harness import run_contract

        c = C[name]
        hook = c.get("model_hook")
        if hook is None and c["domain"] == "S":
            from checker.witness import make_witness

            def hook(h, ctx, model, clause, meta, _n=name):
                return make_witness(_n, ctx, model, clause, "S")

        if hook is None and c["domain"] == "U":

            def hook(h, ctx, model, clause, meta, _n=name):
                u = getattr(h, "u", None)
                p = u.model_witness(model) if u is not None else None
                if p is None:
                    return None
                return {"kind": "U", "contract": _n, "clause": clause, "monitor": "m_model", "fn": "evaluate", "input": p}

        r = run_contract(name, c["fn"], src_root=src, model_hook=hook, shard=shard, **limits)
        return r.to_json()
    except Exception as e:  # pragma: no cover
        return {"contract": name, "error": "worker-crash: %r\n%s" % (e, traceback.format_exc()[-2000:]), "obligations": [], "paths": 0, "outcomes": {}, "covers": {}, "wall_s": 0, "solver_s": 0, "lines": [], "unknown_feasibility_paths": 0}


def sha256_file(p):
    h = hashlib.sha256()
    with open(p, "rb") as f:
        h.update(f.read())
    return h.hexdigest()


def source_hashes(src):
    out = {}
    for p in sorted(glob.glob(os.path.join(src, "pacti", "**", "*.py"), recursive=True)):
        out[os.path.relpath(p, src)] = sha256_file(p)
    return out


def functions_of_lines(src, lines):
    """The functions of the source tree whose body was entered by the interpreter on this run (from the statement lines it
    reached), and the functions of the files touched that were never entered."""
    import ast

    reached, missed = set(), set()
    bymod = {}
    for mod, ln in lines:
        bymod.setdefault(mod, set()).add(ln)
    for mod, lns in bymod.items():
        path = os.path.join(src, *mod.split(".")) + ".py"
        if not os.path.exists(path):
            path = os.path.join(src, *mod.split("."), "__init__.py")
            if not os.path.exists(path):
                continue
        tree = ast.parse(open(path).read())

        def walk(node, pref):
            for n in node.body:
                if isinstance(n, (ast.FunctionDef, ast.AsyncFunctionDef)):
                    body_lines = {x.lineno for st in n.body for x in ast.walk(st) if hasattr(x, "lineno")}
                    (reached if body_lines & lns else missed).add(mod + ":" + pref + n.name)
                elif isinstance(n, ast.ClassDef):
                    walk(n, pref + n.name + ".")

        walk(tree, "")
    return sorted(reached), sorted(missed)


def load_known_findings():
    p = os.path.join(ROOT, "known_findings.json")
    if not os.path.exists(p):
        return []
    return json.load(open(p))


def finding_matches(f, prop, contract, rec):
    if f.get("status") != "open" or f.get("property") != prop:
        return False
    if not f.get("clause") or f.get("monitor_key"):
        return False  # findings about monitor inputs never excuse a refuted verification condition
    if f.get("contract") and f["contract"] != contract:
        return False
    if f.get("contract_prefix") and not contract.startswith(f["contract_prefix"]):
        return False
    if f["clause"] != rec.get("clause"):
        return False
    sigs = f.get("path_signatures")
    if sigs is not None and rec.get("path") not in sigs:
        return False
    return True


def main(a):
    t0 = time.time()
    from checker import plan as planmod

    prop = a.prop
    if a.replay:
        from checker.replay import replay_file

        return replay_file(a.replay, a.src)
    if prop not in planmod.PLAN:
        print("unknown property %s" % prop)
        return 3
    pl = planmod.PLAN[prop]
    src = a.src
    if not os.path.isdir(os.path.join(src, "pacti")):
        print("CHECKER-ERROR: %s/pacti not found" % src)
        return 3
    C = load_contracts()
    sel = []
    for name, c in C.items():
        if c.get("canary"):
            continue
        extra_contracts = {cn for cn, _ in planmod.EXTRA_CLAUSES.get(prop, [])}
        if prop in c["props"] or prop in c.get("chain", []) or (set(c["props"]) & set(pl.get("chain_props", []))) or name in extra_contracts:
            if c.get("tier", "quick") == "thorough" and a.tier != "thorough":
                continue
            sel.append(name)
    canaries = [n for n, c in C.items() if c.get("canary") and (c["domain"] in pl.get("domains", "UHS"))]
    limits = {"time_limit_s": 900 if a.tier == "quick" else 3600, "timeout_ms": 10000 if a.tier == "quick" else 30000}
    jobs = []
    for n in canaries + sel:
        k = max(1, int(C[n].get("shards", 1)))
        for i in range(k):
            jobs.append((n, src, a.tier, limits, (i, k) if k > 1 else None))
    results = {}
    if jobs:
        with mp.Pool(min(a.jobs, max(1, len(jobs)))) as pool:
            for r in pool.imap_unordered(_worker, sorted(jobs, key=lambda j: -C[j[0]].get("weight", 1)), chunksize=1):
                prev = results.get(r["contract"])
                if prev is None:
                    results[r["contract"]] = r
                else:
                    prev["obligations"] += r["obligations"]
                    prev["paths"] += r["paths"]
                    prev["wall_s"] = max(prev["wall_s"], r["wall_s"])
                    prev["solver_s"] += r["solver_s"]
                    prev["unknown_feasibility_paths"] += r["unknown_feasibility_paths"]
                    prev["lines"] = sorted({tuple(x) for x in prev["lines"]} | {tuple(x) for x in r["lines"]})
                    for kk, vv in r["covers"].items():
                        prev["covers"][kk] = prev["covers"].get(kk, 0) + vv
                    prev["error"] = prev.get("error") or r.get("error")
    # ---- engine self checks -------------------------------------------------------------------
    errors = []
    notes = NOTES
    del NOTES[:]
    for n in canaries:
        r = results[n]
        exp = C[n]["canary"]
        got = {o["clause"] for o in r["obligations"] if o["status"] == "refuted"}
        if r.get("error"):
            errors.append("canary %s: %s" % (n, r["error"]))
        elif not set(exp) <= got:
            errors.append("canary %s survived: expected refutation of %s, refuted %s" % (n, exp, sorted(got)))
    violations, undecided, known, obligations = [], [], [], []
    n_obl = n_dis = 0
    by_backend, by_domain = {}, {}
    functions = set()
    assumes = set()
    lines = set()
    kf = load_known_findings()
    for n in sel:
        r = results[n]
        c = C[n]
        functions |= set(c["functions"])
        assumes |= set(c["assumes"])
        for l in r.get("lines", []):
            lines.add(tuple(l))
        if r.get("error"):
            errors.append("%s: %s" % (n, r["error"]))
            continue
        missing = [cv for cv in c.get("covers", []) if not r["covers"].get(cv)]
        if missing:
            errors.append("%s: vacuity guard: outcome(s) %s never reached" % (n, missing))
        mine = [o for o in r["obligations"] if prop in clause_props(c, o["clause"])]
        if not mine and prop in c["props"]:
            notes.append("%s: generated no obligation tagged %s on this tree" % (n, prop))
        for o in mine:
            n_obl += 1
            oid = "%s::%s@%s" % (n, o["clause"], hashlib.sha1(o["path"].encode()).hexdigest()[:8])
            rec = dict(o, id=oid, contract=n, domain=c["domain"], bound=c.get("bound"))
            obligations.append(rec)
            if o["status"] == "discharged":
                n_dis += 1
                by_backend[o["backend"]] = by_backend.get(o["backend"], 0) + 1
                by_domain[c["domain"]] = by_domain.get(c["domain"], 0) + 1
            elif o["status"] == "refuted":
                f = next((f for f in kf if finding_matches(f, prop, n, o)), None)
                if f:
                    known.append((f, rec))
                else:
                    violations.append(rec)
            else:
                undecided.append(rec)
    # ---- bounded stand-ins ------------------------------------------------------------------------
    mon = None
    if pl.get("monitor"):
        from checker.monitors_run import run_monitor

        mon = run_monitor(prop, pl["monitor"], a.tier, a.seed, src, a.jobs)
        if mon.get("error"):
            errors.append("monitor %s: %s" % (pl["monitor"], mon["error"]))
        # families of other properties whose cases also bear on this one (their violations of THIS property only)
        for mod2, fam2 in pl.get("extra_monitors", []):
            # (always at the quick size: the family's own property runs it at full size in its thorough tier)
            m2 = run_monitor(fam2, mod2, "quick", a.seed, src, a.jobs, want=prop)
            if m2.get("error"):
                errors.append("monitor %s[%s]: %s" % (mod2, fam2, m2["error"]))
            mon["evaluations"] += m2["evaluations"]
            mon["distinct_nontrivial"] += m2["distinct_nontrivial"]
            mon["violations"] = list(mon.get("violations", [])) + list(m2.get("violations", []))
            mon["violations_n"] = len(mon["violations"])
            mon["rule"] = mon["rule"] + " || also " + m2["name"] + ": " + m2["rule"]
            mon["name"] = mon["name"] + "+" + m2["name"]
            mon["summary"] = "%s: %d cases, %d distinct non-trivial, %d violations" % (mon["name"], mon["evaluations"], mon["distinct_nontrivial"], mon["violations_n"])
            mon["samples"] = (mon.get("samples") or [])[:6] + (m2.get("samples") or [])[:2]
        for v in mon.get("violations", []):
            f = next((f for f in kf if f.get("status") == "open" and f.get("property") == prop and f.get("monitor_key") and f["monitor_key"] == v.get("key")), None)
            rec = dict(v, id="monitor::" + v.get("key", "?"), monitor=True, witness={"monitor": v.get("monitor"), "fn": v.get("fn"), "input": v.get("input")})
            if f:
                known.append((f, rec))
            else:
                violations.append(rec)
    # ---- report -----------------------------------------------------------------------------------
    from checker.replay import write_replay

    printed = set()
    for f, rec in known:
        key = (f.get("what"),)
        if key in printed:
            continue
        printed.add(key)
        print("KNOWN-FINDING: property=%s %s" % (prop, f.get("what")))
    vio_lines = []
    # replay (native re-execution) a bounded sample: at most 2 per (contract, clause) group and 12 in total;
    # the others are listed in the evidence and share the group's replay
    groups = {}
    reported = []
    for rec in violations:
        gk = (rec.get("contract") or rec.get("key") or rec["id"], rec.get("clause"))
        groups.setdefault(gk, []).append(rec)
    for gk, recs in groups.items():
        for rec in recs[:2]:
            if len(reported) < 12:
                reported.append(rec)
    if violations and not reported:
        reported = violations[:1]
    for rec in reported:
        path, reproduced = write_replay(prop, rec, src)
        line = "VIOLATION property=%s replay=%s" % (prop, path)
        if not reproduced:
            line += " obligation=%s no-failing-input-found" % rec["id"].replace(" ", "_")
        vio_lines.append(line)
    for l in sorted(set(vio_lines)):
        print(l)
    for e in errors:
        print("CHECKER-ERROR: %s" % e)
    for rec in undecided[:20]:
        print("UNDECIDED: %s (%s)" % (rec["id"], rec.get("reason")))
    wall = time.time() - t0
    if not a.no_evidence:
        write_evidence(a, prop, pl, C, sel, results, obligations, n_obl, n_dis, by_backend, by_domain, functions, assumes, violations, undecided, known, errors, mon, wall, src, canaries, lines)
    status = "held"
    code = 0
    if n_obl == 0 and not mon:
        errors.append("vacuity guard: no obligation and no monitor case for %s" % prop)
    if errors:
        code, status = 3, "checker-error"
    if violations:
        code, status = 1, "violation"
    elif undecided and not errors:
        code, status = 2, "undecided"
    print(
        "%s %s: %d/%d obligations discharged (%s), %d refuted (%d known), %d undecided, monitor=%s, %.1fs"
        % (prop, status, n_dis, n_obl, ",".join("%s:%d" % kv for kv in sorted(by_backend.items())), len(violations) + len(known), len(known), len(undecided), (mon or {}).get("summary", "none"), wall)
    )
    return code


def write_evidence(a, prop, pl, C, sel, results, obligations, n_obl, n_dis, by_backend, by_domain, functions, assumes, violations, undecided, known, errors, mon, wall, src, canaries, lines):
    from checker import plan as planmod

    samples = []
    seen = set()
    for o in obligations:
        k = (o["contract"], o["clause"])
        if k in seen:
            continue
        seen.add(k)
        samples.append({"obligation": o["id"], "status": o["status"], "backend": o["backend"], "domain": o["domain"], "path": o["path"][:160], "time_s": o["time_s"]})
        if len(samples) >= 12:
            break
    if mon:
        samples.extend({"monitor_case": s} for s in mon.get("samples", [])[:6])
    distinct = len({(o["contract"], o["clause"], o["path"]) for o in obligations if o.get("kind") == "vc"})
    per_contract = {}
    for n in sel:
        r = results[n]
        per_contract[n] = {
            "domain": C[n]["domain"],
            "bound": C[n].get("bound"),
            "functions": C[n]["functions"],
            "paths": r.get("paths"),
            "outcomes": r.get("covers"),
            "obligations": len([o for o in r["obligations"] if prop in clause_props(C[n], o["clause"])]),
            "wall_s": r.get("wall_s"),
            "solver_s": r.get("solver_s"),
            "error": r.get("error"),
            "unknown_feasibility_paths": r.get("unknown_feasibility_paths"),
        }
    trusted = sorted(set(planmod.TRUSTED_ALWAYS) | {planmod.ASSUMPTIONS.get(x, x) for x in assumes} | set(pl.get("trusted", [])))
    level = pl["level"]
    if level == "proof" and (n_dis != n_obl or n_obl == 0 or errors):
        level = "other"
    cov = {
        "obligations": n_obl,
        "discharged": n_dis,
        "checker_cmd": "bin/check %s --tier %s   (pyvc: VCs generated from the ast of %s/pacti, z3 %s + /usr/bin/cvc5)" % (prop, a.tier, src, __import__("z3").get_version_string()),
        "trusted_base": trusted,
        "evaluations": n_obl + (mon or {}).get("evaluations", 0),
        "distinct_nontrivial": distinct + (mon or {}).get("distinct_nontrivial", 0),
        "rule": "one verification condition per (contract clause, execution path of the real function); distinct = distinct (contract, clause, path signature) triples decided by a solver call; "
        + ((mon or {}).get("rule", "") and ("monitor: " + mon["rule"])),
        "samples": samples or [{"note": "no obligations"}],
        "explanation": pl["explanation"],
        "functions_under_contract": sorted(functions),
        "functions_interpreted": functions_of_lines(src, lines)[0],
        "functions_of_touched_files_never_entered": functions_of_lines(src, lines)[1],
        "functions_declared_but_only_stubbed_here": sorted(set(functions) - set(functions_of_lines(src, lines)[0])),
        "by_backend": by_backend,
        "by_domain": by_domain,
        "bounded_standin": (mon or None) and {k: mon.get(k) for k in ("name", "evaluations", "distinct_nontrivial", "rule", "bound", "violations_n", "summary", "assumptions_checked")},
        "undecided": [o["id"] for o in undecided],
        "refuted": [o["id"] for o in violations],
        "known_findings_matched": sorted({f.get("what") for f, _ in known}),
        "canaries_refuted": len(canaries),
        "solver_time_s": round(sum(results[n].get("solver_s", 0) for n in sel), 3),
        "per_contract": per_contract,
        "source_sha256": source_hashes(src),
        "lines_reached": len(lines),
        "checker_errors": errors,
    }
    cov["notes"] = NOTES[:]
    ev = {
        "property_id": prop,
        "tier": a.tier,
        "seed": a.seed,
        "level": level,
        "coverage": cov,
        "assumptions": trusted,
        "wall_s": round(wall, 2),
        "violations": len(violations),
    }
    os.makedirs(os.path.join(ROOT, "evidence"), exist_ok=True)
    with open(os.path.join(ROOT, "evidence", prop + ".json"), "w") as f:
        json.dump(ev, f, indent=1, default=str)
