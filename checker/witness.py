"""Replay of a solver counter-model against the real code.

The refuted obligation's contract is re-executed with every symbolic input replaced by its model value
(ReplayCtx); each `h.call` then ALSO runs the natively imported function of /repo/src on the converted
arguments and the two outcomes are compared, and each `h.ensure` clause is evaluated on concrete values.
A violation is `reproduced` when the named clause evaluates to False and native execution agreed with
the interpreter on every call of that path.
"""
from __future__ import annotations

import importlib
import json
import os
import subprocess
import sys
from fractions import Fraction

ROOT = os.path.dirname(os.path.dirname(os.path.abspath(__file__)))


def model_values(model):
    import z3

    vals = {}
    for d in model.decls():
        if d.arity() != 0:
            continue
        v = model[d]
        try:
            if z3.is_int_value(v):
                vals[d.name()] = str(v.as_long())
            elif z3.is_rational_value(v):
                vals[d.name()] = str(v.as_fraction())
            elif z3.is_algebraic_value(v):
                vals[d.name()] = str(v.approx(20).as_fraction())
            elif z3.is_true(v) or z3.is_false(v):
                vals[d.name()] = bool(z3.is_true(v))
        except Exception:
            pass
    return vals


def make_witness(contract_name, ctx, model, clause, domain):
    return {"kind": domain, "contract": contract_name, "clause": clause, "trace": [[l, bool(d)] for l, d in ctx.trace], "values": model_values(model)}


def run_witness(w, src):
    """Runs the replay in a fresh process (native pacti must be imported from `src`)."""
    if w.get("kind") == "U":
        # finite table world built from the counter-model; the real algebra layer runs natively on it
        from monitors.lib import replay_in_fresh_process

        rep = replay_in_fresh_process("monitors.m_model", "evaluate", src, w["input"])
        v = rep.get("violation") if isinstance(rep, dict) else None
        return {
            "reproduced": bool(v) and not rep.get("script_error"),
            "native_violation": v and {"key": v.get("key"), "what": v.get("what"), "all": v.get("all")},
            "script_error": rep.get("script_error") if isinstance(rep, dict) else None,
            "primitive_log": rep.get("primitive_log") if isinstance(rep, dict) else None,
            "error": rep.get("error") if isinstance(rep, dict) else str(rep),
            "inputs": {k: w["input"].get(k) for k in ("op", "terms", "c1", "c2", "keep", "add", "simplify")},
        }
    code = "import sys; sys.path.insert(0, %r)\nfrom checker.witness import _replay_main\n_replay_main()\n" % ROOT
    p = subprocess.run([sys.executable, "-c", code], input=json.dumps({"w": w, "src": src}), capture_output=True, text=True, timeout=600)
    for line in p.stdout.splitlines():
        if line.startswith("@@"):
            return json.loads(line[2:])
    return {"reproduced": False, "error": (p.stderr or p.stdout)[-3000:]}


def _replay_main():
    req = json.loads(sys.stdin.read())
    res = replay(req["w"], req["src"])
    print("@@" + json.dumps(res, default=str))


# ----------------------------------------------------------------------------------------------
def replay_random(w, src, values, trace):
    """engine cross-check: like replay, with values and choices supplied by the caller"""
    return replay(w, src, values, trace)


def replay(w, src, values_override=None, trace_override=None):
    import z3

    sys.path.insert(0, src)
    os.environ["PACTI_SRC"] = src
    import logging

    logging.disable(logging.CRITICAL)
    import pacti

    if not os.path.abspath(pacti.__file__).startswith(os.path.abspath(src)):
        return {"reproduced": False, "error": "native pacti imported from %s" % pacti.__file__}
    from checker.driver import load_contracts
    from pyvc import core, harness
    from pyvc.core import PathCtx

    C = load_contracts()
    c = C[w["contract"]]
    values = {k: (v if isinstance(v, bool) else Fraction(v)) for k, v in w["values"].items()}
    trace = {}
    for label, d in w["trace"]:
        trace.setdefault(label, []).append(d)
    if values_override is not None:
        values, trace = values_override, trace_override

    class ReplayCtx(PathCtx):
        def __init__(self):
            super().__init__()
            self.used = {}
            self.failed_assumptions = []

        def fresh_real(self, prefix="r"):
            n = self.fresh_name(prefix)
            v = values.get(n, Fraction(0))
            f = float(v)
            return f

        def fresh_bool(self, prefix="b"):
            return bool(values.get(self.fresh_name(prefix), False))

        def named_real(self, name):
            return float(values.get(name, Fraction(0)))

        def fresh(self, sort, prefix="k"):
            n = self.fresh_name(prefix)
            if sort == z3.RealSort():
                return float(values.get(n, Fraction(0)))
            raise core.Unsupported("replay of a value of sort %s" % sort)

        def _concrete(self, f):
            if isinstance(f, bool):
                return f
            s = z3.simplify(f)
            if z3.is_true(s):
                return True
            if z3.is_false(s):
                return False
            raise core.Unsupported("non-concrete condition during replay: %s" % s)

        def assume(self, f, label=None):
            try:
                if not self._concrete(f):
                    self.failed_assumptions.append(label or str(f)[:80])
            except core.Unsupported:
                pass

        def branch(self, cond, label=""):
            d = self._concrete(cond)
            self.trace.append((label, d))
            return d

        def _choice_bit(self, label):
            i = self.used.get(label, 0)
            self.used[label] = i + 1
            lst = trace.get(label, [])
            d = lst[i] if i < len(lst) else True
            self.trace.append((label, d))
            return d

        def feasible(self, f):
            return self._concrete(f)

    ctx = ReplayCtx()
    h = ReplayH(ctx, src)
    err = None
    try:
        c["fn"](h)
    except core.PathInfeasible as e:
        err = "replay left the recorded path: %s" % e
    except core.Unsupported as e:
        err = "unsupported during replay: %s" % e
    except core.PyRaise as e:
        err = "exception escaped the contract during replay: %s" % e.cls_name()
    clause = w["clause"]
    vals = [v for (cl, v) in h.clauses if cl == clause]
    failed = any(v is False for v in vals)
    agree = all(a["agrees"] for a in h.native) if h.native else None
    return {
        "reproduced": bool(failed and agree and not ctx.failed_assumptions),
        "clause": clause,
        "clause_values": vals,
        "native_calls": h.native,
        "native_agrees_with_interpreter": agree,
        "inputs": h.inputs,
        "failed_preconditions": ctx.failed_assumptions,
        "error": err,
        "stubs_in_use": sorted(h.I.stubs) + sorted("%s.%s" % k for k in h.I.overrides) + sorted(h.I.hooks),
    }


class _Hashed:
    """an object whose hash is a given value (tuple hashing combines element hashes, not the hashes of those ints)"""

    def __init__(self, h):
        self.h = h

    def __hash__(self):
        return self.h


def _hash_eval(v):
    if isinstance(v, tuple) and len(v) == 2 and v[0] == "hash":
        p = v[1]
        if isinstance(p, tuple):
            return hash(tuple(_Hashed(_hash_eval(x)) for x in p))
        return hash(p)
    return v


def _import_native(qualname):
    modname, qn = qualname.split(":")
    m = importlib.import_module(modname)
    o = m
    for p in qn.split("."):
        o = getattr(o, p)
    return o


class Converter:
    """interpreter values -> native pacti values (concrete only)"""

    def __init__(self):
        self.memo = {}

    def conv(self, v):
        from pyvc.core import BoundM, ClassV, FuncV, Obj, PDict, PList, PSet, StaticM
        from pyvc.ext import NArr

        if v is None or isinstance(v, (bool, int, float, str)):
            return v
        if isinstance(v, Fraction):
            return float(v)
        import z3 as _z3

        if isinstance(v, _z3.ExprRef):
            sv = _z3.simplify(v)
            if _z3.is_rational_value(sv) or _z3.is_int_value(sv):
                return float(Fraction(sv.numerator_as_long(), sv.denominator_as_long())) if _z3.is_rational_value(sv) else sv.as_long()
            if _z3.is_true(sv) or _z3.is_false(sv):
                return _z3.is_true(sv)
            raise ValueError("cannot convert %r to a native value" % (v,))
        if id(v) in self.memo:
            return self.memo[id(v)]
        if isinstance(v, tuple):
            return tuple(self.conv(x) for x in v)
        from pyvc.ext import PRes as _PRes

        if isinstance(v, _PRes):
            import pyparsing as pp

            out = pp.ParseResults([self.conv(x) for x in v.items])
            self.memo[id(v)] = out
            return out
        if isinstance(v, PList):
            out = []
            self.memo[id(v)] = out
            out.extend(self.conv(x) for x in v.items)
            return out
        if isinstance(v, PDict):
            out = {}
            self.memo[id(v)] = out
            for t in v.keys:
                out[self.conv(v.keys[t])] = self.conv(v.vals[t])
            return out
        if isinstance(v, NArr):
            import numpy as np

            if v.ndim == 2 and v.shape[1] == 0:
                return np.array([[] for _ in range(v.shape[0])]) if v.shape[0] else np.array([[]])
            return np.array(self.conv_list(v.data), dtype=float)
        from pyvc.ext import PRes

        if isinstance(v, Obj) and v.cls.is_enum:
            cls = _import_native(v.cls.module.name + ":" + v.cls.name)
            return getattr(cls, v.attrs["name"])
        if isinstance(v, Obj):
            cls = _import_native(v.cls.module.name + ":" + v.cls.name)
            o = cls.__new__(cls)
            self.memo[id(v)] = o
            for k, x in v.attrs.items():
                setattr(o, k, self.conv(x))
            return o
        if isinstance(v, ClassV):
            return _import_native(v.module.name + ":" + v.name)
        raise ValueError("cannot convert %r to a native value" % (v,))

    def conv_list(self, d):
        return [self.conv_list(x) if isinstance(x, list) else self.conv(x) for x in d]


def describe(v, depth=0):
    """canonical, JSON-able description of a native value (for comparison and for the replay file)"""
    import numpy as np

    if v is None or isinstance(v, (bool, str)):
        return v
    if isinstance(v, np.bool_):
        return bool(v)
    if isinstance(v, (int, float, np.floating, np.integer)):
        return float(v)
    if isinstance(v, (list, tuple)):
        return [describe(x, depth + 1) for x in v]
    if isinstance(v, np.ndarray):
        return {"ndarray": v.tolist()}
    if isinstance(v, dict):
        return {"dict": sorted(((str(describe(k)), describe(x)) for k, x in v.items()), key=lambda kv: kv[0])}
    if isinstance(v, BaseException):
        return {"exception": type(v).__name__}
    import enum as _enum

    if isinstance(v, _enum.Enum):
        return {"enum": v.name}
    try:
        import pyparsing as _pp

        if isinstance(v, _pp.ParseResults):
            return [describe(x, depth + 1) for x in v]
    except Exception:
        pass
    cls = type(v).__name__
    if hasattr(v, "__dict__") and depth < 6:
        return {cls: {k: describe(x, depth + 1) for k, x in sorted(vars(v).items())}}
    return {cls: str(v)}


def close(a, b):
    if isinstance(a, float) and isinstance(b, float):
        return a == b or abs(a - b) <= 1e-9 * (1 + abs(a) + abs(b))
    if type(a) is not type(b):
        return False
    if isinstance(a, list):
        return len(a) == len(b) and all(close(x, y) for x, y in zip(a, b))
    if isinstance(a, dict):
        return a.keys() == b.keys() and all(close(a[k], b[k]) for k in a)
    return a == b


class ReplayH:
    """Same interface as harness.H, evaluating everything concretely and mirroring each call natively."""

    def __init__(self, ctx, src):
        from pyvc.ext import default_ext
        from pyvc.interp import Interp

        self.ctx = ctx
        self.I = Interp(src, ctx, default_ext())
        self.clauses = []
        self.native = []
        self.inputs = []
        self.covers = []
        self.obligations = []
        self.struct_failures = []
        self.struct_checked = []

    def call(self, f, args, kwargs=None):
        from pyvc.core import BoundM, ClassV, FuncV, PyRaise, StaticM
        from pyvc.harness import Outcome

        I = self.I
        kwargs = dict(kwargs or {})
        conv = Converter()
        native_fn, nargs, nkw, nerr = None, None, None, None
        try:
            if isinstance(f, BoundM):
                nself = conv.conv(f.self_obj)
                name = f.func.qualname.split(".")[-1] if isinstance(f.func, FuncV) else f.func.name
                native_fn = getattr(nself, name)
                desc_fn = "%s.%s" % (type(nself).__name__, name)
                self_desc = describe(nself)
            elif isinstance(f, FuncV):
                native_fn = _import_native(f.qualname)
                desc_fn = f.qualname
                self_desc = None
            elif isinstance(f, ClassV):
                native_fn = _import_native(f.module.name + ":" + f.name)
                desc_fn = f.name
                self_desc = None
            else:
                raise ValueError("callable %r" % (f,))
            nargs = [conv.conv(a) for a in args]
            nkw = {k: conv.conv(v) for k, v in kwargs.items()}
            self.inputs.append({"function": desc_fn, "self": self_desc, "args": describe(nargs), "kwargs": describe(nkw)})
        except Exception as e:
            nerr = "conversion failed: %r" % (e,)
        self.ctx.epoch += 1
        I.call_epoch = self.ctx.epoch
        n_writes = len(self.ctx.writes)
        try:
            v = I.call(f, list(args), kwargs)
            out = Outcome("return", v)
        except PyRaise as pr:
            out = Outcome("raise", exc=pr.exc, where=pr.where)
        finally:
            I.call_epoch = None
        out.writes = self.ctx.writes[n_writes:]
        rec = {"function": self.inputs[-1]["function"] if self.inputs and nerr is None else str(f), "agrees": False}
        if nerr is None:
            try:
                nres = native_fn(*nargs, **nkw)
                ndesc = describe(nres)
                nkind = "return"
            except Exception as e:
                ndesc, nkind = {"exception": type(e).__name__}, "raise"
            rec["native"] = ndesc
            if out.kind == "raise":
                rec["interpreter"] = {"exception": out.exc_name}
                rec["agrees"] = nkind == "raise" and ndesc["exception"] == out.exc_name
            else:
                try:
                    iv = out.value
                    if isinstance(iv, tuple) and len(iv) == 2 and iv[0] in ("hash", "idhash"):
                        iv = _hash_eval(iv)  # the interpreter's structural hash token -> the hash CPython computes
                    idesc = describe(Converter().conv(iv))
                except Exception as e:
                    idesc = {"unconvertible": repr(e)}
                rec["interpreter"] = idesc
                rec["agrees"] = nkind == "return" and close(ndesc, idesc)
        else:
            rec["error"] = nerr
        self.native.append(rec)
        return out

    def method(self, obj, name):
        return self.I.getattr(obj, name)

    def ensure(self, clause, formula, hints=(), **meta):
        import z3

        val = None
        try:
            if isinstance(formula, bool):
                val = formula
            else:
                if hints:
                    hs = [z3.simplify(x) if not isinstance(x, bool) else z3.BoolVal(x) for x in hints]
                    if any(z3.is_false(x) for x in hs):
                        val = True
                s = z3.simplify(formula)
                if val is None:
                    val = True if z3.is_true(s) else (False if z3.is_false(s) else None)
        except Exception:
            val = None
        self.clauses.append((clause, val))

    def check(self, clause, ok, text=""):
        self.clauses.append((clause, bool(ok)))

    def cover(self, label):
        pass

    def assume(self, f, label=None):
        self.ctx.assume(f, label)

    def frame_ok(self, out, clause="frame"):
        self.check(clause, not out.writes)
