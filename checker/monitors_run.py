def run_monitor(prop, name, tier, seed, src, jobs, want=None):
    import importlib

    m = importlib.import_module("monitors." + name)
    if want:
        return m.run(prop, tier, seed, src, jobs, want=want)
    return m.run(prop, tier, seed, src, jobs)


def replay_monitor_case(r, src):
    import importlib

    m = importlib.import_module("monitors." + r["witness"]["monitor"])
    return m.replay(r, src)
