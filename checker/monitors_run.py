def run_monitor(prop, name, tier, seed, src, jobs):
    import importlib

    m = importlib.import_module("monitors." + name)
    return m.run(prop, tier, seed, src, jobs)


def replay_monitor_case(r, src):
    import importlib

    m = importlib.import_module("monitors." + r["witness"]["monitor"])
    return m.replay(r, src)
