"""Models of the external libraries the pacti sources touch (assumptions A5, A7, A11 of DESIGN.md).

numpy arrays are lists of rows of (symbolic) reals with their list/real meaning.  linprog and
sympy.solve have no default model: a contract harness must install one (assumed contracts A4/A6).
"""
from __future__ import annotations

import ast

import z3

from .core import (
    ExtMod,
    ExtType,
    NativeFn,
    Obj,
    PDict,
    PList,
    Sink,
    Unsupported,
    is_sym_num,
    is_z3,
    s_and,
    to_real,
)
from .interp import AbsValue


class NArr:
    """numpy ndarray model: 1-D (list of scalars) or 2-D (list of rows). Fresh object per operation."""

    def __init__(self, data, shape):
        self.data = data  # 1-D: list of scalars ; 2-D: list of lists
        self.shape = tuple(shape)

    # helpers
    @property
    def ndim(self):
        return len(self.shape)

    def copy(self):
        if self.ndim == 1:
            return NArr(list(self.data), self.shape)
        return NArr([list(r) for r in self.data], self.shape)

    def __repr__(self):
        return "NArr(%r, shape=%r)" % (self.data, self.shape)

    # interpreter hooks
    def ext_getattr(self, I, name):
        if name == "shape":
            return self.shape
        if name == "copy":
            return NativeFn("ndarray.copy", lambda I2, a, k: self.copy())
        if name == "tolist":
            return NativeFn("ndarray.tolist", lambda I2, a, k: _tolist(I2, self))
        raise Unsupported("ndarray.%s" % name)

    def ext_len(self, I):
        if not self.shape:
            I.raise_native(TypeError, None, "len() of unsized object")
        return self.shape[0]

    def ext_iter(self, I):
        if self.ndim == 1:
            return list(self.data)
        return [NArr(list(r), (self.shape[1],)) for r in self.data]

    def ext_isinstance(self, I, c):
        return c.name == "ndarray"

    def ext_truthy(self, I, label):
        n = 1
        for s in self.shape:
            n *= s
        if n == 0:
            return False  # (numpy: deprecated, evaluates False)
        if n == 1:
            v = self.data[0] if self.ndim == 1 else self.data[0][0]
            return I.truthy(v, label)
        I.raise_native(ValueError, None, "truth value of an array with more than one element is ambiguous")

    def _norm_idx(self, I, i, n, node):
        if not isinstance(i, int):
            raise Unsupported("ndarray symbolic index")
        if i < -n or i >= n:
            I.raise_native(IndexError, node, "index %d out of bounds for axis with size %d" % (i, n))
        return i % n if n else i

    def ext_getitem(self, I, idx, node=None):
        if isinstance(idx, NArr):
            # integer index array (from np.where): fancy indexing on axis 0
            idx = PList([x for x in idx.data])
        if self.ndim == 1:
            if isinstance(idx, int):
                return self.data[self._norm_idx(I, idx, self.shape[0], node)]
            if isinstance(idx, slice):
                d = self.data[idx]
                return NArr(d, (len(d),))
            if isinstance(idx, PList):
                d = [self.data[self._norm_idx(I, i, self.shape[0], node)] for i in idx.items]
                return NArr(d, (len(d),))
            raise Unsupported("1-D ndarray index %r" % (idx,))
        # 2-D
        if isinstance(idx, int):
            return NArr(list(self.data[self._norm_idx(I, idx, self.shape[0], node)]), (self.shape[1],))
        if isinstance(idx, tuple) and len(idx) == 2:
            r, c = idx
            rows_sel, row_scalar = self._sel(I, r, self.shape[0], node)
            cols_sel, col_scalar = self._sel(I, c, self.shape[1], node)
            if row_scalar and col_scalar:
                return self.data[rows_sel[0]][cols_sel[0]]
            if row_scalar:
                return NArr([self.data[rows_sel[0]][j] for j in cols_sel], (len(cols_sel),))
            if col_scalar:
                return NArr([self.data[i][cols_sel[0]] for i in rows_sel], (len(rows_sel),))
            return NArr([[self.data[i][j] for j in cols_sel] for i in rows_sel], (len(rows_sel), len(cols_sel)))
        if isinstance(idx, slice):
            d = [list(r) for r in self.data[idx]]
            return NArr(d, (len(d), self.shape[1]))
        if isinstance(idx, PList):
            rows_sel, _ = self._sel(I, idx, self.shape[0], node)
            return NArr([list(self.data[i]) for i in rows_sel], (len(rows_sel), self.shape[1]))
        raise Unsupported("2-D ndarray index %r" % (idx,))

    def _sel(self, I, s, n, node):
        if isinstance(s, int):
            return [self._norm_idx(I, s, n, node)], True
        if isinstance(s, slice):
            return list(range(n))[s], False
        if isinstance(s, PList):
            return [self._norm_idx(I, i, n, node) for i in s.items], False
        raise Unsupported("ndarray selector %r" % (s,))

    def ext_setitem(self, I, idx, val, node=None):
        if self.ndim == 1:
            if isinstance(idx, int):
                self.data[self._norm_idx(I, idx, self.shape[0], node)] = _scalar(val)
                return
            raise Unsupported("1-D ndarray store %r" % (idx,))
        if isinstance(idx, tuple) and len(idx) == 2:
            rows_sel, rs = self._sel(I, idx[0], self.shape[0], node)
            cols_sel, cs = self._sel(I, idx[1], self.shape[1], node)
            if rs and cs:
                self.data[rows_sel[0]][cols_sel[0]] = _scalar(val)
                return
            if isinstance(val, NArr) and val.ndim == 2 and val.shape == (len(rows_sel), len(cols_sel)):
                for a, i in enumerate(rows_sel):
                    for b, j in enumerate(cols_sel):
                        self.data[i][j] = val.data[a][b]
                return
            raise Unsupported("2-D ndarray block store")
        raise Unsupported("2-D ndarray store %r" % (idx,))

    def ext_binop(self, I, op, other, reflected):
        def ap(x, y):
            return I.binop(op(), y, x) if reflected else I.binop(op(), x, y)

        if isinstance(other, NArr):
            if other.shape != self.shape:
                raise Unsupported("ndarray broadcasting between %r and %r" % (self.shape, other.shape))
            if self.ndim == 1:
                return NArr([ap(x, y) for x, y in zip(self.data, other.data)], self.shape)
            return NArr([[ap(x, y) for x, y in zip(r, s)] for r, s in zip(self.data, other.data)], self.shape)
        if isinstance(other, (PList, PDict, Obj, str)) or other is None:
            raise Unsupported("ndarray op with %r" % (other,))
        if self.ndim == 1:
            return NArr([ap(x, other) for x in self.data], self.shape)
        return NArr([[ap(x, other) for x in r] for r in self.data], self.shape)

    def ext_neg(self, I):
        return self.ext_binop(I, ast.Mult, -1, False)

    def ext_compare(self, I, op, other):
        raise Unsupported("ndarray ordering comparison")


def _scalar(v):
    if isinstance(v, NArr):
        raise Unsupported("storing array into array element")
    return v


def _tolist(I, a):
    if a.ndim == 1:
        return I.new_list(list(a.data))
    return I.new_list([I.new_list(list(r)) for r in a.data])


class PRes(PList):
    """pyparsing.ParseResults model: a list of tokens (A8); asList() gives plain nested lists."""

    __slots__ = ()

    def ext_isinstance(self, I, c):
        return c.name == "ParseResults"

    def ext_getattr(self, I, name):
        from .core import BoundM
        from .interp import _builtin_method

        if name in ("asList", "as_list"):

            def as_list(I2, a, k):
                def conv(x):
                    if isinstance(x, PRes):
                        return I2.new_list([conv(y) for y in x.items])
                    return x

                return conv(self)

            return NativeFn("ParseResults.asList", as_list)
        return BoundM(NativeFn(name, _builtin_method(name)), self)


def np_array(I, a, k):
    v = a[0]
    if isinstance(v, NArr):
        return v.copy()
    if isinstance(v, AbsValue):
        return v.abs_np_array(I)
    if isinstance(v, (PList, tuple)):
        items = v.items if isinstance(v, PList) else list(v)
        if items and all(isinstance(r, (PList, tuple, NArr)) for r in items):
            rows = []
            for r in items:
                if isinstance(r, NArr):
                    if r.ndim != 1:
                        raise Unsupported("np.array of >2-D")
                    rows.append(list(r.data))
                else:
                    rows.append(list(r.items if isinstance(r, PList) else r))
            w = len(rows[0])
            if any(len(r) != w for r in rows):
                raise Unsupported("ragged array")
            if any(isinstance(x, (PList, tuple, NArr)) for r in rows for x in r):
                raise Unsupported("np.array of >2-D")
            return NArr(rows, (len(rows), w))
        if any(isinstance(r, (PList, tuple, NArr)) for r in items):
            raise Unsupported("mixed nesting in np.array")
        return NArr(list(items), (len(items),))
    raise Unsupported("np.array(%r)" % (v,))


def np_concatenate(I, a, k):
    parts = I.iter_values(a[0])
    axis = k.get("axis", a[1] if len(a) > 1 else 0)
    if not all(isinstance(p, NArr) for p in parts):
        raise Unsupported("concatenate of non-arrays")
    nd = parts[0].ndim
    if any(p.ndim != nd for p in parts):
        I.raise_native(ValueError, None, "all the input arrays must have same number of dimensions")
    if nd == 1:
        d = []
        for p in parts:
            d.extend(p.data)
        return NArr(d, (len(d),))
    if axis == 0:
        w = parts[0].shape[1]
        if any(p.shape[1] != w for p in parts):
            I.raise_native(ValueError, None, "all the input array dimensions except for the concatenation axis must match exactly")
        d = []
        for p in parts:
            d.extend([list(r) for r in p.data])
        return NArr(d, (len(d), w))
    if axis == 1:
        h = parts[0].shape[0]
        if any(p.shape[0] != h for p in parts):
            I.raise_native(ValueError, None, "all the input array dimensions except for the concatenation axis must match exactly")
        d = [[] for _ in range(h)]
        for p in parts:
            for i in range(h):
                d[i].extend(p.data[i])
        return NArr(d, (h, len(d[0]) if d else sum(p.shape[1] for p in parts)))
    raise Unsupported("concatenate axis %r" % (axis,))


def np_delete(I, a, k):
    arr, idx = a[0], a[1]
    axis = a[2] if len(a) > 2 else k.get("axis")
    if not isinstance(arr, NArr) or not isinstance(idx, int):
        raise Unsupported("np.delete arguments")
    n = arr.shape[0]
    if idx < -n or idx >= n:
        I.raise_native(IndexError, None, "index out of bounds in np.delete")
    if arr.ndim == 1:
        d = list(arr.data)
        del d[idx]
        return NArr(d, (len(d),))
    if axis != 0:
        raise Unsupported("np.delete axis %r on 2-D" % (axis,))
    d = [list(r) for r in arr.data]
    del d[idx]
    return NArr(d, (len(d), arr.shape[1]))


def np_copy(I, a, k):
    if not isinstance(a[0], NArr):
        raise Unsupported("np.copy of non-array")
    return a[0].copy()


def np_zeros(I, a, k):
    sh = a[0]
    if isinstance(sh, int):
        return NArr([0.0] * sh, (sh,))
    if isinstance(sh, tuple) and len(sh) == 2:
        return NArr([[0.0] * sh[1] for _ in range(sh[0])], sh)
    raise Unsupported("np.zeros shape")


def np_equal(I, a, k):
    x, y = a
    if isinstance(x, NArr) or isinstance(y, NArr):
        raise Unsupported("np.equal on arrays")
    return I.py_eq(x, y)


def np_abs(I, a, k):
    v = a[0]
    if isinstance(v, NArr):
        raise Unsupported("np.abs on arrays")
    if is_z3(v):
        v = to_real(v)
        return z3.If(v >= 0, v, -v)
    return abs(v)


ISCLOSE_ATOL = 1e-8


def np_isclose(I, a, k):
    x, y = a[0], a[1]
    if "rtol" in k or "atol" in k:
        rtol, atol = k.get("rtol", 1e-5), k.get("atol", 1e-8)
    else:
        rtol, atol = 1e-5, 1e-8

    def one(u, v):
        if is_z3(u) or is_z3(v):
            u, v = to_real(u), to_real(v)
            d = u - v
            av = z3.If(v >= 0, v, -v)
            ad = z3.If(d >= 0, d, -d)
            return ad <= to_real(atol) + to_real(rtol) * av
        return abs(u - v) <= atol + rtol * abs(v)

    if isinstance(x, NArr):
        if x.ndim != 1 or isinstance(y, NArr):
            raise Unsupported("np.isclose shapes")
        return NArr([one(u, y) for u in x.data], x.shape)
    if isinstance(y, NArr):
        raise Unsupported("np.isclose shapes")
    return one(x, y)


def np_where(I, a, k):
    m = a[0]
    if len(a) != 1 or not isinstance(m, NArr) or m.ndim != 1:
        raise Unsupported("np.where form")
    idx = [i for i, v in enumerate(m.data) if I.truthy(v, "np.where[%d]" % i)]
    return (NArr(idx, (len(idx),)),)


def np_reshape(I, a, k):
    arr, shape = a[0], a[1] if len(a) > 1 else k.get("newshape", k.get("shape"))
    if not isinstance(arr, NArr) or not isinstance(shape, tuple):
        raise Unsupported("np.reshape arguments")
    flat = list(arr.data) if arr.ndim == 1 else [x for r in arr.data for x in r]
    n = len(flat)
    if shape in ((-1, 1), (n, 1)):
        return NArr([[x] for x in flat], (n, 1))
    if shape in ((-1,), (n,)):
        return NArr(flat, (n,))
    if shape in ((1, -1), (1, n)):
        return NArr([flat], (1, n))
    raise Unsupported("np.reshape to %r" % (shape,))


def np_linalg_norm(I, a, k):
    """Euclidean norm (A5): the non-negative real whose square is the sum of squares."""
    import z3

    from .core import to_real

    arr = a[0]
    axis = k.get("axis", a[2] if len(a) > 2 else None)
    keep = bool(k.get("keepdims", False))
    if not isinstance(arr, NArr) or (len(a) > 1 and a[1] is not None) or k.get("ord") is not None:
        raise Unsupported("np.linalg.norm arguments")

    def norm(xs):
        xs = [to_real(x) for x in xs]
        if all(z3.is_rational_value(z3.simplify(x)) for x in xs):
            sq = z3.simplify(z3.Sum([x * x for x in xs] + [z3.RealVal(0)]))
            fr = sq.as_fraction()
            import math
            from fractions import Fraction

            rn, rd = math.isqrt(fr.numerator), math.isqrt(fr.denominator)
            if rn * rn == fr.numerator and rd * rd == fr.denominator:
                return z3.RealVal(Fraction(rn, rd))
        r = I.ctx.fresh_real("norm")
        I.ctx.assume(z3.And(r >= 0, r * r == z3.Sum([x * x for x in xs] + [z3.RealVal(0)])), "A5.norm")
        return r

    if arr.ndim == 1 and axis is None:
        return norm(arr.data)
    if arr.ndim == 2 and axis == 1:
        vals = [norm(r) for r in arr.data]
        return NArr([[v] for v in vals], (len(vals), 1)) if keep else NArr(vals, (len(vals),))
    raise Unsupported("np.linalg.norm axis %r" % (axis,))


def make_numpy():
    fns = {
        "array": np_array,
        "concatenate": np_concatenate,
        "delete": np_delete,
        "copy": np_copy,
        "zeros": np_zeros,
        "equal": np_equal,
        "abs": np_abs,
        "isclose": np_isclose,
        "where": np_where,
        "reshape": np_reshape,
    }
    attrs = {n: NativeFn("np." + n, f) for n, f in fns.items()}
    attrs["linalg"] = ExtMod("numpy.linalg", {"norm": NativeFn("np.linalg.norm", np_linalg_norm)})
    attrs["ndarray"] = ExtType("ndarray")
    return ExtMod("numpy", attrs)


# ----------------------------------------------------------------------------------------------
def _product(I, a, k):
    rep = k.get("repeat", 1)
    pools = [I.iter_values(x) for x in a] * rep
    out = [()]
    for p in pools:
        out = [t + (x,) for t in out for x in p]
    return I.new_list(out)


def _reduce(I, a, k):
    f, seq = a[0], I.iter_values(a[1])
    if len(a) > 2:
        acc = a[2]
    else:
        if not seq:
            I.raise_native(TypeError, None, "reduce() of empty iterable with no initial value")
        acc, seq = seq[0], seq[1:]
    for x in seq:
        acc = I.call(f, [acc, x], {})
    return acc


def _copy_shallow(I, a, k):
    v = a[0]
    if isinstance(v, Obj):
        o = Obj(v.cls, I.ctx)
        o.attrs = dict(v.attrs)
        return o
    if isinstance(v, PList):
        return I.new_list(v.items)
    if isinstance(v, AbsValue):
        return v.abs_copy(I, deep=False)
    raise Unsupported("copy.copy(%r)" % (v,))


def _deepcopy(I, a, k, memo=None):
    memo = {} if memo is None else memo

    def dc(v):
        if isinstance(v, (int, float, str, bool, tuple)) or v is None or is_z3(v):
            if isinstance(v, tuple):
                return tuple(dc(x) for x in v)
            return v
        if id(v) in memo:
            return memo[id(v)]
        if isinstance(v, PList):
            n = I.new_list([])
            memo[id(v)] = n
            n.items = [dc(x) for x in v.items]
            return n
        if isinstance(v, PDict):
            n = I.new_dict()
            memo[id(v)] = n
            for t in v.keys:
                n.keys[t] = dc(v.keys[t])
                n.vals[t] = dc(v.vals[t])
            return n
        if isinstance(v, Obj):
            if v.cls.lookup("__deepcopy__")[0] is not None:
                raise Unsupported("__deepcopy__")
            n = Obj(v.cls, I.ctx)
            memo[id(v)] = n
            n.attrs = {kk: dc(x) for kk, x in v.attrs.items()}
            return n
        if isinstance(v, AbsValue):
            return v.abs_copy(I, deep=True)
        if isinstance(v, NArr):
            return v.copy()
        raise Unsupported("deepcopy(%r)" % (v,))

    return dc(a[0])


_EXT = None


def default_ext(ctx_time=None):
    """Process-wide external-module models (module-level `import numpy as np` in cached modules binds them once)."""
    global _EXT
    if _EXT is None:
        _EXT = _make_ext()
        from . import hdom

        hdom.install_numpy_h_on(_EXT)
    return _EXT


def _make_ext():
    ext = {}
    ext["numpy"] = make_numpy()
    ext["itertools"] = ExtMod("itertools", {"product": NativeFn("product", _product)})
    ext["functools"] = ExtMod("functools", {"reduce": NativeFn("reduce", _reduce)})
    ext["copy"] = ExtMod("copy", {"copy": NativeFn("copy", _copy_shallow), "deepcopy": NativeFn("deepcopy", _deepcopy)})
    ext["enum"] = ExtMod("enum", {"Enum": ExtType("Enum")})
    ext["abc"] = ExtMod("abc", {"ABC": Sink(), "abstractmethod": Sink()})
    ext["dataclasses"] = ExtMod("dataclasses", {"dataclass": Sink(), "field": Sink()})
    ext["logging"] = ExtMod("logging", {})
    tcount = [0]

    def _time(I, a, k):
        # A11: arbitrary clock value
        return I.ctx.fresh_real("time")

    ext["time"] = ExtMod("time", {"time": NativeFn("time.time", _time)})
    ext["typing"] = ExtMod("typing", {"cast": NativeFn("cast", lambda I, a, k: a[1])})
    pp_attrs = {
        "ParseResults": ExtType("ParseResults"),
        "ParseBaseException": ExtType("ParseBaseException"),
    }
    ext["pyparsing"] = ExtMod("pyparsing", pp_attrs)
    from .ext_sympy import make_sympy

    ext["sympy"] = make_sympy()
    ext["scipy.optimize"] = ExtMod("scipy.optimize", {})
    ext["scipy"] = ExtMod("scipy", {})
    ext["json"] = ExtMod("json", {})
    ext["os"] = ExtMod("os", {})
    ext["math"] = ExtMod("math", {})
    return ext
