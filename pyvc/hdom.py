"""Domain H: matrices whose rows are abstract linear functionals over a space of unknown dimension.

A row is a LinRow: a finite linear combination (numeric or symbolic real coefficients) of *base*
functionals, each an element of the uninterpreted sort RowS.  A point is an element of the
uninterpreted sort PtS; EV(base, point) is the value.  Only these scalars enter the VCs, so the VCs
do not depend on the number of variables.  Linearity in the point argument is supplied by explicit
instantiation (comb points), never by solver search (A3).

The same LP contract (A4) is offered for explicit coordinates (NArr rows of reals, points = lists of
reals) through ExplicitSpace, so that S-domain callers (tactic 2, optimize) use identical facts.
"""
from __future__ import annotations

import ast
import itertools

import z3

from .core import ExcObj, NativeFn, PathInfeasible, PList, PyRaise, Unsupported, is_z3, to_real
from .ext import NArr
from .interp import AbsValue

RowS = z3.DeclareSort("Row")
PtS = z3.DeclareSort("Pt")
EV = z3.Function("EV", RowS, PtS, z3.RealSort())


class Dim(AbsValue):
    """Number of columns of an abstract matrix: an unknown positive integer (or exactly zero)."""

    def __init__(self, name, zero=False):
        self.name = name
        self.zero = zero

    def abs_is_abstract_iterable(self):
        return False

    def abs_eq(self, I, other):
        if isinstance(other, Dim):
            if other is self:
                return True
            raise Unsupported("comparison of two different abstract dimensions")
        if isinstance(other, int):
            if other == 0:
                return self.zero
            if self.zero:
                return False
        raise Unsupported("abstract dimension == %r" % (other,))

    def abs_binop(self, I, op, other, reflected):
        if op is ast.Mult and isinstance(other, int) and not isinstance(other, bool):
            if other == 0 or self.zero:
                return 0
            return DimProduct(self, other)
        raise Unsupported("arithmetic on abstract dimension")

    def _sym(self, I):
        """the dimension as an integer unknown (>= 1, or exactly 0): orderings against it fork the path"""
        m = z3.Int("dim_" + self.name)
        if not getattr(self, "_declared", None) is I.ctx:
            I.ctx.assume(m == 0 if self.zero else m >= 1, None)
            self._declared = I.ctx
        return m

    def abs_compare(self, I, op, other):
        if isinstance(other, int) and not isinstance(other, bool):
            if op is ast.Gt and other == 0:
                return not self.zero
            m = self._sym(I)
            return {ast.Lt: m < other, ast.LtE: m <= other, ast.Gt: m > other, ast.GtE: m >= other}[op]
        raise Unsupported("ordering on abstract dimension")

    def abs_rcompare(self, I, op, other):
        # other <op> self
        if isinstance(other, int) and not isinstance(other, bool):
            m = self._sym(I)
            return {ast.Lt: other < m, ast.LtE: other <= m, ast.Gt: other > m, ast.GtE: other >= m}[op]
        raise Unsupported("ordering on abstract dimension")

    def abs_truthy(self, I, label):
        return not self.zero

    def abs_isinstance(self, I, c):
        return c == "int"

    def __repr__(self):
        return "<dim %s>" % self.name


class DimProduct(AbsValue):
    """n * m for concrete n >= 1 and unknown positive m: only its sign is known."""

    def __init__(self, dim, n):
        self.dim, self.n = dim, n

    def abs_is_abstract_iterable(self):
        return False

    def _pos(self):
        return self.n > 0

    def abs_eq(self, I, other):
        if isinstance(other, int) and other == 0:
            return not self._pos()
        raise Unsupported("abstract product == %r" % (other,))

    def abs_compare(self, I, op, other):
        if isinstance(other, int) and other == 0:
            if op is ast.Gt:
                return self._pos()
            if op is ast.GtE:
                return True
            if op is ast.Lt:
                return False
            if op is ast.LtE:
                return not self._pos()
        raise Unsupported("ordering on abstract product")

    def abs_truthy(self, I, label):
        return self._pos()


class LinRow(AbsValue):
    """sum_j k_j * base_j  (1-D array of unknown length `dim`)."""

    def __init__(self, terms, dim):
        self.terms = [(k, b) for (k, b) in terms]
        self.dim = dim

    def abs_is_abstract_iterable(self):
        return False

    def ev(self, p):
        tot = z3.RealVal(0)
        for k, b in self.terms:
            tot = tot + to_real(k) * EV(b, p)
        return tot

    def scaled(self, I, k):
        return LinRow([(I.binop(ast.Mult(), c, k), b) for c, b in self.terms], self.dim)

    def abs_binop(self, I, op, other, reflected):
        if op is ast.Mult and (isinstance(other, (int, float)) or is_z3(other)):
            return self.scaled(I, other)
        if op in (ast.Add, ast.Sub) and isinstance(other, LinRow):
            o = other if op is ast.Add else other.scaled(I, -1)
            a, b = (o, self) if reflected and op is ast.Add else (self, o)
            if reflected and op is ast.Sub:
                a, b = other, self.scaled(I, -1)
            return LinRow(a.terms + b.terms, self.dim)
        raise Unsupported("operator %s on abstract row" % op.__name__)

    def abs_neg(self, I):
        return self.scaled(I, -1)

    def abs_getattr(self, I, name):
        if name == "shape":
            return (self.dim,)
        if name == "any":
            # row.any(): is some entry non-zero?  An unknown of the path; when it is False the row is the zero functional,
            # which the contracts turn into facts at the points they use (ctx.zero_rows)
            row = self

            def any_(I2, a, k):
                nz = I2.ctx.fresh_bool("row_nonzero")
                r = I2.ctx.branch(nz, "row.any()")
                if not r:
                    zr = getattr(I2.ctx, "zero_rows", None)
                    if zr is None:
                        zr = I2.ctx.zero_rows = []
                    zr.append(row)
                return r

            return NativeFn("ndarray.any", any_)
        raise Unsupported("abstract row attribute %s" % name)

    def abs_isinstance(self, I, c):
        return getattr(c, "name", None) == "ndarray"

    def abs_copy(self, I, deep=False):
        return LinRow(self.terms, self.dim)

    def abs_len(self, I):
        return self.dim

    def same_functional(self, other):
        return len(self.terms) == len(other.terms) and all(z3.eq(to_real(a[0]), to_real(b[0])) and z3.eq(a[1], b[1]) for a, b in zip(self.terms, other.terms))


class HMat(AbsValue):
    """2-D array: concrete number of rows, abstract number of columns."""

    def __init__(self, rows, dim):
        self.rows = list(rows)
        self.dim = dim

    def abs_is_abstract_iterable(self):
        return False

    def abs_getattr(self, I, name):
        if name == "shape":
            return (len(self.rows), self.dim)
        raise Unsupported("abstract matrix attribute %s" % name)

    def abs_isinstance(self, I, c):
        return getattr(c, "name", None) == "ndarray"

    def abs_len(self, I):
        return len(self.rows)

    def abs_copy(self, I, deep=False):
        return HMat(self.rows, self.dim)

    def abs_np_array(self, I):
        return self.abs_copy(I)

    def _row_index(self, I, i):
        if not isinstance(i, int) or isinstance(i, bool):
            raise Unsupported("abstract matrix row index %r" % (i,))
        n = len(self.rows)
        if i < -n or i >= n:
            I.raise_native(IndexError, None, "index %d is out of bounds for axis 0 with size %d" % (i, n))
        return i % n

    def abs_getitem(self, I, idx):
        if isinstance(idx, int):
            return self.rows[self._row_index(I, idx)]
        from pyvc.ext import NArr as _NArr

        if isinstance(idx, _NArr) and idx.ndim == 1 and all(isinstance(x, int) and not isinstance(x, bool) for x in idx.data):
            idx = PList(list(idx.data))  # integer index array: rows picked in that order
        if isinstance(idx, PList) and all(isinstance(x, int) and not isinstance(x, bool) for x in idx.items):
            return HMat([self.rows[self._row_index(I, i)] for i in idx.items], self.dim)
        if isinstance(idx, tuple) and len(idx) == 2 and isinstance(idx[1], slice) and idx[1] == slice(None, None, None):
            r = idx[0]
            if isinstance(r, int):
                return self.rows[self._row_index(I, r)]
            if isinstance(r, PList):
                return HMat([self.rows[self._row_index(I, i)] for i in r.items], self.dim)
            if isinstance(r, slice):
                return HMat(self.rows[r], self.dim)
        raise Unsupported("abstract matrix index %r" % (idx,))

    def abs_setitem(self, I, idx, val):
        raise Unsupported("store into abstract matrix")

    def abs_binop(self, I, op, other, reflected):
        if op is ast.Mult and (isinstance(other, (int, float)) or is_z3(other)):
            return HMat([r.scaled(I, other) for r in self.rows], self.dim)
        raise Unsupported("operator %s on abstract matrix" % op.__name__)

    def abs_neg(self, I):
        return HMat([r.scaled(I, -1) for r in self.rows], self.dim)

    def abs_truthy(self, I, label):
        raise Unsupported("truth value of abstract matrix")

    def abs_iter(self, I):
        return list(self.rows)


def h_concatenate(I, a, k):
    parts = I.iter_values(a[0])
    axis = k.get("axis", a[1] if len(a) > 1 else 0)
    if axis != 0 or not all(isinstance(p, HMat) for p in parts):
        return None
    d = parts[0].dim
    for p in parts[1:]:
        if p.dim is not d:
            I.raise_native(ValueError, None, "all the input array dimensions except for the concatenation axis must match exactly")
    rows = []
    for p in parts:
        rows.extend(p.rows)
    return HMat(rows, d)


def _must(r, f):
    if r is None:
        raise Unsupported("numpy function outside the modelled subset (%s on these arguments)" % f.__name__)
    return r


def install_numpy_h(I):
    """kept for callers: the abstract-matrix cases are installed process-wide by ext.default_ext()"""
    return None


def install_numpy_h_on(ext):
    """Extend the numpy model with abstract-matrix cases (delegating to the explicit model otherwise)."""
    np = ext["numpy"]
    if getattr(np, "_h_installed", False):
        return
    np._h_installed = True
    base = dict(np.attrs)

    def wrap(name, hfn):
        orig = base[name]

        def fn(I2, a, k):
            r = hfn(I2, a, k)
            if r is not None:
                return r
            return orig.fn(I2, a, k)

        np.attrs[name] = NativeFn("np." + name, fn)

    def h_delete(I2, a, k):
        if isinstance(a[0], HMat):
            m, idx = a[0], a[1]
            axis = a[2] if len(a) > 2 else k.get("axis")
            if axis != 0:
                raise Unsupported("np.delete on abstract matrix without axis 0")
            i = m._row_index(I2, idx)
            return HMat(m.rows[:i] + m.rows[i + 1 :], m.dim)
        return None

    def h_copy(I2, a, k):
        if isinstance(a[0], (HMat, LinRow)):
            return a[0].abs_copy(I2)
        return None

    def h_zeros(I2, a, k):
        sh = a[0]
        if isinstance(sh, tuple) and len(sh) == 2 and isinstance(sh[1], Dim):
            return HMat([LinRow([], sh[1]) for _ in range(sh[0])], sh[1])
        return None

    def h_array(I2, a, k):
        if isinstance(a[0], (HMat, LinRow)):
            return a[0].abs_copy(I2)
        return None

    def h_unique(I2, a, k):
        """np.unique(m, axis=0[, return_index=True]) of an abstract matrix: which rows are equal is an unknown of the path
        (decided row by row: equal to an earlier distinct row, or new); the lexicographic order of the distinct rows is unknown
        too (every order is a path).  Rows decided equal are the same functional: their difference is recorded as a zero row,
        a fact at every point of the path (harness)."""
        if not a or not isinstance(a[0], HMat):
            return None
        m = a[0]
        axis = k.get("axis", a[1] if len(a) > 1 else None)
        extra = set(k) - {"axis", "return_index"}
        if axis != 0 or extra:
            raise Unsupported("np.unique on an abstract matrix with axis=%r %s" % (axis, sorted(extra)))
        classes = []  # (representative row, first index)
        for j, r in enumerate(m.rows):
            same = [c for c, (rep, _) in enumerate(classes) if r.same_functional(rep)]
            if same:
                continue
            ch = I2.ctx.choose(len(classes) + 1, "unique.row%d_equals" % j) if classes else 0
            if ch < len(classes):
                zr = getattr(I2.ctx, "zero_rows", None)
                if zr is None:
                    zr = I2.ctx.zero_rows = []
                zr.append(LinRow(r.terms + classes[ch][0].scaled(I2, -1).terms, m.dim))
            else:
                classes.append((r, j))
        import itertools

        perms = list(itertools.permutations(range(len(classes))))
        order = perms[I2.ctx.choose(len(perms), "unique.sorted_order")] if len(perms) > 1 else (perms[0] if perms else ())
        um = HMat([classes[c][0] for c in order], m.dim)
        if k.get("return_index"):
            from pyvc.ext import NArr as _NArr

            return (um, _NArr([classes[c][1] for c in order], (len(order),)))
        return um

    def h_sort(I2, a, k):
        from pyvc.ext import NArr as _NArr

        v = a[0] if a else None
        if isinstance(v, _NArr) and v.ndim == 1 and all(isinstance(x, int) and not isinstance(x, bool) for x in v.data) and not k:
            return _NArr(sorted(v.data), v.shape)
        raise Unsupported("np.sort of %r" % (v,))

    for nm, fn in (("unique", h_unique), ("sort", h_sort)):
        if nm in base:
            wrap(nm, fn)
        else:
            np.attrs[nm] = NativeFn("np." + nm, (lambda f: (lambda I2, a, k: _must(f(I2, a, k), f)))(fn))

    wrap("concatenate", h_concatenate)
    wrap("delete", h_delete)
    wrap("copy", h_copy)
    wrap("zeros", h_zeros)
    wrap("array", h_array)


# ----------------------------------------------------------------------------------------------
# spaces: where linear functionals are evaluated
# ----------------------------------------------------------------------------------------------
class AbstractSpace:
    def __init__(self, ctx):
        self.ctx = ctx

    def new_point(self, prefix="q"):
        p = self.ctx.fresh(PtS, prefix)
        pts = getattr(self.ctx, "h_points", None)
        if pts is None:
            pts = self.ctx.h_points = []
        pts.append(p)
        return p

    def ev(self, row, p):
        if isinstance(row, LinRow):
            return row.ev(p)
        raise Unsupported("abstract space: row %r" % (row,))

    def rows_of(self, m):
        if isinstance(m, HMat):
            return list(m.rows)
        if isinstance(m, LinRow):
            return [m]
        raise Unsupported("abstract space: matrix %r" % (m,))

    def comb(self, p, q, lam, rows):
        """A point r with ev(row, r) = ev(row,p) + lam*(ev(row,q) - ev(row,p)) for every base functional occurring in `rows`
        (A3: such a point exists - the affine combination - and linear functionals are affine along it)."""
        r = self.new_point("comb")
        facts = []
        seen = []
        for row in rows:
            for _, b in row.terms:
                if not any(z3.eq(b, s) for s in seen):
                    seen.append(b)
                    facts.append(EV(b, r) == EV(b, p) + lam * (EV(b, q) - EV(b, p)))
        return r, facts


class ExplicitSpace:
    """m explicit coordinates: rows are lists of reals, points lists of reals."""

    def __init__(self, ctx, m):
        self.ctx = ctx
        self.m = m

    def new_point(self, prefix="q"):
        return [self.ctx.fresh_real("%s_%d" % (prefix, j)) for j in range(self.m)]

    def ev(self, row, p):
        if isinstance(row, NArr):
            row = row.data
        if isinstance(row, PList):
            row = row.items
        if len(row) != self.m:
            raise Unsupported("row of length %d in space of dimension %d" % (len(row), self.m))
        tot = z3.RealVal(0)
        for c, x in zip(row, p):
            tot = tot + to_real(c) * x
        return tot

    def rows_of(self, m):
        if isinstance(m, NArr):
            if m.ndim == 2:
                return [list(r) for r in m.data]
            return [list(m.data)]
        if isinstance(m, PList):
            if m.items and isinstance(m.items[0], (PList, NArr)):
                return [list(r.items if isinstance(r, PList) else r.data) for r in m.items]
            return [list(m.items)]
        raise Unsupported("explicit space: matrix %r" % (m,))

    def comb(self, p, q, lam, rows=None):
        return [a + lam * (b - a) for a, b in zip(p, q)], []


# ----------------------------------------------------------------------------------------------
# the assumed LP contract (A4)
# ----------------------------------------------------------------------------------------------
class LPCall:
    """One call of linprog(c, A_ub, b_ub, bounds=(None,None)) under the ideal contract A4."""

    def __init__(self, space, c, rows, b, status, idx):
        self.space, self.c, self.rows, self.b, self.status, self.idx = space, c, rows, b, status, idx
        self.x = None
        self.fun = None
        self.witness = None  # a feasible point (status 0: the optimum; status 3: some feasible point)
        self.gave_up = False  # an answer outside A4 (status 1, 4, or an untrue 3): carries no information

    def feasible(self, q):
        cs = [self.space.ev(r, q) <= to_real(bi) for r, bi in zip(self.rows, self.b)]
        return z3.And(*cs) if cs else z3.BoolVal(True)

    def obj(self, q):
        return self.space.ev(self.c, q)

    # instantiation of the universally quantified parts of A4 (sound consequences, used as proof hints)
    def inst(self, q):
        if self.status == 2:
            return z3.Not(self.feasible(q))
        if self.status == 0:
            return z3.Implies(self.feasible(q), self.obj(q) >= self.fun)
        return z3.BoolVal(True)

    def inst_unbounded(self, bound):
        """status 3: some feasible point has objective below `bound`."""
        assert self.status == 3
        y = self.space.new_point("unb%d" % self.idx)
        return y, z3.And(self.feasible(y), self.obj(y) < to_real(bound))


class LPResult:
    def __init__(self, call, slack):
        self.call = call
        self.slack = slack

    def ext_getitem(self, I, idx, node=None):
        c = self.call
        if idx == "status":
            return c.status
        if idx == "fun":
            return c.fun
        if idx == "x":
            if c.x is None:
                return None
            if isinstance(c.x, list):
                return NArr(list(c.x), (len(c.x),))
            raise Unsupported("res['x'] in an abstract space")
        if idx == "slack":
            if self.slack is None:
                raise Unsupported("res['slack'] for status %d" % c.status)
            return NArr(list(self.slack), (len(self.slack),))
        if idx in ("success", "message", "nit"):
            raise Unsupported("res[%r]" % idx)
        I.raise_native(KeyError, node, "res[%r]" % (idx,))

    def ext_getattr(self, I, name):
        if name in ("status", "fun", "x", "slack"):
            return self.ext_getitem(I, name)
        raise Unsupported("res.%s" % name)


def _lp_key(v):
    """structural identity of an LP argument (z3 terms are hash-consed: equal ids iff the same term)"""
    if isinstance(v, LinRow):
        return ("row", tuple((_lp_key(k), _lp_key(base)) for k, base in v.terms))
    if is_z3(v):
        return ("z", v.get_id())
    if isinstance(v, bool):
        return ("b", v)
    if isinstance(v, (int, float)):
        return ("n", float(v))
    if isinstance(v, (list, tuple)):
        return tuple(_lp_key(x) for x in v)
    return ("o", id(v))


class LP:
    """Installs `linprog` in an interpreter as its assumed contract and logs the calls."""

    def __init__(self, h, space_for, gives_up=False):
        self.h = h
        self.calls = []
        self.space_for = space_for  # (c, A) -> space
        # outside A4: the solver may also answer 1 (iteration limit), 4 (numerical difficulties) or a 3 that is not true
        # (HiGHS presolve does that on badly scaled rows) - an answer that carries no information and no optimum
        self.gives_up = gives_up
        self.on_call = None  # optional callback(call): e.g. to assume instances of A4's quantified parts at known points
        # A4 speaks of the problem, not of the solver options: the same problem asked again (the code under contract
        # retries with other options when an answer is not "optimal" or "unbounded") gets the same answer - also outside
        # A4, where a solver that gave up gives up again. What the retries achieve on the real solver is seen natively only.
        self.memo = {}
        self.repeats = 0

    def install(self, modname="pacti.terms.polyhedra.polyhedra"):
        self.h.I.load_module(modname)
        self.h.I.overrides[(modname, "linprog")] = NativeFn("linprog", self)

    def __call__(self, I, a, k):
        names = ["c", "A_ub", "b_ub"]
        vals = {}
        for i, n in enumerate(names):
            if i < len(a):
                vals[n] = a[i]
            elif n in k:
                vals[n] = k[n]
        extra = set(k) - set(names) - {"bounds", "options"}  # solver options do not change the contract A4
        if extra or len(a) > 3:
            raise Unsupported("linprog called with %s" % sorted(extra))
        bounds = k.get("bounds")
        if bounds != (None, None):
            # precondition of the assumed contract A4 at this call site: every variable is free.  scipy's default is
            # x >= 0, which is a different problem: reported as a failed obligation, then modelled as free.
            self.h.check("A4.linprog_called_with_free_variables", False, "linprog called with bounds=%r: the problem solved is not the one over all reals" % (bounds,))
        c, A, b = vals.get("c"), vals.get("A_ub"), vals.get("b_ub")
        space = self.space_for(c, A)
        rows = space.rows_of(A)
        crow = space.rows_of(c)
        if len(crow) != 1:
            raise Unsupported("objective with %d rows" % len(crow))
        bs = list(b.data) if isinstance(b, NArr) else list(b.items)
        if isinstance(b, NArr) and b.ndim == 2:
            if b.shape[1] != 1:
                raise Unsupported("b_ub shape %r" % (b.shape,))
            bs = [r[0] for r in b.data]
        if len(bs) != len(rows):
            I.raise_native(ValueError, None, "Invalid input for linprog: b_ub must have as many rows as A_ub")
        ctx = self.h.ctx
        key = (_lp_key(crow), _lp_key(rows), _lp_key(bs))
        if key in self.memo:
            self.repeats += 1
            return self.memo[key][0]
        idx = len(self.calls)
        # A4: status is 0, 2 or 3
        options = [0, 2, 3] + ([1, 4, -3] if self.gives_up else [])
        status = options[ctx.choose(len(options), "lp%d.status" % idx)]
        call = LPCall(space, crow[0], rows, bs, abs(status), idx)
        call.gave_up = status in (1, 4, -3)
        self.calls.append(call)
        if call.gave_up:
            res = LPResult(call, None)
            self.memo[key] = (res, (crow, rows, bs))
            return res
        slack = None
        explicit = isinstance(space, ExplicitSpace)
        if status == 0:
            x = space.new_point("xopt%d" % idx)
            call.x = x if isinstance(x, list) else x
            call.witness = x
            call.fun = ctx.fresh_real("fun%d" % idx)
            self.h.assume(call.feasible(x), "A4.optimum_feasible")
            self.h.assume(call.fun == call.obj(x), "A4.fun_is_objective_at_optimum")
            slack = [to_real(bi) - space.ev(r, x) for r, bi in zip(rows, bs)]
            if explicit:
                # optimality, exactly: dual multipliers (strong duality / KKT) - so that a counter-model is a real LP outcome
                lam = [ctx.fresh_real("dual%d_%d" % (idx, i)) for i in range(len(rows))]
                cvec = space.rows_of(c)[0]
                facts = [l >= 0 for l in lam]
                for j in range(space.m):
                    facts.append(z3.Sum([lam[i] * to_real(rows[i][j]) for i in range(len(rows))] + [z3.RealVal(0)]) == -to_real(cvec[j]))
                facts += [lam[i] * slack[i] == 0 for i in range(len(rows))]
                self.h.assume(z3.And(*facts), "A4.optimality_certificate")
        elif status == 3:
            x0 = space.new_point("xfeas%d" % idx)
            call.witness = x0
            self.h.assume(call.feasible(x0), "A4.unbounded_problem_is_feasible")
            if explicit:
                d = [ctx.fresh_real("ray%d_%d" % (idx, j)) for j in range(space.m)]
                cvec = space.rows_of(c)[0]
                ray = [z3.Sum([to_real(r[j]) * d[j] for j in range(space.m)] + [z3.RealVal(0)]) <= 0 for r in rows]
                ray.append(z3.Sum([to_real(cvec[j]) * d[j] for j in range(space.m)] + [z3.RealVal(0)]) < 0)
                self.h.assume(z3.And(*ray), "A4.unboundedness_certificate")
        elif explicit:
            # infeasibility, exactly: a Farkas certificate
            lam = [ctx.fresh_real("farkas%d_%d" % (idx, i)) for i in range(len(rows))]
            facts = [l >= 0 for l in lam]
            for j in range(space.m):
                facts.append(z3.Sum([lam[i] * to_real(rows[i][j]) for i in range(len(rows))] + [z3.RealVal(0)]) == 0)
            facts.append(z3.Sum([lam[i] * to_real(bs[i]) for i in range(len(rows))] + [z3.RealVal(0)]) < 0)
            self.h.assume(z3.And(*facts), "A4.infeasibility_certificate")
        if not explicit:
            # instances of A4's universally quantified parts at the points the other answers speak of (sound consequences;
            # without them an abstract path may combine answers that no solver can give together, e.g. "infeasible" and,
            # for the same system asked differently, a feasible point)
            for o in self.calls[:-1]:
                if o.gave_up:
                    continue
                if o.witness is not None:
                    self.h.assume(call.inst(o.witness), "A4.instance_at_another_answer")
                if call.witness is not None:
                    self.h.assume(o.inst(call.witness), "A4.instance_at_another_answer")
        if self.on_call is not None:
            self.on_call(call)
        if explicit and not ctx.feasible(z3.BoolVal(True)):
            # the answer contradicts its own certificate on this path (e.g. "unbounded" over a box): not a path
            raise PathInfeasible("LP answer %d impossible here" % status)
        res = LPResult(call, slack)
        self.memo[key] = (res, (crow, rows, bs))  # (the arguments are kept alive: ids of z3 terms are reused otherwise)
        return res
