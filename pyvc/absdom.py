"""Domain U: unbounded abstract values.

* variable names are elements of the uninterpreted sort NameS; a `Var` is a real interpreted
  `Var` object whose `_name` is a NameS expression;
* a python list of Vars / Terms of unknown length is an AList: membership predicate `mem(e)` and
  duplicate predicate `dup(e)` (multiplicity >= 2), both closures z3-expr -> z3 Bool; order is
  abstracted away (every contract that uses AList speaks about sets / duplicate-freeness only);
* a Term is an element of the uninterpreted sort TermS with `tvars(t, v)` (syntactic variables,
  duplicate-free by the Term.vars contract) and `holds(t)` (truth at the one skolem behaviour b0
  all pointwise statements are instantiated at) and `holds2(t)` (truth at a second behaviour b1,
  used by renaming).
All formulas produced stay in the EPR-like fragment (no arithmetic under quantifiers), where z3
decides both sat and unsat quickly; see DESIGN.md 2.3.
"""
from __future__ import annotations

import ast

import z3

from .core import HeapObj, NativeFn, Obj, PList, PSet, PyRaise, ExcObj, Unsupported, s_and, s_not, s_or, to_bool
from .interp import AbsValue, Env

NameS = z3.DeclareSort("Name")
TermS = z3.DeclareSort("Term")
tvars = z3.Function("tvars", TermS, NameS, z3.BoolSort())
holds = z3.Function("holds", TermS, z3.BoolSort())
holds2 = z3.Function("holds2", TermS, z3.BoolSort())
ren = z3.Function("ren", TermS, NameS, NameS, TermS)


def _b(x):
    return to_bool(x) if not isinstance(x, z3.BoolRef) else x


class NoFork:
    """Context manager: symbolic branching is not allowed while evaluating an abstract comprehension body."""

    def __init__(self, ctx):
        self.ctx = ctx

    def __enter__(self):
        self.saved = self.ctx.branch

        def no_branch(cond, label=""):
            if isinstance(cond, bool):
                return cond
            c = z3.simplify(cond)
            if z3.is_true(c):
                return True
            if z3.is_false(c):
                return False
            raise Unsupported("symbolic branch inside abstract loop body (%s)" % label)

        self.ctx.branch = no_branch

    def __exit__(self, *a):
        self.ctx.branch = self.saved


class SymLen(AbsValue):
    """len() of an abstract list: only its comparisons with 0 / 1 and with len(set(same list)) are defined."""

    def __init__(self, lst, I):
        self.lst = lst
        self.nonempty = lst.nonempty_formula(I)

    def abs_is_abstract_iterable(self):
        return False

    def abs_truthy(self, I, label):
        return I.ctx.branch(self.nonempty, label or "len!=0")

    def _cmp_int(self, I, op, k, reflected):
        # self OP k   (or k OP self when reflected)
        if not isinstance(k, int) or isinstance(k, bool):
            raise Unsupported("len comparison with %r" % (k,))
        if reflected:
            op = {ast.Lt: ast.Gt, ast.Gt: ast.Lt, ast.LtE: ast.GtE, ast.GtE: ast.LtE}.get(op, op)
        ne = self.nonempty
        if op is ast.Gt:
            if k < 0:
                return True
            if k == 0:
                return ne
        if op is ast.GtE:
            if k <= 0:
                return True
            if k == 1:
                return ne
        if op is ast.Lt:
            if k <= 0:
                return False
            if k == 1:
                return z3.Not(ne)
        if op is ast.LtE:
            if k < 0:
                return False
            if k == 0:
                return z3.Not(ne)
        raise Unsupported("len(abstract list) compared with %d" % k)

    def abs_compare(self, I, op, other):
        return self._cmp_int(I, op, other, False)

    def abs_rcompare(self, I, op, other):
        return self._cmp_int(I, op, other, True)

    def abs_eq(self, I, other):
        if isinstance(other, int) and not isinstance(other, bool):
            if other < 0:
                return False
            if other == 0:
                return z3.Not(self.nonempty)
            raise Unsupported("len(abstract list) == %d" % other)
        if isinstance(other, SymLen):
            a, b = self.lst, other.lst
            if a is b:
                return True
            # |set(L)| == |L|  <=>  L duplicate-free      (cardinality lemma, trusted: A-card)
            if getattr(b, "origin", None) is a:
                return a.nodup_formula()
            if getattr(a, "origin", None) is b:
                return b.nodup_formula()
        raise Unsupported("comparison of two abstract lengths")


class AbsIndex(AbsValue):
    """Result of AList.index(x): position of the first occurrence of x."""

    def __init__(self, lst, key):
        self.lst = lst
        self.key = key
        self.version = getattr(lst, "version", 0)  # positions are not tracked: the index is only good until the list changes


class BoolFamily(AbsValue):
    """[P(x) for x in L] over an abstract list: its conjunction and disjunction as formulas (for all() and any())."""

    def __init__(self, forall, exists):
        self.forall, self.exists = forall, exists

    def abs_is_abstract_iterable(self):
        return False

    def abs_iter(self, I):
        raise Unsupported("iteration over a family of truth values (only all()/any() are supported)")


class AList(AbsValue, HeapObj):
    def __init__(self, I, sort, mem, dup, wrap, kind="list"):
        self.sort = sort
        self.mem = mem
        self.dup = dup
        self.wrap = wrap  # z3 expr -> interpreter value for an element
        self.kind = kind
        self.origin = None
        self._init_heap(I.ctx if I is not None else None)

    # -- formulas ------------------------------------------------------------
    def fresh_elem(self, I, prefix="e"):
        return I.ctx.fresh(self.sort, prefix)

    def nonempty_formula(self, I):
        e = z3.Const(I.ctx.fresh_name("w"), self.sort)
        return z3.Exists([e], _b(self.mem(e)))

    def nodup_formula(self, I=None):
        e = z3.Const("nd!%d" % id(self), self.sort)
        return z3.ForAll([e], z3.Not(_b(self.dup(e))))

    def key_of(self, I, x):
        """z3 element expression of an interpreter value."""
        if isinstance(x, ATerm):
            if self.sort != TermS:
                return None
            return x.expr
        if isinstance(x, Obj) and "_name" in x.attrs and z3.is_expr(x.attrs["_name"]):
            if self.sort != NameS:
                return None
            return x.attrs["_name"]
        if z3.is_expr(x) and x.sort() == self.sort:
            return x
        return None

    def like(self, I, mem, dup, kind=None):
        return AList(I, self.sort, mem, dup, self.wrap, kind or self.kind)

    # -- interpreter hooks -----------------------------------------------------
    def abs_is_abstract_iterable(self):
        return True

    def abs_truthy(self, I, label):
        return I.ctx.branch(self.nonempty_formula(I), label or "nonempty")

    def abs_len(self, I):
        return SymLen(self, I)

    def abs_contains(self, I, x):
        k = self.key_of(I, x)
        if k is None:
            return False
        return _b(self.mem(k))

    def abs_eq(self, I, other):
        raise Unsupported("== on abstract lists (order is abstracted)")

    def abs_copy(self, I, deep=False):
        return self.like(I, self.mem, self.dup)

    def abs_to_list(self, I):
        return self.like(I, self.mem, self.dup, "list")

    def abs_to_tuple(self, I):
        raise Unsupported("tuple(abstract list)")

    def abs_to_set(self, I):
        s = self.like(I, self.mem, lambda e: z3.BoolVal(False), "set")
        s.origin = self
        return s

    def abs_hash(self, I):
        raise Unsupported("hash of abstract list")

    def abs_isinstance(self, I, c):
        if c == "list":
            return self.kind == "list"
        if c == "set":
            return self.kind == "set"
        return False

    def abs_type(self, I):
        raise Unsupported("type(abstract list)")

    def abs_binop(self, I, op, other, reflected):
        if op is not ast.Add:
            raise Unsupported("operator %s on abstract list" % op.__name__)
        o = as_alist(I, other, self)
        if o is None:
            raise Unsupported("abstract list + %r" % (other,))
        a, b = (o, self) if reflected else (self, o)
        return self.like(
            I,
            lambda e: z3.Or(_b(a.mem(e)), _b(b.mem(e))),
            lambda e: z3.Or(_b(a.dup(e)), _b(b.dup(e)), z3.And(_b(a.mem(e)), _b(b.mem(e)))),
        )

    def abs_getattr(self, I, name):
        if name == "copy":
            return NativeFn("alist.copy", lambda I2, a, k: self.abs_copy(I2))
        if name == "append":
            return NativeFn("alist.append", lambda I2, a, k: self._append(I2, a[0]))
        if name == "remove":
            return NativeFn("alist.remove", lambda I2, a, k: self._remove(I2, a[0]))
        if name == "index":
            return NativeFn("alist.index", lambda I2, a, k: self._index(I2, a[0]))
        raise Unsupported("abstract list attribute %s" % name)

    def _append(self, I, x):
        k = self.key_of(I, x)
        if k is None:
            raise Unsupported("append of foreign value to abstract list")
        I.note_write(self, "alist.append")
        self.version = getattr(self, "version", 0) + 1
        m, d = self.mem, self.dup
        self.mem = lambda e: z3.Or(_b(m(e)), e == k)
        self.dup = lambda e: z3.Or(_b(d(e)), z3.And(_b(m(e)), e == k))
        return None

    def _require_nodup_at(self, I, k, what):
        if I.ctx.feasible(_b(self.dup(k))):
            raise Unsupported("%s of a possibly duplicated element of an abstract list" % what)

    def _remove(self, I, x):
        k = self.key_of(I, x)
        if k is None or not I.ctx.branch(_b(self.mem(k)), "remove:present"):
            raise PyRaise(ExcObj(ValueError, ("list.remove(x): x not in list",)))
        self._require_nodup_at(I, k, "remove")
        I.note_write(self, "alist.remove")
        self.version = getattr(self, "version", 0) + 1
        m, d = self.mem, self.dup
        self.mem = lambda e: z3.And(_b(m(e)), e != k)
        self.dup = lambda e: z3.And(_b(d(e)), e != k)
        return None

    def _index(self, I, x):
        k = self.key_of(I, x)
        if k is None or not I.ctx.branch(_b(self.mem(k)), "index:present"):
            raise PyRaise(ExcObj(ValueError, ("x not in list",)))
        return AbsIndex(self, k)

    def abs_setitem(self, I, idx, val):
        if not isinstance(idx, AbsIndex) or idx.lst is not self:
            raise Unsupported("store into abstract list at unknown position")
        if idx.version != getattr(self, "version", 0):
            # the list was changed after .index(): the position may have shifted (the abstraction keeps no order)
            raise Unsupported("store into abstract list at a position computed before the list was changed")
        s = idx.key
        t = self.key_of(I, val)
        if t is None:
            raise Unsupported("store of foreign value into abstract list")
        self._require_nodup_at(I, s, "item assignment")
        I.note_write(self, "alist[index] =")
        self.version = getattr(self, "version", 0) + 1
        m, d = self.mem, self.dup
        self.mem = lambda e: z3.Or(z3.And(_b(m(e)), e != s), e == t)
        self.dup = lambda e: z3.Or(z3.And(_b(d(e)), e != s), z3.And(e == t, t != s, _b(m(e))))
        return None

    def abs_getitem(self, I, idx):
        raise Unsupported("indexing an abstract list")

    def abs_iter(self, I):
        raise Unsupported("concrete iteration over an abstract list")

    def abs_enumerate(self, I):
        raise Unsupported("enumerate over an abstract list")

    # -- comprehensions --------------------------------------------------------------
    def _eval_body(self, I, e0, target, ifs, elt, env, mod):
        """Evaluate conditions and element expression on the generic element e0 (no forking)."""
        cenv = Env(env)
        I.assign(target, self.wrap(e0), cenv, mod)
        with NoFork(I.ctx):
            conds = []
            for c in ifs:
                conds.append(as_formula(I, I.eval(c, cenv, mod)))
            val = I.eval(elt, cenv, mod) if elt is not None else None
        return (z3.And(*conds) if conds else z3.BoolVal(True)), val

    def abs_listcomp(self, I, e, env, mod):
        if len(e.generators) != 1:
            raise Unsupported("nested comprehension over abstract list")
        g = e.generators[0]
        e0 = z3.Const(I.ctx.fresh_name("x"), self.sort)
        phi, val = self._eval_body(I, e0, g.target, g.ifs, e.elt, env, mod)
        src_mem, src_dup = self.mem, self.dup

        def sub(f, x):
            return z3.substitute(f, (e0, x))

        # element expression: identity?
        out_key = None
        out_sort, out_wrap = self.sort, self.wrap
        if isinstance(val, ATerm):
            out_key, out_sort, out_wrap = val.expr, TermS, ATerm
        elif isinstance(val, Obj) and z3.is_expr(val.attrs.get("_name")):
            if self.sort != NameS:
                raise Unsupported("map from terms to variables in comprehension")
            out_key, out_sort, out_wrap = val.attrs["_name"], NameS, I.u_wrap_var
        elif isinstance(val, bool) or (z3.is_expr(val) and z3.is_bool(val)):
            # a family of truth values: only all() / any() can consume it
            v = z3.BoolVal(val) if isinstance(val, bool) else val
            guard = z3.And(_b(src_mem(e0)), phi)
            return BoolFamily(z3.ForAll([e0], z3.Implies(guard, v)), z3.Exists([e0], z3.And(guard, v)))
        else:
            raise Unsupported("comprehension over abstract list producing %r" % (val,))
        if z3.eq(out_key, e0):
            return AList(
                I, self.sort, lambda x: z3.And(_b(src_mem(x)), sub(phi, x)), lambda x: z3.And(_b(src_dup(x)), sub(phi, x)), out_wrap
            )
        # general image (sets: multiplicities of images are not tracked -> only allowed for term lists)
        if out_sort != TermS:
            raise Unsupported("non-identity map over abstract variable list")

        def mem_img(y):
            return z3.Exists([e0], z3.And(_b(src_mem(e0)), phi, y == out_key))

        return AList(I, out_sort, mem_img, lambda y: z3.BoolVal(False), out_wrap)

    def abs_dictcomp(self, I, e, env, mod):
        raise Unsupported("dict comprehension over abstract list")

    # -- for-loop idioms ------------------------------------------------------------------
    def abs_for(self, I, st, env, mod):
        if st.orelse or not isinstance(st.target, ast.Name):
            raise Unsupported("for-loop over abstract list: unsupported shape at %s:%d" % (mod.name, st.lineno))
        body = st.body
        tname = st.target.id
        # idiom (a): append-filter      for t in L: if COND(t): acc.append(t)
        if (
            len(body) == 1
            and isinstance(body[0], ast.If)
            and not body[0].orelse
            and len(body[0].body) == 1
            and _is_append_of(body[0].body[0], tname)
        ):
            accname = body[0].body[0].value.func.value.id
            self._check_loop_purity(body[0].test, {tname}, accname, st, mod)
            acc = I.lookup_name(accname, env, mod)
            e0 = z3.Const(I.ctx.fresh_name("x"), self.sort)
            phi, _ = self._eval_body(I, e0, st.target, [body[0].test], None, env, mod)
            src_mem, src_dup = self.mem, self.dup
            filt = AList(
                I,
                self.sort,
                lambda x: z3.And(_b(src_mem(x)), z3.substitute(phi, (e0, x))),
                lambda x: z3.And(_b(src_dup(x)), z3.substitute(phi, (e0, x))),
                self.wrap,
            )
            env.vars[accname] = _concat_into(I, acc, filt)
            return
        # idiom (b): union-fold      for t in L: acc = list_union(acc, F(t))     (uses the contract of list_union)
        if (
            len(body) == 1
            and isinstance(body[0], ast.Assign)
            and len(body[0].targets) == 1
            and isinstance(body[0].targets[0], ast.Name)
            and isinstance(body[0].value, ast.Call)
            and isinstance(body[0].value.func, ast.Name)
            and len(body[0].value.args) == 2
            and not body[0].value.keywords
            and isinstance(body[0].value.args[0], ast.Name)
            and body[0].value.args[0].id == body[0].targets[0].id
        ):
            accname = body[0].targets[0].id
            fn = I.lookup_name(body[0].value.func.id, env, mod)
            if getattr(fn, "qualname", None) != "pacti.utils.lists:list_union":
                raise Unsupported("fold over abstract list with %r" % (fn,))
            fexpr = body[0].value.args[1]
            self._check_loop_purity(fexpr, {tname}, accname, st, mod)
            acc = I.lookup_name(accname, env, mod)
            e0 = z3.Const(I.ctx.fresh_name("x"), self.sort)
            cenv = Env(env)
            I.assign(st.target, self.wrap(e0), cenv, mod)
            with NoFork(I.ctx):
                fv = I.eval(fexpr, cenv, mod)
            if not isinstance(fv, AList):
                raise Unsupported("union-fold over abstract list: summand is %r" % (fv,))
            v0 = z3.Const(I.ctx.fresh_name("v"), fv.sort)
            if not z3.is_false(z3.simplify(_b(fv.dup(v0)))):
                raise Unsupported("union-fold summand may contain duplicates")
            a0 = as_alist(I, acc, fv)
            if a0 is None:
                raise Unsupported("union-fold accumulator %r" % (acc,))
            src_mem = self.mem
            fmem = _b(fv.mem(v0))

            def mem(v):
                return z3.Or(_b(a0.mem(v)), z3.Exists([e0], z3.And(_b(src_mem(e0)), z3.substitute(fmem, (v0, v)))))

            env.vars[accname] = AList(I, fv.sort, mem, a0.dup, fv.wrap)
            return
        raise Unsupported("for-loop over abstract list matches no summarised idiom at %s:%d" % (mod.name, st.lineno))

    def _check_loop_purity(self, expr, allowed_loop_names, accname, st, mod):
        for n in ast.walk(expr):
            if isinstance(n, ast.Name) and n.id == accname:
                raise Unsupported("loop condition reads the accumulator at %s:%d" % (mod.name, st.lineno))
            if isinstance(n, (ast.Lambda, ast.ListComp, ast.DictComp, ast.GeneratorExp, ast.NamedExpr)):
                raise Unsupported("complex expression in abstract loop at %s:%d" % (mod.name, st.lineno))


def _is_append_of(stmt, tname):
    return (
        isinstance(stmt, ast.Expr)
        and isinstance(stmt.value, ast.Call)
        and isinstance(stmt.value.func, ast.Attribute)
        and stmt.value.func.attr == "append"
        and isinstance(stmt.value.func.value, ast.Name)
        and len(stmt.value.args) == 1
        and isinstance(stmt.value.args[0], ast.Name)
        and stmt.value.args[0].id == tname
        and not stmt.value.keywords
    )


def _concat_into(I, acc, more):
    if isinstance(acc, PList) and not acc.items:
        return more
    a = as_alist(I, acc, more)
    if a is None:
        raise Unsupported("append-filter accumulator %r" % (acc,))
    return a.abs_binop(I, ast.Add, more, False)


def as_alist(I, v, like):
    """View a value as AList of the same element sort as `like` (concrete lists of abstract elements are lifted)."""
    if isinstance(v, AList):
        if v.sort != like.sort:
            return None
        return v
    if isinstance(v, PList):
        keys = []
        for x in v.items:
            k = like.key_of(I, x)
            if k is None:
                return None
            keys.append(k)

        def mem(e):
            return z3.Or(*[e == k for k in keys]) if keys else z3.BoolVal(False)

        def dup(e):
            cs = [z3.And(e == keys[i], e == keys[j]) for i in range(len(keys)) for j in range(i + 1, len(keys))]
            return z3.Or(*cs) if cs else z3.BoolVal(False)

        return AList(I, like.sort, mem, dup, like.wrap)
    return None


def as_formula(I, v):
    """Boolean meaning of a value inside an abstract loop body, without forking."""
    if isinstance(v, bool):
        return z3.BoolVal(v)
    if isinstance(v, z3.BoolRef):
        return v
    if isinstance(v, AList):
        return v.nonempty_formula(I)
    if isinstance(v, PList):
        return z3.BoolVal(len(v.items) > 0)
    raise Unsupported("condition value %r in abstract loop" % (v,))


class ATerm(AbsValue):
    """An abstract Term (element of TermS). Immutable at this level of abstraction."""

    def __init__(self, expr):
        self.expr = expr

    def abs_is_abstract_iterable(self):
        return False

    def abs_getattr(self, I, name):
        t = self.expr
        if name == "vars":
            return AList(I, NameS, lambda v: tvars(t, v), lambda v: z3.BoolVal(False), I.u_wrap_var)
        if name == "copy":
            return NativeFn("term.copy", lambda I2, a, k: ATerm(t))
        if name == "contains_var":
            return NativeFn("term.contains_var", lambda I2, a, k: tvars(t, a[0].attrs["_name"]))
        if name == "rename_variable":

            def _ren(I2, a, k):
                s, u = a[0].attrs["_name"], a[1].attrs["_name"]
                return ATerm(ren(t, s, u))

            return NativeFn("term.rename_variable", _ren)
        raise Unsupported("abstract term attribute %s" % name)

    def abs_eq(self, I, other):
        if isinstance(other, ATerm):
            return self.expr == other.expr
        return False

    def abs_truthy(self, I, label):
        return True

    def abs_hash(self, I):
        return ("hashterm", self.expr)

    def abs_isinstance(self, I, c):
        return getattr(c, "name", None) in ("Term",)

    def abs_copy(self, I, deep=False):
        return ATerm(self.expr)


class Opaque(AbsValue):
    """A value passed through untouched (tactics_order, statistics)."""

    def __init__(self, label):
        self.label = label

    def abs_is_abstract_iterable(self):
        return False

    def abs_truthy(self, I, label):
        raise Unsupported("truthiness of opaque value %s" % self.label)

    def abs_eq(self, I, other):
        return other is self

    def abs_copy(self, I, deep=False):
        return self

    def abs_isinstance(self, I, c):
        return False

    def __repr__(self):
        return "<opaque %s>" % self.label


def sat_formula(tl_terms, I, h=holds):
    """[[T]] at the skolem behaviour: every member term holds."""
    if isinstance(tl_terms, PList):
        return z3.And(*[h(x.expr) for x in tl_terms.items]) if tl_terms.items else z3.BoolVal(True)
    t = z3.Const(I.ctx.fresh_name("t"), TermS)
    return z3.ForAll([t], z3.Implies(_b(tl_terms.mem(t)), h(t)))


def mem_of(lst, I, like_sort=None):
    """membership closure of a list value (AList or concrete PList of abstract elements)."""
    if isinstance(lst, AList):
        return lst.mem
    if isinstance(lst, PList):
        keys = []
        for x in lst.items:
            if isinstance(x, ATerm):
                keys.append(x.expr)
            elif isinstance(x, Obj):
                keys.append(x.attrs["_name"])
            else:
                raise Unsupported("mem_of element %r" % (x,))
        return lambda e: z3.Or(*[e == k for k in keys]) if keys else z3.BoolVal(False)
    raise Unsupported("mem_of(%r)" % (lst,))


def dup_of(lst, I):
    if isinstance(lst, AList):
        return lst.dup
    if isinstance(lst, PList):
        a = None
        for x in lst.items:
            pass
        keys = [x.expr if isinstance(x, ATerm) else x.attrs["_name"] for x in lst.items]

        def dup(e):
            cs = [z3.And(e == keys[i], e == keys[j]) for i in range(len(keys)) for j in range(i + 1, len(keys))]
            return z3.Or(*cs) if cs else z3.BoolVal(False)

        return dup
    raise Unsupported("dup_of(%r)" % (lst,))
