"""Contract harness: runs a sidecar contract over all paths of the real function and discharges obligations."""
from __future__ import annotations

import hashlib
import json
import os
import time
import traceback

import z3

from .core import (
    Budget,
    budget_ms,
    ExcObj,
    Obj,
    PathCtx,
    PathInfeasible,
    PyRaise,
    Unsupported,
    explore,
    to_bool,
)
from .ext import default_ext
from .interp import Interp

SRC_ROOT = os.environ.get("PACTI_SRC", "/repo/src")


class Outcome:
    def __init__(self, kind, value=None, exc=None, where=None):
        self.kind = kind  # 'return' | 'raise'
        self.value = value
        self.exc = exc
        self.where = where

    @property
    def exc_name(self):
        if self.exc is None:
            return None
        return self.exc.cls.__name__ if isinstance(self.exc, ExcObj) else self.exc.cls.name

    def exc_is(self, interp, target):
        from .core import exc_isinstance

        return self.exc is not None and exc_isinstance(self.exc, target)

    def __repr__(self):
        return "<Outcome %s %s>" % (self.kind, self.exc_name or "")


class H:
    """Per-path harness state handed to a contract function."""

    def __init__(self, ctx, src_root=None):
        self.ctx = ctx
        self.I = Interp(src_root or SRC_ROOT, ctx, default_ext())
        self.obligations = []  # (clause, formula, meta)
        self.covers = []
        self.struct_failures = []  # (clause, text): non-solver obligations that failed on this path
        self.struct_checked = []

    # -- running the function under contract ------------------------------------------------
    def call(self, f, args, kwargs=None):
        I = self.I
        self.ctx.epoch += 1
        I.call_epoch = self.ctx.epoch
        n_writes = len(self.ctx.writes)
        try:
            v = I.call(f, list(args), dict(kwargs or {}))
            out = Outcome("return", v)
        except PyRaise as pr:
            out = Outcome("raise", exc=pr.exc, where=pr.where)
        finally:
            I.call_epoch = None
        out.writes = self.ctx.writes[n_writes:]
        return out

    def method(self, obj, name):
        return self.I.getattr(obj, name)

    # -- obligations --------------------------------------------------------------------------
    def ensure(self, clause, formula, hints=(), **meta):
        """Obligation: path condition, assumed facts and the given hint instances imply `formula`.

        `hints` must be sound consequences of assumed contracts (instantiations of their quantified parts)."""
        if isinstance(formula, bool):
            formula = z3.BoolVal(formula)
        hints = [x for x in hints if x is not True]
        if hints:
            formula = z3.Implies(z3.And(*[to_bool(x) if not isinstance(x, z3.BoolRef) else x for x in hints]), formula)
        self.obligations.append((clause, formula, meta))

    def check(self, clause, ok, text=""):
        """Structural (solver-free) obligation decided by the engine on this path."""
        self.struct_checked.append(clause)
        if not ok:
            self.struct_failures.append((clause, text))

    def cover(self, label):
        self.covers.append(label)

    def assume(self, f, label=None):
        self.ctx.assume(to_bool(f) if not isinstance(f, z3.BoolRef) else f, label)

    def frame_ok(self, out, clause="frame"):
        self.check(clause, not out.writes, "writes to objects that existed before the call: %s" % [w[1] for w in out.writes])


def _model_to_text(m, limit=4000):
    try:
        s = str(m)
    except Exception as e:  # pragma: no cover
        s = "<model unprintable: %r>" % (e,)
    return s[:limit]


def discharge(pc, formula, timeout_ms=10000):
    """Check pc => formula. Returns (status, seconds, model_text, backend)."""
    from pyvc.core import budget_ms

    timeout_ms = budget_ms(timeout_ms)
    s = z3.Solver()
    s.set("timeout", timeout_ms)
    for f in pc:
        s.add(f)
    s.add(z3.Not(formula))
    t0 = time.time()
    r = s.check()
    dt = time.time() - t0
    if r == z3.unsat:
        return "discharged", dt, None, "z3"
    if r == z3.sat:
        return "refuted", dt, s.model(), "z3"
    # second opinion: cvc5 on the exported query
    st, dt2, txt = _cvc5(s, timeout_ms)
    if st == "unsat":
        return "discharged", dt + dt2, None, "cvc5"
    if st == "sat":
        return "refuted", dt + dt2, txt, "cvc5"
    return "undecided", dt + dt2, s.reason_unknown(), "z3+cvc5"


def _cvc5(solver, timeout_ms):
    import subprocess
    import tempfile

    exe = "/usr/bin/cvc5"
    if not os.path.exists(exe):
        return "unknown", 0.0, ""
    smt = "(set-logic ALL)\n" + solver.to_smt2()
    with tempfile.NamedTemporaryFile("w", suffix=".smt2", delete=False) as f:
        f.write(smt)
        path = f.name
    t0 = time.time()
    try:
        p = subprocess.run(
            [exe, "--tlimit=%d" % timeout_ms, "--full-saturate-quant", path], capture_output=True, text=True, timeout=timeout_ms / 1000 + 5
        )
        out = p.stdout.strip().splitlines()
        st = out[0] if out else "unknown"
    except Exception:
        st = "unknown"
    finally:
        os.unlink(path)
    return st, time.time() - t0, ""


class ContractResult:
    def __init__(self, name):
        self.name = name
        self.obligations = []  # dicts
        self.paths = 0
        self.infeasible = 0
        self.outcomes = {}
        self.covers = {}
        self.error = None
        self.wall_s = 0.0
        self.solver_s = 0.0
        self.lines = set()
        self.unknown_feasibility = 0

    def to_json(self):
        return {
            "contract": self.name,
            "paths": self.paths,
            "outcomes": self.outcomes,
            "covers": self.covers,
            "obligations": self.obligations,
            "error": self.error,
            "wall_s": round(self.wall_s, 3),
            "solver_s": round(self.solver_s, 3),
            "lines": sorted(self.lines),
            "unknown_feasibility_paths": self.unknown_feasibility,
        }


def run_contract(name, fn, src_root=None, max_paths=200000, time_limit_s=900, timeout_ms=10000, keep_models=True, model_hook=None, shard=None):
    """Explore all paths of contract `fn(h)`; discharge every obligation. Never raises."""
    res = ContractResult(name)
    t0 = time.time()

    def one(ctx):
        h = H(ctx, src_root)
        try:
            fn(h)
        except PyRaise as pr:
            raise Unsupported("exception escaped the contract harness itself: %s" % pr.cls_name())
        return h

    try:
        runs, stats = explore(one, max_paths=max_paths, time_limit_s=time_limit_s, shard=shard, on_path=lambda c_, h_: _finish_path(res, c_, h_, timeout_ms, keep_models, model_hook))
    except Unsupported as e:
        res.error = "unsupported: %s" % e
        res.wall_s = time.time() - t0
        return res
    except Budget as e:
        res.error = "budget: %s" % e
        res.wall_s = time.time() - t0
        return res
    except Exception as e:  # engine bug: checker error, never a verdict
        res.error = "engine-error: %r\n%s" % (e, traceback.format_exc()[-3000:])
        res.wall_s = time.time() - t0
        return res
    res.paths = stats["paths"]
    res.infeasible = stats["infeasible"]
    res.wall_s = time.time() - t0
    return res


def _finish_path(res, ctx, h, timeout_ms, keep_models, model_hook):
    """obligations of one finished path: discharged at once, then the path is dropped"""
    if True:
        res.solver_s += ctx.t_solver
        res.lines |= h.I.lines_reached
        if ctx.unknown_feasibility:
            res.unknown_feasibility += 1
        sig = ctx.signature()
        for c in h.covers:
            res.covers[c] = res.covers.get(c, 0) + 1
        for clause in h.struct_checked:
            failed = [t for (c, t) in h.struct_failures if c == clause]
            rec = {
                "clause": clause,
                "path": sig,
                "kind": "structural",
                "status": "refuted" if failed else "discharged",
                "backend": "engine",
                "time_s": 0.0,
                "detail": failed[0] if failed else None,
            }
            if failed:
                # a structural failure counts only on a path that some input takes: a model of the path condition is that
                # input; a path whose feasibility the solver left open at a branch is not evidence of anything
                sv = z3.Solver()
                sv.set("timeout", budget_ms(timeout_ms))
                for f in ctx.pc:
                    sv.add(f)
                t1 = time.time()
                verdict = sv.check()
                res.solver_s += time.time() - t1
                if verdict == z3.unsat:
                    rec["status"], rec["backend"], rec["detail"] = "discharged", "z3", "path infeasible"
                elif verdict != z3.sat:
                    rec["status"], rec["backend"], rec["reason"] = "undecided", "z3", "path feasibility: " + sv.reason_unknown()
                else:
                    rec["model"] = _model_to_text(sv.model())
                    if model_hook is not None:
                        try:
                            rec["witness"] = model_hook(h, ctx, sv.model(), clause, {})
                        except Exception as e:
                            rec["witness_error"] = repr(e)
            res.obligations.append(rec)
        # rows found to be the zero functional on this path (row.any() False, rows decided equal by np.unique): a fact at every
        # point the path speaks of (A5)
        zfacts = []
        for zrow in getattr(ctx, "zero_rows", None) or []:
            for pt in getattr(ctx, "h_points", None) or []:
                try:
                    zfacts.append(zrow.ev(pt) == 0)
                except Exception:
                    pass
        for clause, formula, meta in h.obligations:
            if zfacts:
                formula = z3.Implies(z3.And(*zfacts), formula)
            status, dt, model, backend = discharge(ctx.pc, formula, timeout_ms)
            res.solver_s += dt
            rec = {"clause": clause, "path": sig, "kind": "vc", "status": status, "backend": backend, "time_s": round(dt, 4)}
            if status == "refuted":
                rec["model"] = _model_to_text(model) if keep_models else None
                if model_hook is not None and not isinstance(model, str):
                    try:
                        rec["witness"] = model_hook(h, ctx, model, clause, meta)
                    except Exception as e:
                        rec["witness_error"] = repr(e)
            if status == "undecided":
                rec["reason"] = str(model)
            if meta:
                rec["meta"] = {k: str(v) for k, v in meta.items()}
            res.obligations.append(rec)


def obligation_id(contract, rec):
    h = hashlib.sha1(rec["path"].encode()).hexdigest()[:8]
    return "%s.%s@%s" % (contract, rec["clause"], h)
