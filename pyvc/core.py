"""pyvc core: value model, path context (decision-replay exploration), solver helpers.

The interpreter (interp.py) evaluates the *real* ast of /repo/src over these values.
Symbolic scalars are plain z3 expressions (Bool / Real / Int / uninterpreted sorts).
"""
from __future__ import annotations

import itertools
import time
from fractions import Fraction

import z3


class Unsupported(Exception):
    """Construct outside the engine's subset: checker error (exit 3), never a verdict."""


class PathInfeasible(Exception):
    """Current path condition became unsatisfiable (harness `assume` of a contradictory fact)."""


class Budget(Exception):
    """Exploration budget exceeded."""


# ----------------------------------------------------------------------------------------------
# values
# ----------------------------------------------------------------------------------------------
_oid = itertools.count(1)


class HeapObj:
    """Anything with identity and an allocation epoch (for frame / freshness obligations)."""

    __slots__ = ("oid", "epoch")

    def _init_heap(self, ctx):
        self.oid = next(_oid)
        self.epoch = ctx.epoch if ctx is not None else 0


class PList(HeapObj):
    __slots__ = ("items",)

    def __init__(self, items, ctx=None):
        self.items = list(items)
        self._init_heap(ctx)

    def __repr__(self):
        return "PList(%r)" % (self.items,)


class PDict(HeapObj):
    """Insertion-ordered dict. Keys are looked up through key_token()."""

    __slots__ = ("keys", "vals")

    def __init__(self, ctx=None):
        self.keys = {}  # token -> key value
        self.vals = {}  # token -> value
        self._init_heap(ctx)

    def __repr__(self):
        return "PDict(%r)" % ({k: self.vals[k] for k in self.keys},)


class PSet(HeapObj):
    __slots__ = ("keys",)

    def __init__(self, ctx=None):
        self.keys = {}
        self._init_heap(ctx)


class Obj(HeapObj):
    __slots__ = ("cls", "attrs")

    def __init__(self, cls, ctx=None):
        self.cls = cls
        self.attrs = {}
        self._init_heap(ctx)

    def __repr__(self):
        return "<Obj %s %r>" % (self.cls.name, self.attrs)


class ClassV:
    def __init__(self, name, bases, module):
        self.name = name
        self.bases = bases  # list of ClassV or native exception classes or ExtType
        self.ns = {}
        self.module = module
        self.is_dataclass = False
        self.dc_fields = []  # (name, default_node or None, default_factory_node or None, init)
        self.is_enum = False

    def mro(self):
        out = [self]
        for b in self.bases:
            if isinstance(b, ClassV):
                for c in b.mro():
                    if c not in out:
                        out.append(c)
        return out

    def lookup(self, name):
        for c in self.mro():
            if name in c.ns:
                return c.ns[name], c
        return None, None

    def native_bases(self):
        out = []
        for c in self.mro():
            for b in c.bases:
                if isinstance(b, type):
                    out.append(b)
        return out

    def is_subclass_of(self, other):
        if isinstance(other, ClassV):
            return other in self.mro()
        if isinstance(other, type):
            return any(issubclass(b, other) for b in self.native_bases())
        if isinstance(other, ExtType):
            # an external base class (pyparsing.ParseBaseException ...): by name, along the interpreted bases
            return any((isinstance(b, ExtType) and b.name == other.name) for c in self.mro() for b in c.bases)
        return False

    def __repr__(self):
        return "<class %s>" % self.name


class FuncV:
    def __init__(self, node, module, qualname, env=None, cls=None):
        self.node = node
        self.module = module
        self.qualname = qualname
        self.env = env  # enclosing Env for closures / lambdas
        self.cls = cls
        self.defaults = []
        self.kw_defaults = {}

    def __repr__(self):
        return "<func %s>" % self.qualname


class BoundM:
    def __init__(self, func, self_obj, cls=None):
        self.func = func
        self.self_obj = self_obj
        self.cls = cls  # class where found (for super())


class StaticM:
    def __init__(self, func):
        self.func = func


class PropertyV:
    def __init__(self, func):
        self.func = func


class NativeFn:
    """Engine-provided callable: fn(interp, args, kwargs) -> value."""

    def __init__(self, name, fn):
        self.name = name
        self.fn = fn

    def __repr__(self):
        return "<native %s>" % self.name


class ExtMod:
    def __init__(self, name, attrs=None):
        self.name = name
        self.attrs = attrs or {}


class ExtType:
    """Marker for an external type used with isinstance (np.ndarray, sympy Float, pp.ParseResults...)."""

    def __init__(self, name):
        self.name = name

    def __repr__(self):
        return "<exttype %s>" % self.name


class Sink:
    """Absorbs module-level construction we do not interpret (typing objects, pyparsing grammar graph)."""

    def __repr__(self):
        return "<sink>"


class OpaqueStr:
    """A string whose content is not modelled (messages)."""

    def __repr__(self):
        return "<opaque-str>"


class FormattedNumber(OpaqueStr):
    """format(x, spec) of a symbolic number with an explicit format spec: opaque as a string (such formatting rounds, so
    nothing follows from two of them being equal), but a contract can see WHICH number was formatted and how."""

    def __init__(self, expr, spec):
        self.expr, self.spec = expr, spec

    def __repr__(self):
        return "<format(%s, %r)>" % (self.expr, self.spec)


class ModV:
    def __init__(self, name, path):
        self.name = name
        self.path = path
        self.ns = {}
        self.tree = None


class ExcObj:
    """Instance of a native exception class raised by interpreted code."""

    def __init__(self, cls, args=()):
        self.cls = cls  # native exception type
        self.args = args
        self.cause = None

    def __repr__(self):
        return "<exc %s>" % self.cls.__name__


class PyRaise(Exception):
    """An interpreted exception propagating through the interpreter."""

    def __init__(self, exc, where=None):
        self.exc = exc  # ExcObj or Obj (instance of ClassV deriving from an exception)
        self.where = where

    def cls_name(self):
        e = self.exc
        if isinstance(e, ExcObj):
            return e.cls.__name__
        return e.cls.name


def exc_isinstance(exc, target):
    """Does interpreted exception value `exc` match except-clause class `target`?"""
    if isinstance(target, tuple):
        return any(exc_isinstance(exc, t) for t in target)
    if isinstance(exc, ExcObj):
        if isinstance(target, type):
            return issubclass(exc.cls, target)
        return False
    if isinstance(exc, Obj):
        return exc.cls.is_subclass_of(target)
    return False


# ----------------------------------------------------------------------------------------------
# z3 helpers
# ----------------------------------------------------------------------------------------------
def is_z3(v):
    return isinstance(v, z3.ExprRef)


def is_sym_bool(v):
    return isinstance(v, z3.BoolRef)


def is_sym_num(v):
    return isinstance(v, z3.ArithRef)


def to_real(v):
    """Lift a concrete python number to a z3 real (exact: floats are the rationals they denote)."""
    if isinstance(v, z3.ArithRef):
        if v.is_int():
            return z3.ToReal(v)
        return v
    if isinstance(v, bool):
        return z3.RealVal(int(v))
    if isinstance(v, int):
        return z3.RealVal(v)
    if isinstance(v, float):
        if v != v or v in (float("inf"), float("-inf")):
            raise Unsupported("non-finite float in symbolic arithmetic")
        return z3.RealVal(str(Fraction(v)))
    if isinstance(v, Fraction):
        return z3.RealVal(str(v))
    raise Unsupported("cannot lift %r to real" % (v,))


def to_bool(v):
    if isinstance(v, z3.BoolRef):
        return v
    if isinstance(v, bool):
        return z3.BoolVal(v)
    raise Unsupported("cannot lift %r to bool" % (v,))


def s_and(*xs):
    xs = [x for x in xs if x is not True]
    if any(x is False for x in xs):
        return False
    if not xs:
        return True
    if all(isinstance(x, bool) for x in xs):
        return all(xs)
    return z3.And(*[to_bool(x) for x in xs]) if len(xs) > 1 else xs[0]


def s_or(*xs):
    xs = [x for x in xs if x is not False]
    if any(x is True for x in xs):
        return True
    if not xs:
        return False
    return z3.Or(*[to_bool(x) for x in xs]) if len(xs) > 1 else xs[0]


def s_not(x):
    if isinstance(x, bool):
        return not x
    return z3.Not(x)


def s_implies(a, b):
    return s_or(s_not(a), b)


# ----------------------------------------------------------------------------------------------
# path context
def budget_ms(ms):
    """Wall-clock solver budgets are scaled with the machine's load, so that a verdict does not flip to `undecided` when
    other jobs share the cores (the budget bounds work, not elapsed time)."""
    import os

    try:
        load = os.getloadavg()[0] / max(1, os.cpu_count() or 1)
    except OSError:
        load = 1.0
    return int(ms * min(16.0, max(1.0, 1.5 * load)))


# ----------------------------------------------------------------------------------------------
class PathCtx:
    """One execution path. Decisions are replayed from `decisions`; new forks push alternatives."""

    def __init__(self, decisions=(), feas_timeout_ms=3000, max_decisions=400):
        self.decisions = list(decisions)
        self.pos = 0
        self.alternatives = []
        self.pc = []
        self.solver = z3.Solver()
        self.solver.set("timeout", budget_ms(feas_timeout_ms))
        self.counter = itertools.count()
        self.epoch = 0
        self.trace = []  # (label, decision) for path signatures
        self.max_decisions = max_decisions
        self.facts_labels = []  # names of contract facts assumed on this path
        self.writes = []  # (obj, description) heap writes to old objects
        self.unknown_feasibility = False
        self.n_checks = 0
        self.t_solver = 0.0
        self.notes = []

    # -- fresh symbols ---------------------------------------------------------
    def fresh_name(self, prefix):
        return "%s!%d" % (prefix, next(self.counter))

    def fresh(self, sort, prefix="k"):
        return z3.Const(self.fresh_name(prefix), sort)

    def fresh_real(self, prefix="r"):
        return z3.Real(self.fresh_name(prefix))

    def fresh_bool(self, prefix="b"):
        return z3.Bool(self.fresh_name(prefix))

    def named_real(self, name):
        """a universally quantified real of the VC with a fixed name (a replay substitutes its model value)"""
        return z3.Real(name)

    # -- assumptions -----------------------------------------------------------
    def assume(self, f, label=None):
        if f is True:
            return
        if f is False:
            raise PathInfeasible(label or "false assumed")
        self.pc.append(f)
        self.solver.add(f)
        if label:
            self.facts_labels.append(label)

    def _check(self, *extra):
        t0 = time.time()
        self.n_checks += 1
        r = self.solver.check(*extra)
        self.t_solver += time.time() - t0
        return r

    def feasible(self, f):
        r = self._check(f)
        if r == z3.unknown:
            self.unknown_feasibility = True
            return True
        return r == z3.sat

    # -- branching -------------------------------------------------------------
    def branch(self, cond, label=""):
        """Decide a symbolic boolean; returns the python bool taken on this path."""
        if isinstance(cond, bool):
            return cond
        cond = z3.simplify(cond)
        if z3.is_true(cond):
            return True
        if z3.is_false(cond):
            return False
        if self.pos < len(self.decisions):
            d = self.decisions[self.pos]
            self.pos += 1
        else:
            if self.pos >= self.max_decisions:
                raise Budget("too many decisions on one path")
            ft = self.feasible(cond)
            ff = self.feasible(z3.Not(cond))
            if ft and ff:
                d = True
                self.alternatives.append(self.decisions[: self.pos] + [False])
            elif ft:
                d = True
            elif ff:
                d = False
            else:
                raise PathInfeasible("both branches infeasible at %s" % label)
            self.decisions.append(d)
            self.pos += 1
        self.assume(cond if d else z3.Not(cond))
        self.trace.append((label, d))
        return d

    def choose(self, n, label=""):
        """n-way nondeterministic choice (outcomes of a callee contract); returns index."""
        for i in range(n - 1):
            if self._choice_bit(label + ":%d" % i):
                return i
        return n - 1

    def _choice_bit(self, label):
        if self.pos < len(self.decisions):
            d = self.decisions[self.pos]
            self.pos += 1
        else:
            if self.pos >= self.max_decisions:
                raise Budget("too many decisions on one path")
            d = True
            self.alternatives.append(self.decisions[: self.pos] + [False])
            self.decisions.append(d)
            self.pos += 1
        self.trace.append((label, d))
        return d

    def signature(self):
        return ",".join("%s:%s" % (l, "T" if d else "F") for l, d in self.trace if l)


def explore(run, max_paths=20000, time_limit_s=600, feas_timeout_ms=3000, shard=None, on_path=None):
    """Run `run(ctx)` once per feasible path. Returns list of (ctx, result) and stats; with `on_path`, each finished path is
    handed to it at once and nothing is kept (memory stays flat over hundreds of thousands of paths).

    shard=(i, n): the path tree is split deterministically into disjoint subtrees (breadth-first expansion until there
    are about 6n of them); shard i explores subtrees i, i+n, ...; the paths met during the expansion belong to shard 0."""
    work = [[]]
    results = []
    t0 = time.time()
    n = 0
    infeasible = 0
    if shard is not None and shard[1] > 1:
        si, sn = shard
        target = 6 * sn
        pre = []
        while work and len(work) < target:
            dec = work.pop(0)
            ctx = PathCtx(dec, feas_timeout_ms=feas_timeout_ms)
            n += 1
            try:
                res = run(ctx)
            except PathInfeasible:
                infeasible += 1
                work.extend(ctx.alternatives)
                continue
            work.extend(ctx.alternatives)
            pre.append((ctx, res))
        work = work[si::sn]
        if si == 0:
            if on_path is not None:
                for c_, r_ in pre:
                    on_path(c_, r_)
            else:
                results.extend(pre)
        else:
            n, infeasible = 0, 0
        del pre
    while work:
        if n >= max_paths:
            raise Budget("more than %d paths" % max_paths)
        if time.time() - t0 > budget_ms(time_limit_s * 1000) / 1000.0:
            raise Budget("exploration time limit %ss" % time_limit_s)
        dec = work.pop()
        ctx = PathCtx(dec, feas_timeout_ms=feas_timeout_ms)
        n += 1
        try:
            res = run(ctx)
        except PathInfeasible:
            infeasible += 1
            work.extend(ctx.alternatives)
            continue
        work.extend(ctx.alternatives)
        if on_path is not None:
            on_path(ctx, res)
        else:
            results.append((ctx, res))
    return results, {"paths": n, "infeasible": infeasible, "wall_s": time.time() - t0}
