"""pyvc interpreter: evaluates the real ast of /repo/src over symbolic values.

What is dropped from the source text (and only this): docstrings, annotations, comments,
`logging.*(...)` calls (no-ops, arguments not evaluated), and the arguments of an exception
constructor that is the direct operand of `raise` (messages; assumption A7).
Anything else is interpreted or raises Unsupported (checker error).
"""
from __future__ import annotations

import ast
import operator
import os

import z3

from .core import (
    BoundM,
    ClassV,
    ExcObj,
    ExtMod,
    ExtType,
    FuncV,
    ModV,
    NativeFn,
    Obj,
    OpaqueStr,
    PDict,
    PList,
    PropertyV,
    PSet,
    PyRaise,
    Sink,
    StaticM,
    Unsupported,
    exc_isinstance,
    is_sym_bool,
    is_sym_num,
    is_z3,
    s_and,
    s_not,
    s_or,
    to_bool,
    to_real,
)


class _Return(Exception):
    def __init__(self, value):
        self.value = value


class _Break(Exception):
    pass


class _Continue(Exception):
    pass


class Env:
    __slots__ = ("vars", "parent")

    def __init__(self, parent=None):
        self.vars = {}
        self.parent = parent

    def lookup(self, name):
        e = self
        while e is not None:
            if name in e.vars:
                return e.vars[name], True
            e = e.parent
        return None, False


class FmtReal:
    """str() / f"{x}" of a symbolic real (default float formatting)."""

    def __init__(self, expr):
        self.expr = expr


class SymStr:
    """A string with known structure: concrete pieces and default-formatted symbolic reals."""

    def __init__(self, parts):
        out = []
        for p in parts:
            if isinstance(p, SymStr):
                ps = p.parts
            else:
                ps = [p]
            for q in ps:
                if isinstance(q, str) and out and isinstance(out[-1], str):
                    out[-1] = out[-1] + q
                elif q != "":
                    out.append(q)
        self.parts = out

    def __repr__(self):
        return "SymStr(%r)" % (self.parts,)


def str_concat(a, b):
    if isinstance(a, str) and isinstance(b, str):
        return a + b
    if isinstance(a, OpaqueStr) or isinstance(b, OpaqueStr):
        return OpaqueStr()
    return SymStr([a, b])


class AbsValue:
    """Base class of abstract (domain U) values; the interpreter dispatches to these hooks."""


NATIVE_EXC = {
    "Exception": Exception,
    "ValueError": ValueError,
    "KeyError": KeyError,
    "IndexError": IndexError,
    "TypeError": TypeError,
    "AssertionError": AssertionError,
    "ZeroDivisionError": ZeroDivisionError,
    "AttributeError": AttributeError,
    "RuntimeError": RuntimeError,
    "NotImplementedError": NotImplementedError,
    "StopIteration": StopIteration,
    "ArithmeticError": ArithmeticError,
    "LookupError": LookupError,
}

_BINOPS = {
    ast.Add: operator.add,
    ast.Sub: operator.sub,
    ast.Mult: operator.mul,
    ast.Div: operator.truediv,
    ast.Mod: operator.mod,
    ast.FloorDiv: operator.floordiv,
    ast.Pow: operator.pow,
}


def key_token(k):
    """Hash/equality token of a dict key (A2: Var keys are identified by name)."""
    if isinstance(k, Obj):
        if k.cls.name == "Var" or any(c.name == "Var" for c in k.cls.mro()):
            n = k.attrs.get("_name")
            if isinstance(n, str):
                return ("Var", n)
            raise Unsupported("dict key Var with symbolic name")
        return ("obj", k.oid)
    if isinstance(k, (str, int, float, bool, tuple)) or k is None:
        return ("py", k)
    if isinstance(k, FmtReal):
        raise Unsupported("symbolic string as dict key")
    if hasattr(k, "ext_key"):
        return k.ext_key()
    raise Unsupported("unsupported dict key %r" % (k,))


class Interp:
    _MODULE_CACHE = {}  # src_root -> (modules, snapshot of module-level mutable containers)

    def __init__(self, src_root, ctx, ext=None):
        self.src_root = src_root
        self.ctx = ctx
        cache = Interp._MODULE_CACHE.setdefault(src_root, {})
        self.modules = cache
        self._restore_module_state()
        self.ext = ext or {}
        self.stubs = {}  # qualname -> fn(interp, args, kwargs)   (callee replaced by its contract)
        self.call_depth = 0
        self.lines_reached = set()  # (module, lineno)
        self.globals_read = set()
        self.call_epoch = None  # objects with epoch < call_epoch are "old"
        self.builtins = self._make_builtins()
        self.hooks = {}  # misc engine hooks: 'call_enter'
        self.overrides = {}  # (module, global name) -> value: per-interpreter replacement of an external (linprog, sympy)

    # ------------------------------------------------------------------ modules
    def module_path(self, name):
        p = os.path.join(self.src_root, *name.split("."))
        if os.path.isdir(p):
            return os.path.join(p, "__init__.py")
        return p + ".py"

    def load_module(self, name):
        if name in self.modules:
            return self.modules[name]
        if "." in name:
            self.load_module(name.rsplit(".", 1)[0])  # parent package first, like CPython
            if name in self.modules:
                return self.modules[name]
        path = self.module_path(name)
        if not os.path.exists(path):
            raise Unsupported("module %s not found under %s" % (name, self.src_root))
        mod = ModV(name, path)
        self.modules[name] = mod
        with open(path) as f:
            src = f.read()
        mod.tree = ast.parse(src, filename=path)
        mod.ns["__name__"] = name
        env = Env()
        env.vars = mod.ns
        saved_epoch, saved_call_epoch = self.ctx.epoch, self.call_epoch
        self.ctx.epoch, self.call_epoch = 0, None  # module-level objects are always "old"
        try:
            for st in mod.tree.body:
                self.exec_stmt(st, env, mod, toplevel=True)
        finally:
            self.ctx.epoch, self.call_epoch = saved_epoch, saved_call_epoch
        self._snapshot_module_state()
        return mod

    def _mutable_globals(self):
        for m in list(self.modules.values()):
            for k, v in m.ns.items():
                if isinstance(v, (PList, PDict)):
                    yield m, k, v
            for k, v in list(m.ns.items()):
                if isinstance(v, ClassV):
                    for k2, v2 in v.ns.items():
                        if isinstance(v2, (PList, PDict)):
                            yield v, k2, v2

    def _snapshot_module_state(self):
        snap = {}
        for owner, k, v in self._mutable_globals():
            if isinstance(v, PList):
                snap[id(v)] = (v, list(v.items))
            else:
                snap[id(v)] = (v, (dict(v.keys), dict(v.vals)))
        Interp._SNAP = getattr(Interp, "_SNAP", {})
        Interp._SNAP[self.src_root] = (snap, {(id(o), k): v for o, k, v in self._mutable_globals()})

    def _restore_module_state(self):
        sn = getattr(Interp, "_SNAP", {}).get(self.src_root)
        if not sn:
            return
        snap, bindings = sn
        for v, content in snap.values():
            if isinstance(v, PList):
                v.items[:] = content
            else:
                v.keys, v.vals = dict(content[0]), dict(content[1])

    def get_func(self, spec):
        """spec 'pkg.mod:Class.method' or 'pkg.mod:func' -> FuncV (unwrapped)."""
        modname, qn = spec.split(":")
        mod = self.load_module(modname)
        parts = qn.split(".")
        v = mod.ns[parts[0]]
        for p in parts[1:]:
            if isinstance(v, ClassV):
                v, _ = v.lookup(p)
            else:
                raise Unsupported("cannot resolve %s" % spec)
        if isinstance(v, (StaticM, PropertyV)):
            v = v.func
        return v

    def get_class(self, spec):
        modname, qn = spec.split(":")
        return self.load_module(modname).ns[qn]

    # ------------------------------------------------------------------ heap / frame
    def note_write(self, obj, what):
        if self.call_epoch is not None and getattr(obj, "epoch", self.call_epoch) < self.call_epoch:
            self.ctx.writes.append((obj, what))

    def new_list(self, items):
        return PList(items, self.ctx)

    def new_dict(self):
        return PDict(self.ctx)

    # ------------------------------------------------------------------ raising
    def raise_native(self, cls, node=None, msg=""):
        raise PyRaise(ExcObj(cls, (msg,)), where=getattr(node, "lineno", None))

    # ------------------------------------------------------------------ truthiness
    def truthy(self, v, label=""):
        if isinstance(v, bool):
            return v
        if v is None:
            return False
        if isinstance(v, (int, float, str, tuple)):
            return bool(v)
        if is_sym_bool(v):
            return self.ctx.branch(v, label)
        if is_sym_num(v):
            return self.ctx.branch(v != 0, label)
        if isinstance(v, PList):
            return len(v.items) > 0
        if isinstance(v, (PDict, PSet)):
            return len(v.keys) > 0
        if isinstance(v, AbsValue):
            return v.abs_truthy(self, label)
        if isinstance(v, Obj):
            f, _ = v.cls.lookup("__bool__")
            if f is not None:
                return self.truthy(self.call(BoundM(f, v), [], {}), label)
            f, _ = v.cls.lookup("__len__")
            if f is not None:
                return self.truthy(self.call(BoundM(f, v), [], {}), label)
            return True
        if isinstance(v, (ClassV, FuncV, NativeFn, BoundM, ExtMod, ExtType)):
            return True
        if isinstance(v, (OpaqueStr, FmtReal)):
            return True
        if isinstance(v, SymStr):
            return bool(v.parts)
        if hasattr(v, "ext_truthy"):
            return v.ext_truthy(self, label)
        raise Unsupported("truthiness of %r" % (v,))

    # ------------------------------------------------------------------ equality / comparison
    def py_eq(self, a, b):
        if isinstance(a, AbsValue):
            return a.abs_eq(self, b)
        if isinstance(b, AbsValue):
            return b.abs_eq(self, a)
        if is_z3(a) or is_z3(b):
            if (isinstance(a, (str, OpaqueStr)) or a is None) or (isinstance(b, (str, OpaqueStr)) or b is None):
                return False
            if is_sym_bool(a) or is_sym_bool(b):
                return to_bool(a) == to_bool(b)
            if is_sym_num(a) or is_sym_num(b):
                if isinstance(a, (PList, PDict, Obj, tuple)) or isinstance(b, (PList, PDict, Obj, tuple)):
                    return False
                return to_real(a) == to_real(b)
            if is_z3(a) and is_z3(b):
                if a.sort() != b.sort():
                    return False
                return a == b
            return False
        if isinstance(a, SymStr) or isinstance(b, SymStr):
            return self._symstr_eq(a, b)
        if isinstance(a, FmtReal) or isinstance(b, FmtReal):
            return self._fmt_eq(a, b)
        if isinstance(a, Obj):
            f, _ = a.cls.lookup("__eq__")
            if f is not None:
                return self.call(BoundM(f, a), [b], {})
            if a.cls.is_dataclass and isinstance(b, Obj) and b.cls is a.cls:
                return s_and(*[self.py_eq(a.attrs[n], b.attrs[n]) for (n, *_r) in a.cls.all_dc_fields()])
            return a is b
        if isinstance(b, Obj):
            f, _ = b.cls.lookup("__eq__")
            if f is not None:
                return self.call(BoundM(f, b), [a], {})
            return a is b
        if isinstance(a, PList) and isinstance(b, PList):
            if len(a.items) != len(b.items):
                return False
            return s_and(*[self.py_eq(x, y) for x, y in zip(a.items, b.items)])
        if isinstance(a, tuple) and isinstance(b, tuple):
            if len(a) != len(b):
                return False
            return s_and(*[self.py_eq(x, y) for x, y in zip(a, b)])
        if isinstance(a, PDict) and isinstance(b, PDict):
            if set(a.keys) != set(b.keys):
                return False
            return s_and(*[self.py_eq(a.vals[k], b.vals[k]) for k in a.keys])
        if isinstance(a, PSet) and isinstance(b, PSet):
            return set(a.keys) == set(b.keys)
        if isinstance(a, (PList, PDict, PSet)) or isinstance(b, (PList, PDict, PSet)):
            return False
        if isinstance(a, OpaqueStr) or isinstance(b, OpaqueStr):
            raise Unsupported("comparison of opaque strings")
        if hasattr(a, "ext_eq"):
            return a.ext_eq(self, b)
        if hasattr(b, "ext_eq"):
            return b.ext_eq(self, a)
        try:
            return a == b
        except Exception as e:  # pragma: no cover
            raise Unsupported("native == failed: %r" % (e,))

    NUMERIC = set("0123456789.e+-")

    def _symstr_skeleton(self, v):
        """Tokenise a structured string into non-numeric chunks, known numeric runs and formatted reals.

        Assumption A9-fmt: the default formatting of a finite real is a non-empty string over [0-9.e+-] and is injective.
        A formatted real must be delimited by non-numeric characters (or the string ends), otherwise the
        tokenisation would not be unique: Unsupported."""
        parts = SymStr([v]).parts
        toks = []
        for idx, p in enumerate(parts):
            if isinstance(p, FmtReal):
                prev_p = parts[idx - 1] if idx > 0 else None
                next_p = parts[idx + 1] if idx + 1 < len(parts) else None
                for nb, ch in ((prev_p, -1), (next_p, 0)):
                    if isinstance(nb, FmtReal):
                        raise Unsupported("two formatted reals side by side in a string comparison")
                    if isinstance(nb, str) and nb and nb[ch] in self.NUMERIC:
                        raise Unsupported("formatted real adjacent to the numeric character %r: ambiguous string comparison" % nb[ch])
                toks.append(("fmt", p.expr))
            else:
                cur, kind = "", None
                for c in p:
                    k = "num" if c in self.NUMERIC else "lit"
                    if k != kind and cur:
                        toks.append((kind, cur))
                        cur = ""
                    kind = k
                    cur += c
                if cur:
                    toks.append((kind, cur))
        return toks

    def _symstr_eq(self, a, b):
        if isinstance(a, OpaqueStr) or isinstance(b, OpaqueStr):
            raise Unsupported("comparison of opaque strings")
        if not isinstance(a, (SymStr, str, FmtReal)) or not isinstance(b, (SymStr, str, FmtReal)):
            return False
        ta, tb = self._symstr_skeleton(a), self._symstr_skeleton(b)
        if len(ta) != len(tb):
            return False
        conds = []
        for (ka, va), (kb, vb) in zip(ta, tb):
            if ka == "lit" or kb == "lit":
                if ka != kb or va != vb:
                    return False
            elif ka == "num" and kb == "num":
                if va != vb:
                    return False
            elif ka == "fmt" and kb == "fmt":
                conds.append(va == vb)
            else:
                f, text = (va, vb) if ka == "fmt" else (vb, va)
                conds.append(self._fmt_eq(FmtReal(f), text))
        return s_and(*conds)

    def _fmt_eq(self, a, b):
        if isinstance(a, FmtReal) and isinstance(b, FmtReal):
            return a.expr == b.expr
        f, s = (a, b) if isinstance(a, FmtReal) else (b, a)
        if not isinstance(s, str):
            return False
        try:
            val = float(s)
        except ValueError:
            return False
        if repr(val) != s or s.startswith("-0.0") or val != val:
            # not a canonical float spelling (or -0.0 / nan, which A1 excludes): never equal
            return False
        return f.expr == to_real(val)

    def compare(self, op, a, b, node=None):
        if isinstance(a, Sink) or isinstance(b, Sink):
            raise Unsupported("comparison with uninterpreted module-level object")
        if isinstance(op, ast.Eq):
            return self.py_eq(a, b)
        if isinstance(op, ast.NotEq):
            if isinstance(a, Obj):
                f, _ = a.cls.lookup("__ne__")
                if f is not None:
                    return self.call(BoundM(f, a), [b], {})
            return s_not(self.py_eq(a, b))
        if isinstance(op, ast.Is):
            return self.py_is(a, b)
        if isinstance(op, ast.IsNot):
            return not self.py_is(a, b)
        if isinstance(op, ast.In):
            return self.contains(b, a)
        if isinstance(op, ast.NotIn):
            return s_not(self.contains(b, a))
        # ordering
        names = {ast.Lt: ("__lt__", "__gt__"), ast.LtE: ("__le__", "__ge__"), ast.Gt: ("__gt__", "__lt__"), ast.GtE: ("__ge__", "__le__")}
        fn = {ast.Lt: operator.lt, ast.LtE: operator.le, ast.Gt: operator.gt, ast.GtE: operator.ge}[type(op)]
        if isinstance(a, AbsValue):
            return a.abs_compare(self, type(op), b)
        if isinstance(b, AbsValue):
            return b.abs_rcompare(self, type(op), a)
        if isinstance(a, Obj):
            f, _ = a.cls.lookup(names[type(op)][0])
            if f is not None:
                return self.call(BoundM(f, a), [b], {})
            raise Unsupported("ordering on %s" % a.cls.name)
        if a is None or b is None:
            self.raise_native(TypeError, node, "ordering with None")
        if is_z3(a) or is_z3(b):
            return fn(to_real(a), to_real(b))
        if hasattr(a, "ext_compare"):
            return a.ext_compare(self, type(op), b)
        if isinstance(a, (int, float)) and isinstance(b, (int, float)):
            return fn(a, b)
        if isinstance(a, str) and isinstance(b, str):
            return fn(a, b)
        if isinstance(a, tuple) and isinstance(b, tuple):
            return fn(a, b)
        self.raise_native(TypeError, node, "unorderable")

    def py_is(self, a, b):
        if a is None or b is None or isinstance(a, bool) or isinstance(b, bool):
            return a is b
        if is_z3(a) or is_z3(b):
            raise Unsupported("`is` on symbolic scalar")
        return a is b

    def contains(self, container, x):
        if isinstance(container, AbsValue):
            return container.abs_contains(self, x)
        if isinstance(container, PList):
            return s_or(*[self.py_eq(x, e) for e in container.items]) if container.items else False
        if isinstance(container, tuple):
            return s_or(*[self.py_eq(x, e) for e in container]) if container else False
        if isinstance(container, (PDict, PSet)):
            if isinstance(x, AbsValue) or (isinstance(x, Obj) and is_z3(x.attrs.get("_name"))):
                raise Unsupported("symbolic key lookup in dict/set")
            if is_z3(x):
                # symbolic scalar against concrete keys
                return s_or(*[self.py_eq(x, k) for k in container.keys.values()]) if container.keys else False
            return key_token(x) in container.keys
        if isinstance(container, str):
            if isinstance(x, str):
                return x in container
            raise Unsupported("`in` on str with non-str")
        if hasattr(container, "ext_contains"):
            return container.ext_contains(self, x)
        raise Unsupported("`in` on %r" % (container,))

    # ------------------------------------------------------------------ arithmetic
    def binop(self, op, a, b, node=None):
        t = type(op)
        if isinstance(a, Sink) or isinstance(b, Sink):
            return Sink()
        if isinstance(a, AbsValue):
            return a.abs_binop(self, t, b, False)
        if isinstance(b, AbsValue):
            return b.abs_binop(self, t, a, True)
        if t in (ast.BitOr, ast.BitAnd, ast.BitXor, ast.Sub, ast.Add, ast.Mult) and isinstance(a, Obj):
            name = {ast.BitOr: "__or__", ast.BitAnd: "__and__", ast.BitXor: "__xor__", ast.Sub: "__sub__", ast.Add: "__add__", ast.Mult: "__mul__"}[t]
            f, _ = a.cls.lookup(name)
            if f is not None:
                return self.call(BoundM(f, a), [b], {})
            raise PyRaise(ExcObj(TypeError, ("unsupported operand",)), getattr(node, "lineno", None))
        if hasattr(a, "ext_binop"):
            return a.ext_binop(self, t, b, False)
        if hasattr(b, "ext_binop"):
            return b.ext_binop(self, t, a, True)
        if t in (ast.BitOr, ast.BitAnd, ast.BitXor):
            if isinstance(a, bool) and isinstance(b, bool):
                return {ast.BitOr: operator.or_, ast.BitAnd: operator.and_, ast.BitXor: operator.xor}[t](a, b)
            if is_sym_bool(a) or is_sym_bool(b):
                if t is ast.BitOr:
                    return s_or(a, b)
                if t is ast.BitAnd:
                    return s_and(a, b)
                return z3.Xor(to_bool(a), to_bool(b))
            if isinstance(a, int) and isinstance(b, int):
                return {ast.BitOr: operator.or_, ast.BitAnd: operator.and_, ast.BitXor: operator.xor}[t](a, b)
            raise Unsupported("bit operator on %r, %r" % (a, b))
        if t is ast.Add:
            if isinstance(a, PList) and isinstance(b, PList):
                return self.new_list(a.items + b.items)
            if isinstance(a, (str, OpaqueStr, FmtReal, SymStr)) and isinstance(b, (str, OpaqueStr, FmtReal, SymStr)):
                return str_concat(a, b)
            if isinstance(a, tuple) and isinstance(b, tuple):
                return a + b
        if t is ast.Mod and isinstance(a, (str, OpaqueStr)):
            if isinstance(a, str) and self._all_concrete(b):
                try:
                    return a % b
                except Exception:
                    return OpaqueStr()
            return OpaqueStr()
        if t is ast.Mult:
            if isinstance(a, str) and isinstance(b, int):
                return a * b
            if isinstance(a, PList) and isinstance(b, int):
                return self.new_list(a.items * b)
        if a is None or b is None or isinstance(a, (str, OpaqueStr, SymStr, FmtReal)) or isinstance(b, (str, OpaqueStr, SymStr, FmtReal)):
            self.raise_native(TypeError, node, "unsupported operand types")
        if isinstance(a, (PList, PDict, PSet, tuple)) or isinstance(b, (PList, PDict, PSet, tuple)):
            self.raise_native(TypeError, node, "unsupported operand types")
        sym = is_z3(a) or is_z3(b)
        if t is ast.Div:
            if sym:
                bz = to_real(b)
                if self.ctx.branch(bz == 0, "div0@%s" % getattr(node, "lineno", "?")):
                    self.raise_native(ZeroDivisionError, node, "division by zero")
                return to_real(a) / bz
            if b == 0:
                self.raise_native(ZeroDivisionError, node, "division by zero")
            return a / b
        if t in (ast.Add, ast.Sub, ast.Mult):
            if sym:
                if is_sym_bool(a) or is_sym_bool(b):
                    raise Unsupported("arithmetic on symbolic bool")
                return _BINOPS[t](to_real(a), to_real(b))
            return _BINOPS[t](a, b)
        if sym:
            raise Unsupported("operator %s on symbolic values" % t.__name__)
        if t in _BINOPS:
            try:
                return _BINOPS[t](a, b)
            except ZeroDivisionError:
                self.raise_native(ZeroDivisionError, node, "division by zero")
        if t is ast.LShift:
            return a << b
        raise Unsupported("binop %s" % t.__name__)

    def _all_concrete(self, v):
        if isinstance(v, tuple):
            return all(self._all_concrete(x) for x in v)
        return isinstance(v, (str, int, float, bool)) or v is None

    def unaryop(self, op, v, node=None):
        if isinstance(op, ast.Not):
            if isinstance(v, bool):
                return not v
            if is_sym_bool(v):
                return z3.Not(v)
            return not self.truthy(v, "not@%s" % getattr(node, "lineno", "?"))
        if isinstance(v, Sink):
            return Sink()
        if isinstance(op, ast.USub):
            if v is None or isinstance(v, (str, OpaqueStr, PList, PDict)):
                self.raise_native(TypeError, node, "bad operand for unary -")
            if isinstance(v, AbsValue):
                return v.abs_neg(self)
            if hasattr(v, "ext_neg"):
                return v.ext_neg(self)
            if is_z3(v):
                return -to_real(v)
            return -v
        if isinstance(op, ast.UAdd):
            return v
        raise Unsupported("unary op")

    # ------------------------------------------------------------------ attribute access
    def getattr(self, v, name, node=None):
        if isinstance(v, Obj):
            if name in v.attrs:
                return v.attrs[name]
            m, owner = v.cls.lookup(name)
            if m is None:
                if name == "__class__":
                    return v.cls
                if name == "__dict__":
                    raise Unsupported("__dict__")
                self.raise_native(AttributeError, node, "%s has no attribute %s" % (v.cls.name, name))
            if isinstance(m, FuncV):
                return BoundM(m, v, owner)
            if isinstance(m, StaticM):
                return m.func
            if isinstance(m, PropertyV):
                return self.call(BoundM(m.func, v, owner), [], {})
            if isinstance(m, NativeFn):
                return BoundM(m, v, owner)
            return m
        if isinstance(v, AbsValue):
            return v.abs_getattr(self, name)
        if isinstance(v, ClassV):
            if name == "__name__":
                return v.name
            m, owner = v.lookup(name)
            if m is None:
                self.raise_native(AttributeError, node, "class %s has no attribute %s" % (v.name, name))
            if isinstance(m, StaticM):
                return m.func
            return m
        if isinstance(v, ModV):
            if name in v.ns:
                return v.ns[name]
            # submodule access  (pacti.terms.polyhedra.serializer ...)
            sub = v.name + "." + name
            if os.path.exists(self.module_path(sub)):
                return self.load_module(sub)
            raise Unsupported("module %s has no attribute %s" % (v.name, name))
        if isinstance(v, ExtMod):
            if name in v.attrs:
                return v.attrs[name]
            return Sink() if self._toplevel else self._unsupported("external %s.%s" % (v.name, name))
        if isinstance(v, Sink):
            return Sink()
        if isinstance(v, StaticM) and name == "__func__":
            return v.func
        if isinstance(v, FuncV) and name == "__func__":
            return v
        if isinstance(v, ExcObj):
            if name == "args":
                return tuple(v.args)
            raise Unsupported("attribute %s of exception" % name)
        if hasattr(v, "ext_getattr"):
            return v.ext_getattr(self, name)
        if isinstance(v, NativeFn) and getattr(v, "pytype", None) == "dict" and name == "fromkeys":
            return NativeFn("dict.fromkeys", _dict_fromkeys)
        if isinstance(v, (PList, PDict, PSet, str, tuple)):
            native = list if isinstance(v, PList) else dict if isinstance(v, PDict) else set if isinstance(v, PSet) else type(v)
            if not hasattr(native, name):
                self.raise_native(AttributeError, node, "'%s' object has no attribute '%s'" % (native.__name__, name))
            return BoundM(NativeFn(name, _builtin_method(name)), v)
        if v is None:
            self.raise_native(AttributeError, node, "NoneType has no attribute %s" % name)
        raise Unsupported("getattr %s on %r" % (name, v))

    def _unsupported(self, what):
        raise Unsupported(what)

    _toplevel = False

    def setattr(self, v, name, val, node=None):
        if isinstance(v, Obj):
            m, owner = v.cls.lookup(name)
            if isinstance(m, PropertyV):
                raise Unsupported("property setter")
            self.note_write(v, "%s.%s =" % (v.cls.name, name))
            v.attrs[name] = val
            return
        if isinstance(v, AbsValue):
            return v.abs_setattr(self, name, val)
        if isinstance(v, Sink):
            return
        raise Unsupported("setattr on %r" % (v,))

    # ------------------------------------------------------------------ subscripts
    def getitem(self, v, idx, node=None):
        if isinstance(v, AbsValue):
            return v.abs_getitem(self, idx)
        if hasattr(v, "ext_getitem"):
            return v.ext_getitem(self, idx, node)
        if isinstance(v, (PList, tuple, str)):
            items = v.items if isinstance(v, PList) else v
            if isinstance(idx, slice):
                r = items[idx]
                return self.new_list(r) if isinstance(v, PList) else r
            if isinstance(idx, AbsValue):
                return idx.abs_index_into(self, v)
            if is_z3(idx):
                raise Unsupported("symbolic index")
            if not isinstance(idx, int):
                self.raise_native(TypeError, node, "list indices must be integers")
            try:
                return items[idx]
            except IndexError:
                self.raise_native(IndexError, node, "index out of range")
        if isinstance(v, PDict):
            if isinstance(idx, Obj) and is_z3(idx.attrs.get("_name")):
                raise Unsupported("symbolic key")
            k = key_token(idx)
            if k not in v.keys:
                self.raise_native(KeyError, node, "key %r" % (k,))
            return v.vals[k]
        if isinstance(v, Sink):
            return Sink()
        if v is None:
            self.raise_native(TypeError, node, "NoneType is not subscriptable")
        raise Unsupported("subscript on %r" % (v,))

    def setitem(self, v, idx, val, node=None):
        if isinstance(v, AbsValue):
            return v.abs_setitem(self, idx, val)
        if hasattr(v, "ext_setitem"):
            return v.ext_setitem(self, idx, val, node)
        if isinstance(v, PList):
            if isinstance(idx, AbsValue):
                raise Unsupported("abstract index into concrete list")
            if not isinstance(idx, int):
                raise Unsupported("list store with non-int index")
            if idx >= len(v.items) or idx < -len(v.items):
                self.raise_native(IndexError, node, "assignment index out of range")
            self.note_write(v, "list[%d] =" % idx)
            v.items[idx] = val
            return
        if isinstance(v, PDict):
            k = key_token(idx)
            self.note_write(v, "dict[%r] =" % (k,))
            if k not in v.keys:
                v.keys[k] = idx
            v.vals[k] = val
            return
        raise Unsupported("subscript store on %r" % (v,))

    # ------------------------------------------------------------------ calls
    def call(self, f, args, kwargs, node=None):
        if isinstance(f, BoundM):
            if isinstance(f.func, NativeFn):
                return f.func.fn(self, [f.self_obj] + list(args), kwargs)
            return self.call_func(f.func, [f.self_obj] + list(args), kwargs, node, bound_cls=f.cls)
        if isinstance(f, FuncV):
            return self.call_func(f, list(args), kwargs, node)
        if isinstance(f, NativeFn):
            return f.fn(self, list(args), kwargs)
        if isinstance(f, ClassV):
            return self.instantiate(f, list(args), kwargs, node)
        if isinstance(f, type) and issubclass(f, BaseException):
            return ExcObj(f, tuple(args))
        if isinstance(f, StaticM):
            return self.call_func(f.func, list(args), kwargs, node)
        if isinstance(f, Sink):
            return Sink()
        if isinstance(f, AbsValue):
            return f.abs_call(self, args, kwargs)
        if hasattr(f, "ext_call"):
            return f.ext_call(self, args, kwargs, node)
        raise Unsupported("call of %r" % (f,))

    def instantiate(self, cls, args, kwargs, node=None):
        if cls.is_enum:
            raise Unsupported("enum call")
        stub = self.stubs.get("new:" + cls.name)
        if stub is not None:
            return stub(self, cls, args, kwargs)
        if any(isinstance(b, type) and issubclass(b, BaseException) for b in cls.native_bases()):
            # exception subclass defined in the repo
            o = Obj(cls, self.ctx)
            init, owner = cls.lookup("__init__")
            if init is not None:
                self.call(BoundM(init, o, owner), args, kwargs, node)
            elif cls.is_dataclass:
                self._dataclass_init(o, cls, args, kwargs, node)
            else:
                o.attrs["args"] = tuple(args)
            return o
        o = Obj(cls, self.ctx)
        init, owner = cls.lookup("__init__")
        if init is not None:
            self.call(BoundM(init, o, owner), args, kwargs, node)
        elif cls.is_dataclass:
            self._dataclass_init(o, cls, args, kwargs, node)
        elif args or kwargs:
            self.raise_native(TypeError, node, "%s() takes no arguments" % cls.name)
        return o

    def _dataclass_init(self, o, cls, args, kwargs, node):
        fields = cls.all_dc_fields()
        init_fields = [f for f in fields if f[3]]
        if len(args) > len(init_fields):
            self.raise_native(TypeError, node, "too many positional arguments")
        kwargs = dict(kwargs)
        for i, (name, dnode, fnode, init, owner_mod) in enumerate(init_fields):
            if i < len(args):
                o.attrs[name] = args[i]
            elif name in kwargs:
                o.attrs[name] = kwargs.pop(name)
            elif dnode is not None:
                env = Env()
                env.vars = owner_mod.ns
                o.attrs[name] = self.eval(dnode, env, owner_mod)
            elif fnode is not None:
                env = Env()
                env.vars = owner_mod.ns
                o.attrs[name] = self.call(self.eval(fnode, env, owner_mod), [], {})
            else:
                self.raise_native(TypeError, node, "missing argument %s" % name)
        if kwargs:
            self.raise_native(TypeError, node, "unexpected keyword %s" % list(kwargs))
        post, owner = cls.lookup("__post_init__")
        if post is not None:
            self.call(BoundM(post, o, owner), [], {})

    def call_func_nostub(self, fv, args, kwargs):
        return self.call_func(fv, args, kwargs, _skip_stub=True)

    def call_func(self, fv, args, kwargs, node=None, bound_cls=None, _skip_stub=False):
        stub = self.stubs.get(fv.qualname)
        if stub is not None and not _skip_stub:
            return stub(self, args, kwargs)
        self.call_depth += 1
        if self.call_depth > 60:
            raise Unsupported("call depth exceeded (unbounded recursion?) in %s" % fv.qualname)
        try:
            env = Env(fv.env)
            self.bind_args(fv, env, args, kwargs, node)
            if bound_cls is not None or fv.cls is not None:
                env.vars["__class__"] = fv.cls or bound_cls
            if isinstance(fv.node, ast.Lambda):
                return self.eval(fv.node.body, env, fv.module)
            try:
                for st in fv.node.body:
                    self.exec_stmt(st, env, fv.module)
            except _Return as r:
                return r.value
            return None
        finally:
            self.call_depth -= 1

    def bind_args(self, fv, env, args, kwargs, node=None):
        a = fv.node.args
        params = [p.arg for p in a.posonlyargs + a.args]
        nd = len(fv.defaults)
        kwargs = dict(kwargs)
        if len(args) > len(params):
            if a.vararg is None:
                self.raise_native(TypeError, node, "%s: too many positional arguments" % fv.qualname)
            env.vars[a.vararg.arg] = tuple(args[len(params):])
            args = args[: len(params)]
        elif a.vararg is not None:
            env.vars[a.vararg.arg] = ()
        for i, p in enumerate(params):
            if i < len(args):
                if p in kwargs:
                    self.raise_native(TypeError, node, "multiple values for %s" % p)
                env.vars[p] = args[i]
            elif p in kwargs:
                env.vars[p] = kwargs.pop(p)
            else:
                di = i - (len(params) - nd)
                if di >= 0:
                    env.vars[p] = fv.defaults[di]
                else:
                    self.raise_native(TypeError, node, "%s: missing argument %s" % (fv.qualname, p))
        for p in a.kwonlyargs:
            if p.arg in kwargs:
                env.vars[p.arg] = kwargs.pop(p.arg)
            elif p.arg in fv.kw_defaults:
                env.vars[p.arg] = fv.kw_defaults[p.arg]
            else:
                self.raise_native(TypeError, node, "missing kw-only %s" % p.arg)
        if kwargs:
            if a.kwarg is not None:
                d = self.new_dict()
                for k, v in kwargs.items():
                    d.keys[("py", k)] = k
                    d.vals[("py", k)] = v
                env.vars[a.kwarg.arg] = d
            else:
                self.raise_native(TypeError, node, "%s: unexpected keyword %s" % (fv.qualname, sorted(kwargs)))
        elif a.kwarg is not None:
            env.vars[a.kwarg.arg] = self.new_dict()

    # ------------------------------------------------------------------ statements
    def exec_block(self, body, env, mod):
        for st in body:
            self.exec_stmt(st, env, mod)

    def exec_stmt(self, st, env, mod, toplevel=False):
        self.lines_reached.add((mod.name, st.lineno))
        prev_top = self._toplevel
        if toplevel:
            self._toplevel = True
        try:
            self._exec_stmt(st, env, mod)
        finally:
            self._toplevel = prev_top

    def _exec_stmt(self, st, env, mod):
        t = type(st)
        if t is ast.Expr:
            if isinstance(st.value, ast.Constant):
                return  # docstring / ellipsis
            if self._is_logging_call(st.value):
                return
            self.eval(st.value, env, mod)
            return
        if t is ast.Assign:
            val = self.eval(st.value, env, mod)
            for tgt in st.targets:
                self.assign(tgt, val, env, mod)
            return
        if t is ast.AnnAssign:
            if st.value is not None:
                self.assign(st.target, self.eval(st.value, env, mod), env, mod)
            return
        if t is ast.AugAssign:
            self.exec_augassign(st, env, mod)
            return
        if t is ast.If:
            c = self.eval(st.test, env, mod)
            if self.truthy(c, "if@%d" % st.lineno):
                self.exec_block(st.body, env, mod)
            else:
                self.exec_block(st.orelse, env, mod)
            return
        if t is ast.Return:
            raise _Return(self.eval(st.value, env, mod) if st.value is not None else None)
        if t is ast.Raise:
            self.exec_raise(st, env, mod)
            return
        if t is ast.For:
            self.exec_for(st, env, mod)
            return
        if t is ast.While:
            fuel = 0
            while self.truthy(self.eval(st.test, env, mod), "while@%d" % st.lineno):
                fuel += 1
                if fuel > 200:
                    raise Unsupported("while loop exceeded fuel at line %d" % st.lineno)
                try:
                    self.exec_block(st.body, env, mod)
                except _Break:
                    break
                except _Continue:
                    continue
            else:
                self.exec_block(st.orelse, env, mod)
            return
        if t is ast.Try:
            self.exec_try(st, env, mod)
            return
        if t is ast.Assert:
            c = self.eval(st.test, env, mod)
            if not self.truthy(c, "assert@%d" % st.lineno):
                raise PyRaise(ExcObj(AssertionError, ()), st.lineno)
            return
        if t is ast.FunctionDef:
            env.vars[st.name] = self.make_func(st, env, mod)
            return
        if t is ast.ClassDef:
            env.vars[st.name] = self.make_class(st, env, mod)
            return
        if t is ast.Import:
            for al in st.names:
                self.do_import(al, env, mod)
            return
        if t is ast.ImportFrom:
            self.do_import_from(st, env, mod)
            return
        if t is ast.Pass:
            return
        if t is ast.Break:
            raise _Break()
        if t is ast.Continue:
            raise _Continue()
        if t is ast.With:
            return self.exec_with(st, env, mod)
        if t is ast.Delete:
            raise Unsupported("del statement at %s:%d" % (mod.name, st.lineno))
        raise Unsupported("statement %s at %s:%d" % (t.__name__, mod.name, st.lineno))

    def exec_with(self, st, env, mod):
        """with-statement over engine-provided context managers (objects offering ext_enter / ext_exit)."""
        entered = []
        try:
            for item in st.items:
                cm = self.eval(item.context_expr, env, mod)
                if not hasattr(cm, "ext_enter"):
                    raise Unsupported("with statement over %r at %s:%d" % (cm, mod.name, st.lineno))
                v = cm.ext_enter(self)
                entered.append(cm)
                if item.optional_vars is not None:
                    self.assign(item.optional_vars, v, env, mod)
            self.exec_block(st.body, env, mod)
        finally:
            for cm in reversed(entered):
                cm.ext_exit(self)

    def _is_logging_call(self, e):
        return (
            isinstance(e, ast.Call)
            and isinstance(e.func, ast.Attribute)
            and isinstance(e.func.value, ast.Name)
            and e.func.value.id == "logging"
        )

    def exec_raise(self, st, env, mod):
        if st.exc is None:
            if self._current_exc:
                raise self._current_exc[-1]
            raise Unsupported("bare raise outside handler")
        e = st.exc
        if isinstance(e, ast.Call):
            f = self.eval(e.func, env, mod)
            if isinstance(f, type) and issubclass(f, BaseException):
                self._eval_message_args(e, env, mod)
                exc = ExcObj(f, ())  # the message itself is not kept (A7)
            elif isinstance(f, ClassV) and any(isinstance(b, type) and issubclass(b, BaseException) for b in f.native_bases()):
                self._eval_message_args(e, env, mod)
                exc = Obj(f, self.ctx)  # the message / payload itself is not kept (A7)
            else:
                exc = self.eval(e, env, mod)
        else:
            exc = self.eval(e, env, mod)
            if isinstance(exc, type) and issubclass(exc, BaseException):
                exc = ExcObj(exc, ())
            elif isinstance(exc, ClassV):
                exc = Obj(exc, self.ctx)
        if st.cause is not None:
            self.eval(st.cause, env, mod)
        if not isinstance(exc, (ExcObj, Obj)):
            raise PyRaise(ExcObj(TypeError, ("exceptions must derive from BaseException",)), st.lineno)
        raise PyRaise(exc, st.lineno)

    def _eval_message_args(self, call, env, mod):
        """The arguments of a raised exception are evaluated for the exceptions THEY can raise (a TypeError while the
        message is put together replaces the intended exception); their value is not kept, and anything outside the
        supported subset is skipped (A7: message formatting is otherwise pure)."""
        for a in list(call.args) + [k.value for k in call.keywords]:
            try:
                self.eval(a, env, mod)
            except Unsupported:
                continue

    _current_exc = None

    def exec_try(self, st, env, mod):
        if self._current_exc is None:
            self._current_exc = []
        try:
            try:
                self.exec_block(st.body, env, mod)
            except PyRaise as pr:
                handled = False
                for h in st.handlers:
                    if h.type is None:
                        match = True
                    else:
                        tcls = self.eval(h.type, env, mod)
                        match = exc_isinstance(pr.exc, tcls)
                    if match:
                        handled = True
                        if h.name:
                            env.vars[h.name] = pr.exc
                        self._current_exc.append(pr)
                        try:
                            self.exec_block(h.body, env, mod)
                        finally:
                            self._current_exc.pop()
                        break
                if not handled:
                    raise
            else:
                self.exec_block(st.orelse, env, mod)
        finally:
            if st.finalbody:
                self.exec_block(st.finalbody, env, mod)

    def exec_augassign(self, st, env, mod):
        tgt = st.target
        if isinstance(tgt, ast.Name):
            cur = self.eval(tgt, env, mod)
            if isinstance(cur, PList) and isinstance(st.op, ast.Add):
                other = self.eval(st.value, env, mod)
                if not isinstance(other, PList):
                    raise Unsupported("list += non-list")
                self.note_write(cur, "list +=")
                cur.items.extend(other.items)
                return
            if isinstance(cur, Obj):
                nm = {ast.Sub: "__isub__", ast.Add: "__iadd__", ast.BitOr: "__ior__", ast.BitAnd: "__iand__"}.get(type(st.op))
                if nm and cur.cls.lookup(nm)[0] is not None:
                    raise Unsupported("in-place operator method")
            val = self.binop(st.op, cur, self.eval(st.value, env, mod), st)
            self.assign(tgt, val, env, mod)
            return
        if isinstance(tgt, ast.Attribute):
            o = self.eval(tgt.value, env, mod)
            cur = self.getattr(o, tgt.attr, st)
            if isinstance(cur, PList) and isinstance(st.op, ast.Add):
                raise Unsupported("attr list +=")
            val = self.binop(st.op, cur, self.eval(st.value, env, mod), st)
            self.setattr(o, tgt.attr, val, st)
            return
        if isinstance(tgt, ast.Subscript):
            o = self.eval(tgt.value, env, mod)
            idx = self.eval_index(tgt.slice, env, mod)
            cur = self.getitem(o, idx, st)
            val = self.binop(st.op, cur, self.eval(st.value, env, mod), st)
            self.setitem(o, idx, val, st)
            return
        raise Unsupported("augassign target")

    def assign(self, tgt, val, env, mod):
        if isinstance(tgt, ast.Name):
            env.vars[tgt.id] = val
            return
        if isinstance(tgt, ast.Attribute):
            self.setattr(self.eval(tgt.value, env, mod), tgt.attr, val, tgt)
            return
        if isinstance(tgt, ast.Subscript):
            self.setitem(self.eval(tgt.value, env, mod), self.eval_index(tgt.slice, env, mod), val, tgt)
            return
        if isinstance(tgt, (ast.Tuple, ast.List)):
            items = self.iter_values(val, tgt)
            if any(isinstance(e, ast.Starred) for e in tgt.elts):
                raise Unsupported("starred unpacking")
            if len(items) != len(tgt.elts):
                self.raise_native(ValueError, tgt, "unpack length mismatch")
            for e, v in zip(tgt.elts, items):
                self.assign(e, v, env, mod)
            return
        raise Unsupported("assignment target %s" % type(tgt).__name__)

    def iter_values(self, v, node=None):
        """Concrete iteration: list of element values."""
        if isinstance(v, PList):
            return list(v.items)
        if isinstance(v, tuple):
            return list(v)
        if isinstance(v, PDict):
            return [v.keys[k] for k in v.keys]
        if isinstance(v, PSet):
            return [v.keys[k] for k in v.keys]
        if isinstance(v, str):
            return list(v)
        if isinstance(v, range):
            return list(v)
        if hasattr(v, "ext_iter"):
            return v.ext_iter(self)
        if isinstance(v, AbsValue):
            return v.abs_iter(self)
        if v is None:
            self.raise_native(TypeError, node, "NoneType is not iterable")
        raise Unsupported("iteration over %r" % (v,))

    def exec_for(self, st, env, mod):
        it = self.eval(st.iter, env, mod)
        if isinstance(it, AbsValue) and it.abs_is_abstract_iterable():
            return it.abs_for(self, st, env, mod)
        if isinstance(it, PList):
            # index-based live iteration like CPython
            i = 0
            broke = False
            while i < len(it.items):
                self.assign(st.target, it.items[i], env, mod)
                i += 1
                try:
                    self.exec_block(st.body, env, mod)
                except _Break:
                    broke = True
                    break
                except _Continue:
                    continue
            if not broke:
                self.exec_block(st.orelse, env, mod)
            return
        broke = False
        for v in self.iter_values(it, st):
            self.assign(st.target, v, env, mod)
            try:
                self.exec_block(st.body, env, mod)
            except _Break:
                broke = True
                break
            except _Continue:
                continue
        if not broke:
            self.exec_block(st.orelse, env, mod)

    # ------------------------------------------------------------------ definitions
    def make_func(self, node, env, mod, cls=None, qual=None):
        qn = qual or (mod.name + ":" + node.name)
        closure = env if env.vars is not mod.ns else None
        fv = FuncV(node, mod, qn, closure, cls)
        a = node.args
        fv.defaults = [self.eval(d, env, mod) for d in a.defaults]
        fv.kw_defaults = {p.arg: self.eval(d, env, mod) for p, d in zip(a.kwonlyargs, a.kw_defaults) if d is not None}
        out = fv
        for dec in reversed(getattr(node, "decorator_list", [])):
            dn = self._dec_name(dec)
            if dn == "staticmethod":
                out = StaticM(fv)
            elif dn == "property":
                out = PropertyV(fv)
            elif dn in ("abstractmethod", "abc.abstractmethod"):
                pass
            elif dn == "classmethod":
                raise Unsupported("classmethod")
            else:
                raise Unsupported("decorator %s" % dn)
        return out

    def _dec_name(self, dec):
        if isinstance(dec, ast.Name):
            return dec.id
        if isinstance(dec, ast.Attribute):
            return self._dec_name(dec.value) + "." + dec.attr
        if isinstance(dec, ast.Call):
            return self._dec_name(dec.func)
        return "?"

    def make_class(self, node, env, mod):
        bases = []
        for b in node.bases:
            bv = self.eval(b, env, mod)
            if isinstance(bv, (ClassV,)):
                bases.append(bv)
            elif isinstance(bv, type) and issubclass(bv, BaseException):
                bases.append(bv)
            elif isinstance(bv, (Sink, ExtType)):
                if isinstance(bv, ExtType) and bv.name == "Enum":
                    bases.append(bv)
                elif isinstance(bv, ExtType) and bv.name in ("ParseBaseException",):
                    bases.append(Exception)
                # ABC, Generic[...]: ignored
            else:
                raise Unsupported("base class %r" % (bv,))
        cls = ClassV(node.name, [b for b in bases if not isinstance(b, ExtType)], mod)
        cls.is_enum = any(isinstance(b, ExtType) and b.name == "Enum" for b in bases)
        for dec in node.decorator_list:
            if self._dec_name(dec) in ("dataclasses.dataclass", "dataclass"):
                cls.is_dataclass = True
            else:
                raise Unsupported("class decorator %s" % self._dec_name(dec))
        cenv = Env(env if env.vars is not mod.ns else None)
        cenv.vars = cls.ns
        # names in class body resolve in class ns, then module ns
        body_env = _ClassBodyEnv(cls.ns, env)
        for st in node.body:
            if isinstance(st, ast.Expr) and isinstance(st.value, ast.Constant):
                continue
            if isinstance(st, ast.FunctionDef):
                f = self.make_func(st, env, mod, cls=cls, qual="%s:%s.%s" % (mod.name, node.name, st.name))
                cls.ns[st.name] = f
                continue
            if isinstance(st, ast.AnnAssign) and cls.is_dataclass and isinstance(st.target, ast.Name):
                dnode, fnode, init = None, None, True
                if st.value is not None:
                    v = st.value
                    if isinstance(v, ast.Call) and self._dec_name(v.func) in ("dataclasses.field", "field"):
                        for kw in v.keywords:
                            if kw.arg == "default":
                                dnode = kw.value
                            elif kw.arg == "default_factory":
                                fnode = kw.value
                            elif kw.arg == "init":
                                init = bool(ast.literal_eval(kw.value))
                            else:
                                raise Unsupported("dataclass field option %s" % kw.arg)
                    else:
                        dnode = v
                cls.dc_fields.append((st.target.id, dnode, fnode, init, mod))
                continue
            if cls.is_enum and isinstance(st, ast.Assign):
                for tgt in st.targets:
                    o = Obj(cls, None)
                    o.attrs["name"] = tgt.id
                    o.attrs["value"] = self.eval(st.value, body_env, mod)
                    cls.ns[tgt.id] = o
                continue
            self.exec_stmt(st, body_env, mod)
        return cls

    def do_import(self, al, env, mod):
        name = al.name
        top = name.split(".")[0]
        if top == "pacti":
            m = self.load_module(name)
            if al.asname:
                env.vars[al.asname] = m
            else:
                env.vars[top] = self.load_module(top)
            return
        env.vars[al.asname or top] = self.ext_module(name if al.asname else top)

    def ext_module(self, name):
        if name in self.ext:
            return self.ext[name]
        return ExtMod(name)

    def do_import_from(self, st, env, mod):
        if st.module == "__future__":
            return
        if st.level:
            base = mod.name.split(".")
            is_pkg = os.path.basename(mod.path) == "__init__.py"
            up = st.level - (1 if is_pkg else 0)
            pkg = base[: len(base) - up] if up else base
            if not is_pkg:
                pkg = base[: len(base) - st.level]
            modname = ".".join(pkg + ([st.module] if st.module else []))
        else:
            modname = st.module
        if modname.split(".")[0] == "pacti":
            for al in st.names:
                sub = modname + "." + al.name
                if os.path.exists(self.module_path(sub)):
                    m = self.load_module(modname)
                    if al.name in m.ns:
                        env.vars[al.asname or al.name] = m.ns[al.name]
                    else:
                        env.vars[al.asname or al.name] = self.load_module(sub)
                    continue
                m = self.load_module(modname)
                if al.name not in m.ns:
                    raise Unsupported("cannot import %s from %s" % (al.name, modname))
                env.vars[al.asname or al.name] = m.ns[al.name]
            return
        em = self.ext_module(modname)
        for al in st.names:
            if al.name in em.attrs:
                env.vars[al.asname or al.name] = em.attrs[al.name]
            else:
                env.vars[al.asname or al.name] = Sink()

    # ------------------------------------------------------------------ expressions
    def eval_index(self, sl, env, mod):
        if isinstance(sl, ast.Slice):
            lo = self.eval(sl.lower, env, mod) if sl.lower is not None else None
            hi = self.eval(sl.upper, env, mod) if sl.upper is not None else None
            stp = self.eval(sl.step, env, mod) if sl.step is not None else None
            return slice(lo, hi, stp)
        if isinstance(sl, ast.Tuple):
            return tuple(self.eval_index(e, env, mod) for e in sl.elts)
        return self.eval(sl, env, mod)

    def lookup_name(self, name, env, mod, node=None):
        v, ok = env.lookup(name)
        if ok and not (env.vars is mod.ns and (mod.name, name) in self.overrides):
            return v
        if (mod.name, name) in self.overrides:
            return self.overrides[(mod.name, name)]
        if name in mod.ns:
            self.globals_read.add((mod.name, name))
            return mod.ns[name]
        if name in self.builtins:
            return self.builtins[name]
        if name in NATIVE_EXC:
            return NATIVE_EXC[name]
        raise Unsupported("unknown name %s at %s:%s" % (name, mod.name, getattr(node, "lineno", "?")))

    def eval(self, e, env, mod):
        t = type(e)
        if t is ast.Constant:
            return e.value
        if t is ast.Name:
            return self.lookup_name(e.id, env, mod, e)
        if t is ast.Attribute:
            return self.getattr(self.eval(e.value, env, mod), e.attr, e)
        if t is ast.Call:
            return self.eval_call(e, env, mod)
        if t is ast.Subscript:
            return self.getitem(self.eval(e.value, env, mod), self.eval_index(e.slice, env, mod), e)
        if t is ast.BinOp:
            return self.binop(e.op, self.eval(e.left, env, mod), self.eval(e.right, env, mod), e)
        if t is ast.UnaryOp:
            return self.unaryop(e.op, self.eval(e.operand, env, mod), e)
        if t is ast.BoolOp:
            return self.eval_boolop(e, env, mod)
        if t is ast.Compare:
            left = self.eval(e.left, env, mod)
            result = True
            for op, rn in zip(e.ops, e.comparators):
                right = self.eval(rn, env, mod)
                r = self.compare(op, left, right, e)
                if len(e.ops) == 1:
                    return r
                # chained: short-circuit
                if not (isinstance(r, bool) or is_sym_bool(r)):
                    if not self.truthy(r, "cmpchain@%d" % e.lineno):
                        return r
                    result = r
                else:
                    result = s_and(result, r)
                    if result is False:
                        return False
                left = right
            return result
        if t is ast.IfExp:
            if self.truthy(self.eval(e.test, env, mod), "ifexp@%d" % e.lineno):
                return self.eval(e.body, env, mod)
            return self.eval(e.orelse, env, mod)
        if t is ast.List:
            return self.new_list(self._eval_elts(e.elts, env, mod))
        if t is ast.Tuple:
            return tuple(self._eval_elts(e.elts, env, mod))
        if t is ast.Set:
            s = PSet(self.ctx)
            for x in self._eval_elts(e.elts, env, mod):
                s.keys[key_token(x)] = x
            return s
        if t is ast.Dict:
            d = self.new_dict()
            for k, v in zip(e.keys, e.values):
                if k is None:
                    raise Unsupported("dict unpacking")
                kv = self.eval(k, env, mod)
                vv = self.eval(v, env, mod)
                tok = key_token(kv)
                if tok not in d.keys:
                    d.keys[tok] = kv
                d.vals[tok] = vv
            return d
        if t in (ast.ListComp, ast.GeneratorExp):
            return self.eval_listcomp(e, env, mod)
        if t is ast.SetComp:
            # {f(x) for x in xs}: the set of the listed values
            lst = self.eval_listcomp(e, env, mod)
            if not isinstance(lst, PList):
                raise Unsupported("set comprehension over an abstract iterable")
            return self.call(self.builtins["set"], [lst], {})
        if t is ast.DictComp:
            return self.eval_dictcomp(e, env, mod)
        if t is ast.Lambda:
            fv = FuncV(e, mod, "%s:<lambda@%d>" % (mod.name, e.lineno), env)
            fv.defaults = [self.eval(d, env, mod) for d in e.args.defaults]
            return fv
        if t is ast.JoinedStr:
            return self.eval_fstring(e, env, mod)
        if t is ast.FormattedValue:
            return self.eval_fstring(ast.JoinedStr(values=[e]), env, mod)
        if t is ast.Starred:
            raise Unsupported("starred expression")
        raise Unsupported("expression %s at %s:%s" % (t.__name__, mod.name, getattr(e, "lineno", "?")))

    def _eval_elts(self, elts, env, mod):
        out = []
        for x in elts:
            if isinstance(x, ast.Starred):
                out.extend(self.iter_values(self.eval(x.value, env, mod), x))
            else:
                out.append(self.eval(x, env, mod))
        return out

    def eval_boolop(self, e, env, mod):
        is_and = isinstance(e.op, ast.And)
        vals = e.values
        cur = self.eval(vals[0], env, mod)
        for i, nxt in enumerate(vals[1:]):
            tv = self.truthy(cur, "%s@%d.%d" % ("and" if is_and else "or", e.lineno, i))
            if is_and and not tv:
                return cur if not is_sym_bool(cur) else False
            if (not is_and) and tv:
                return cur if not is_sym_bool(cur) else True
            cur = self.eval(nxt, env, mod)
        return cur

    def eval_fstring(self, e, env, mod):
        parts = []
        opaque = False
        for v in e.values:
            if isinstance(v, ast.Constant):
                parts.append(v.value)
                continue
            val = self.eval(v.value, env, mod)
            spec = None
            if v.format_spec is not None:
                spec = self.eval_fstring(v.format_spec, env, mod)
            s = self.to_str(val, conv=v.conversion, spec=spec)
            if isinstance(s, (str, FmtReal, SymStr)):
                parts.append(s)
            else:
                if len(e.values) == 1 and isinstance(s, OpaqueStr):
                    return s  # f"{x:spec}" alone: keep what is known about it (FormattedNumber)
                opaque = True
        if opaque:
            return OpaqueStr()
        if all(isinstance(p, str) for p in parts):
            return "".join(parts)
        if len(parts) == 1:
            return parts[0]
        return SymStr(parts)

    def to_str(self, v, conv=-1, spec=None):
        if isinstance(v, AbsValue):
            return OpaqueStr()
        if isinstance(v, (OpaqueStr, FmtReal, SymStr)):
            return v
        if is_z3(v):
            if spec in (None, "") and is_sym_num(v):
                return FmtReal(v)
            if isinstance(spec, str) and is_sym_num(v):
                from .core import FormattedNumber

                return FormattedNumber(v, spec)
            return OpaqueStr()
        if isinstance(v, Obj):
            names = ["__repr__"] if conv == ord("r") else ["__str__", "__repr__"]
            for n in names:
                f, _ = v.cls.lookup(n)
                if f is not None:
                    r = self.call(BoundM(f, v), [], {})
                    return r
            return OpaqueStr()
        if hasattr(v, "ext_str"):
            return v.ext_str(self)
        if isinstance(v, (PList, PDict, PSet, tuple, ClassV, FuncV, ExcObj, ExtType)):
            return OpaqueStr()
        if isinstance(spec, str) and spec:
            try:
                return format(v, spec)
            except Exception:
                return OpaqueStr()
        if spec is not None and not isinstance(spec, str):
            return OpaqueStr()
        if conv == ord("r"):
            return repr(v)
        if isinstance(v, (str, int, float, bool)) or v is None:
            return str(v)
        return OpaqueStr()

    def eval_call(self, e, env, mod):
        # logging.* : no-op, arguments not evaluated
        if self._is_logging_call(e):
            return None
        # super()
        if isinstance(e.func, ast.Name) and e.func.id == "super" and not e.args:
            cls, ok = env.lookup("__class__")
            if not ok:
                raise Unsupported("super() outside method")
            fn_self = self._first_param_value(env)
            return _SuperProxy(cls, fn_self)
        f = self.eval(e.func, env, mod)
        args = []
        for a in e.args:
            if isinstance(a, ast.Starred):
                args.extend(self.iter_values(self.eval(a.value, env, mod), a))
            else:
                args.append(self.eval(a, env, mod))
        kwargs = {}
        for kw in e.keywords:
            if kw.arg is None:
                d = self.eval(kw.value, env, mod)
                if not isinstance(d, PDict):
                    raise Unsupported("** of non-dict")
                for k in d.keys:
                    kk = d.keys[k]
                    if not isinstance(kk, str):
                        self.raise_native(TypeError, e, "keywords must be strings")
                    kwargs[kk] = d.vals[k]
            else:
                kwargs[kw.arg] = self.eval(kw.value, env, mod)
        return self.call(f, args, kwargs, e)

    def _first_param_value(self, env):
        # the innermost function env holds 'self' as first bound name
        en = env
        while en is not None:
            if "self" in en.vars:
                return en.vars["self"]
            en = en.parent
        raise Unsupported("super() without self")

    # comprehensions ------------------------------------------------------------
    def eval_listcomp(self, e, env, mod):
        gens = e.generators
        first = self.eval(gens[0].iter, env, mod)
        if isinstance(first, AbsValue) and first.abs_is_abstract_iterable():
            return first.abs_listcomp(self, e, env, mod)
        out = []
        self._comp_rec(e, gens, 0, Env(env), mod, out, first)
        return self.new_list(out)

    def _comp_rec(self, e, gens, gi, cenv, mod, out, first=None):
        if gi == len(gens):
            if isinstance(e, ast.DictComp):
                out.append((self.eval(e.key, cenv, mod), self.eval(e.value, cenv, mod)))
            else:
                out.append(self.eval(e.elt, cenv, mod))
            return
        g = gens[gi]
        it = first if (gi == 0 and first is not None) else self.eval(g.iter, cenv, mod)
        if isinstance(it, AbsValue) and it.abs_is_abstract_iterable():
            raise Unsupported("abstract iterable in inner comprehension position")
        for v in self.iter_values(it, g.iter):
            self.assign(g.target, v, cenv, mod)
            ok = True
            for cond in g.ifs:
                if not self.truthy(self.eval(cond, cenv, mod), "compif@%d" % e.lineno):
                    ok = False
                    break
            if ok:
                self._comp_rec(e, gens, gi + 1, cenv, mod, out)

    def eval_dictcomp(self, e, env, mod):
        first = self.eval(e.generators[0].iter, env, mod)
        if isinstance(first, AbsValue) and first.abs_is_abstract_iterable():
            return first.abs_dictcomp(self, e, env, mod)
        out = []
        self._comp_rec(e, e.generators, 0, Env(env), mod, out, first)
        d = self.new_dict()
        for k, v in out:
            tok = key_token(k)
            if tok not in d.keys:
                d.keys[tok] = k
            d.vals[tok] = v
        return d

    # ------------------------------------------------------------------ builtins
    def _make_builtins(self):
        b = {}

        def reg(name):
            def deco(fn):
                b[name] = NativeFn(name, fn)
                return fn

            return deco

        @reg("len")
        def _len(I, a, k):
            v = a[0]
            if isinstance(v, AbsValue):
                return v.abs_len(I)
            if isinstance(v, PList):
                return len(v.items)
            if isinstance(v, (PDict, PSet)):
                return len(v.keys)
            if isinstance(v, (str, tuple)):
                return len(v)
            if isinstance(v, FmtReal):
                return _PositiveLen()
            if isinstance(v, SymStr):
                if any(isinstance(q, FmtReal) or q for q in v.parts):
                    return _PositiveLen()
                return 0
            if hasattr(v, "ext_len"):
                return v.ext_len(I)
            if isinstance(v, Obj):
                f, _ = v.cls.lookup("__len__")
                if f is not None:
                    return I.call(BoundM(f, v), [], {})
            if v is None:
                I.raise_native(TypeError, None, "len of None")
            raise Unsupported("len of %r" % (v,))

        @reg("isinstance")
        def _isinstance(I, a, k):
            return I.isinstance(a[0], a[1])

        @reg("list")
        def _list(I, a, k):
            if not a:
                return I.new_list([])
            if isinstance(a[0], AbsValue):
                return a[0].abs_to_list(I)
            return I.new_list(I.iter_values(a[0]))

        @reg("tuple")
        def _tuple(I, a, k):
            if not a:
                return ()
            if isinstance(a[0], AbsValue):
                return a[0].abs_to_tuple(I)
            return tuple(I.iter_values(a[0]))

        @reg("set")
        def _set(I, a, k):
            s = PSet(I.ctx)
            if a:
                if isinstance(a[0], AbsValue):
                    return a[0].abs_to_set(I)
                for x in I.iter_values(a[0]):
                    s.keys[key_token(x)] = x
            return s

        @reg("frozenset")
        def _frozenset(I, a, k):
            return b["set"].fn(I, a, k)

        @reg("dict")
        def _dict(I, a, k):
            d = I.new_dict()
            if a:
                src = a[0]
                if isinstance(src, PDict):
                    for t in src.keys:
                        d.keys[t] = src.keys[t]
                        d.vals[t] = src.vals[t]
                else:
                    raise Unsupported("dict(iterable)")
            for kk, vv in k.items():
                d.keys[("py", kk)] = kk
                d.vals[("py", kk)] = vv
            return d

        @reg("str")
        def _str(I, a, k):
            if not a:
                return ""
            return I.to_str(a[0])

        @reg("repr")
        def _repr(I, a, k):
            return I.to_str(a[0], conv=ord("r"))

        @reg("format")
        def _format(I, a, k):
            return I.to_str(a[0], spec=a[1] if len(a) > 1 else None)

        @reg("float")
        def _float(I, a, k):
            v = a[0]
            if is_sym_num(v):
                return to_real(v)
            if isinstance(v, bool):
                return float(v)
            if isinstance(v, (int, float)):
                return float(v)
            if isinstance(v, str):
                try:
                    return float(v)
                except ValueError:
                    I.raise_native(ValueError, None, "could not convert string to float")
            if hasattr(v, "ext_float"):
                return v.ext_float(I)
            if v is None or isinstance(v, (PList, PDict, Obj, tuple, OpaqueStr)):
                I.raise_native(TypeError, None, "float() argument must be a string or a real number")
            raise Unsupported("float(%r)" % (v,))

        @reg("int")
        def _int(I, a, k):
            v = a[0]
            if isinstance(v, (int, float, str, bool)):
                try:
                    return int(v)
                except ValueError:
                    I.raise_native(ValueError, None, "invalid literal for int()")
            raise Unsupported("int(%r)" % (v,))

        @reg("bool")
        def _bool(I, a, k):
            if not a:
                return False
            v = a[0]
            if is_sym_bool(v):
                return v
            return I.truthy(v, "bool()")

        @reg("abs")
        def _abs(I, a, k):
            v = a[0]
            if is_sym_num(v):
                v = to_real(v)
                return z3.If(v >= 0, v, -v)
            if isinstance(v, (int, float)):
                return abs(v)
            if hasattr(v, "ext_abs"):
                return v.ext_abs(I)
            I.raise_native(TypeError, None, "bad operand type for abs()")

        @reg("enumerate")
        def _enumerate(I, a, k):
            if isinstance(a[0], AbsValue):
                return a[0].abs_enumerate(I)
            return I.new_list([(i, v) for i, v in enumerate(I.iter_values(a[0]))])

        @reg("zip")
        def _zip(I, a, k):
            return I.new_list([tuple(t) for t in zip(*[I.iter_values(x) for x in a])])

        @reg("range")
        def _range(I, a, k):
            if not all(isinstance(x, int) for x in a):
                raise Unsupported("range with symbolic bounds")
            return I.new_list(list(range(*a)))

        @reg("all")
        def _all(I, a, k):
            from .absdom import BoolFamily

            if isinstance(a[0], BoolFamily):
                return a[0].forall
            for v in I.iter_values(a[0]):
                if not I.truthy(v, "all()"):
                    return False
            return True

        @reg("any")
        def _any(I, a, k):
            from .absdom import BoolFamily

            if isinstance(a[0], BoolFamily):
                return a[0].exists
            for v in I.iter_values(a[0]):
                if I.truthy(v, "any()"):
                    return True
            return False

        @reg("round")
        def _round(I, a, k):
            x = a[0]
            nd = a[1] if len(a) > 1 else k.get("ndigits")
            if isinstance(x, (int, float)) and (nd is None or isinstance(nd, int)):
                return round(x, nd) if nd is not None else round(x)
            if is_sym_num(x) and (nd is None or isinstance(nd, int)):
                # some number near x: an uninterpreted function of x (sound for proofs; equal to x only if proved so)
                f = z3.Function("round_%s" % ("int" if nd is None else nd), z3.RealSort(), z3.RealSort())
                return f(to_real(x))
            raise Unsupported("round(%r, %r)" % (x, nd))

        @reg("sum")
        def _sum(I, a, k):
            tot = a[1] if len(a) > 1 else 0
            for v in I.iter_values(a[0]):
                tot = I.binop(ast.Add(), tot, v)
            return tot

        @reg("sorted")
        def _sorted(I, a, k):
            from .absdom import AList

            if isinstance(a[0], AList) and k.get("key") is None:
                # an abstract list of objects: sorting compares two of them as soon as there are two; objects whose class
                # defines no ordering (Var, terms) make that a TypeError
                lst = a[0]
                e1 = z3.Const(I.ctx.fresh_name("s"), lst.sort)
                e2 = z3.Const(I.ctx.fresh_name("s"), lst.sort)
                sample = lst.wrap(e1)
                if isinstance(sample, Obj) and sample.cls.lookup("__lt__")[0] is None:
                    two = z3.Or(z3.Exists([e1, e2], z3.And(to_bool(lst.mem(e1)), to_bool(lst.mem(e2)), e1 != e2)), z3.Exists([e1], to_bool(lst.dup(e1))))
                    if I.ctx.branch(two, "sorted.two_elements"):
                        I.raise_native(TypeError, None, "'<' not supported between instances")
                    return lst
                raise Unsupported("sorted() of an abstract list")
            items = I.iter_values(a[0])
            return I.new_list(I.sort_values(items, k.get("key"), k.get("reverse", False)))

        @reg("hash")
        def _hash(I, a, k):
            return I.py_hash(a[0])

        @reg("type")
        def _type(I, a, k):
            v = a[0]
            if isinstance(v, Obj):
                return v.cls
            if isinstance(v, AbsValue):
                return v.abs_type(I)
            if isinstance(v, ExcObj):
                return v.cls
            return _PyType(v)

        @reg("print")
        def _print(I, a, k):
            return None

        @reg("map")
        def _map(I, a, k):
            f = a[0]
            return I.new_list([I.call(f, list(t), {}) for t in zip(*[I.iter_values(x) for x in a[1:]])])

        @reg("min")
        def _min(I, a, k):
            items = I.iter_values(a[0]) if len(a) == 1 else list(a)
            cur = items[0]
            for v in items[1:]:
                if I.truthy(I.compare(ast.Lt(), v, cur), "min()"):
                    cur = v
            return cur

        @reg("max")
        def _max(I, a, k):
            items = I.iter_values(a[0]) if len(a) == 1 else list(a)
            cur = items[0]
            for v in items[1:]:
                if I.truthy(I.compare(ast.Gt(), v, cur), "max()"):
                    cur = v
            return cur

        @reg("reversed")
        def _reversed(I, a, k):
            return I.new_list(list(reversed(I.iter_values(a[0]))))

        @reg("open")
        def _open(I, a, k):
            if "open" in I.hooks:
                return I.hooks["open"](I, a, k)
            raise Unsupported("open() without a file model")

        b["object"] = ExtType("object")
        b["NotImplemented"] = NotImplemented
        for tname in ("str", "float", "int", "bool", "list", "dict", "tuple", "set"):
            b[tname].pytype = tname
        return b

    def sort_values(self, items, key=None, reverse=False):
        keyed = []
        for v in items:
            kv = self.call(key, [v], {}) if key is not None else v
            if not isinstance(kv, (str, int, float, tuple)) and not is_sym_num(kv):
                raise Unsupported("sort key is not concrete: %r" % (kv,))
            keyed.append((kv, v))
        if any(is_sym_num(kv) for kv, _ in keyed):
            # symbolic numeric keys: stable insertion sort, every comparison forks the path
            if not all(is_sym_num(kv) or isinstance(kv, (int, float)) for kv, _ in keyed):
                raise Unsupported("sort keys of mixed kinds")
            out = []
            for kv, v in keyed:
                pos = len(out)
                while pos > 0:
                    before = out[pos - 1][0]
                    less = self.truthy(self.compare(ast.Gt() if reverse else ast.Lt(), kv, before), "sort")
                    if not less:
                        break
                    pos -= 1
                out.insert(pos, (kv, v))
            return [v for _, v in out]
        keyed.sort(key=lambda p: p[0], reverse=bool(reverse))
        return [v for _, v in keyed]

    def py_hash(self, v):
        if isinstance(v, Obj):
            f, _ = v.cls.lookup("__hash__")
            if f is not None:
                return self.call(BoundM(f, v), [], {})
            return ("idhash", v.oid)
        if isinstance(v, AbsValue):
            return v.abs_hash(self)
        if isinstance(v, tuple):
            return ("hash", tuple(self.py_hash(x) for x in v))
        if isinstance(v, (str, int, float, bool)) or v is None:
            return ("hash", v)
        if isinstance(v, FmtReal):
            return ("hash", SymStr([v]))
        if isinstance(v, SymStr):
            return ("hash", v)
        if isinstance(v, OpaqueStr):
            raise Unsupported("hash of opaque string")
        if is_z3(v):
            return ("hashsym", v)
        if isinstance(v, (PList, PDict, PSet)):
            self.raise_native(TypeError, None, "unhashable type")
        raise Unsupported("hash(%r)" % (v,))

    def isinstance(self, v, c):
        if isinstance(c, tuple):
            return any(self.isinstance(v, x) for x in c)
        if isinstance(c, ClassV):
            if isinstance(v, Obj):
                return v.cls.is_subclass_of(c)
            if isinstance(v, AbsValue):
                return v.abs_isinstance(self, c)
            return False
        if isinstance(c, NativeFn) and hasattr(c, "pytype"):
            t = c.pytype
            if isinstance(v, AbsValue):
                return v.abs_isinstance(self, t)
            if t == "str":
                return isinstance(v, (str, OpaqueStr, FmtReal, SymStr))
            if t == "float":
                return (isinstance(v, float)) or (is_sym_num(v) and not v.is_int())
            if t == "int":
                return (isinstance(v, int)) or (is_sym_num(v) and v.is_int())
            if t == "bool":
                return isinstance(v, bool) or is_sym_bool(v)
            if t == "list":
                return isinstance(v, PList)
            if t == "dict":
                return isinstance(v, PDict)
            if t == "tuple":
                return isinstance(v, tuple)
            if t == "set":
                return isinstance(v, PSet)
        if isinstance(c, type) and issubclass(c, BaseException):
            return exc_isinstance(v, c) if isinstance(v, (ExcObj, Obj)) else False
        if isinstance(c, ExtType):
            if hasattr(v, "ext_isinstance"):
                return v.ext_isinstance(self, c)
            if isinstance(v, AbsValue):
                return v.abs_isinstance(self, c)
            return False
        if isinstance(c, Sink):
            raise Unsupported("isinstance against uninterpreted type")
        raise Unsupported("isinstance(%r, %r)" % (v, c))


class _PositiveLen:
    """len() of a string that is certainly non-empty but of unknown length"""

    def ext_eq(self, I, other):
        if isinstance(other, int) and other <= 0:
            return False
        raise Unsupported("length of a symbolic string compared with %r" % (other,))

    def ext_compare(self, I, op, other):
        if isinstance(other, int) and other <= 0:
            return op in (ast.Gt, ast.GtE)
        raise Unsupported("length of a symbolic string compared with %r" % (other,))

    def ext_truthy(self, I, label):
        return True


class _KeysOnlyDict:
    """dict.fromkeys(iterable): the distinct keys in first-occurrence order (key equality may be symbolic: every
    comparison forks); only iteration, len() and truth are supported - nothing reads the (None) values."""

    def __init__(self, keys):
        self.keys = keys

    def ext_iter(self, I):
        return list(self.keys)

    def ext_len(self, I):
        return len(self.keys)

    def ext_truthy(self, I, label):
        return bool(self.keys)

    def ext_getattr(self, I, name):
        raise Unsupported("dict.fromkeys(...).%s" % name)


def _dict_fromkeys(I, a, k):
    if len(a) != 1 or k:
        raise Unsupported("dict.fromkeys with a value")
    keys = []
    for x in I.iter_values(a[0]):
        if isinstance(x, (PList, PDict, PSet)):
            I.raise_native(TypeError, None, "unhashable type")
        if not any(I.truthy(I.py_eq(x, y), "fromkeys.same_key") for y in keys):
            keys.append(x)
    return _KeysOnlyDict(keys)


class _PyType:
    def __init__(self, v):
        self.v = v

    def ext_eq(self, I, other):
        return isinstance(other, _PyType) and type(self.v) is type(other.v)


class _ClassBodyEnv(Env):
    def __init__(self, ns, outer):
        self.vars = ns
        self.parent = outer


class _SuperProxy:
    def __init__(self, cls, obj):
        self.cls = cls
        self.obj = obj

    def ext_getattr(self, I, name):
        ocls = self.obj.cls if isinstance(self.obj, Obj) else self.obj.abs_type(I)
        mro = ocls.mro()
        i = mro.index(self.cls)
        for c in mro[i + 1 :]:
            if name in c.ns:
                m = c.ns[name]
                if isinstance(m, FuncV):
                    return BoundM(m, self.obj, c)
                if isinstance(m, StaticM):
                    return m.func
                return m
        I.raise_native(AttributeError, None, "super has no attribute %s" % name)


def _dc_fields(cls):
    out = []
    seen = set()
    for c in reversed(cls.mro()):
        for f in c.dc_fields:
            if f[0] in seen:
                out = [g for g in out if g[0] != f[0]]
            seen.add(f[0])
            out.append(f)
    return out


ClassV.all_dc_fields = _dc_fields


# ----------------------------------------------------------------------------------------------
# methods of builtin containers
# ----------------------------------------------------------------------------------------------
def _builtin_method(name):
    def fn(I, a, k):
        recv = a[0]
        args = a[1:]
        if isinstance(recv, PList):
            return _list_method(I, recv, name, args, k)
        if isinstance(recv, PDict):
            return _dict_method(I, recv, name, args, k)
        if isinstance(recv, PSet):
            return _set_method(I, recv, name, args, k)
        if isinstance(recv, str):
            return _str_method(I, recv, name, args, k)
        if isinstance(recv, tuple):
            if name == "index":
                for i, e in enumerate(recv):
                    if I.truthy(I.py_eq(e, args[0]), "tuple.index"):
                        return i
                I.raise_native(ValueError, None, "tuple.index(x): x not in tuple")
            if name == "count":
                raise Unsupported("tuple.count")
        raise Unsupported("method %s on %r" % (name, recv))

    return fn


def _list_method(I, L, name, args, k):
    if name == "append":
        I.note_write(L, "list.append")
        L.items.append(args[0])
        return None
    if name == "extend":
        I.note_write(L, "list.extend")
        L.items.extend(I.iter_values(args[0]))
        return None
    if name == "copy":
        return I.new_list(L.items)
    if name == "remove":
        for i, e in enumerate(L.items):
            if I.truthy(I.py_eq(e, args[0]), "list.remove"):
                I.note_write(L, "list.remove")
                del L.items[i]
                return None
        I.raise_native(ValueError, None, "list.remove(x): x not in list")
    if name == "index":
        for i, e in enumerate(L.items):
            if I.truthy(I.py_eq(e, args[0]), "list.index"):
                return i
        I.raise_native(ValueError, None, "x not in list")
    if name == "pop":
        if not L.items:
            I.raise_native(IndexError, None, "pop from empty list")
        I.note_write(L, "list.pop")
        idx = args[0] if args else -1
        if not isinstance(idx, int):
            raise Unsupported("pop with symbolic index")
        try:
            return L.items.pop(idx)
        except IndexError:
            I.raise_native(IndexError, None, "pop index out of range")
    if name == "insert":
        I.note_write(L, "list.insert")
        L.items.insert(args[0], args[1])
        return None
    if name == "sort":
        I.note_write(L, "list.sort")
        L.items[:] = I.sort_values(L.items, k.get("key"), k.get("reverse", False))
        return None
    if name == "reverse":
        I.note_write(L, "list.reverse")
        L.items.reverse()
        return None
    if name == "count":
        n = 0
        for e in L.items:
            if I.truthy(I.py_eq(e, args[0]), "list.count"):
                n += 1
        return n
    if name == "clear":
        I.note_write(L, "list.clear")
        L.items.clear()
        return None
    raise Unsupported("list.%s" % name)


def _dict_method(I, D, name, args, k):
    if name == "keys":
        return _DictView(D, "keys")
    if name == "values":
        return _DictView(D, "values")
    if name == "items":
        return _DictView(D, "items")
    if name == "copy":
        d = I.new_dict()
        d.keys = dict(D.keys)
        d.vals = dict(D.vals)
        return d
    if name == "get":
        t = key_token(args[0])
        if t in D.keys:
            return D.vals[t]
        return args[1] if len(args) > 1 else None
    if name == "pop":
        t = key_token(args[0])
        if t in D.keys:
            I.note_write(D, "dict.pop")
            del D.keys[t]
            return D.vals.pop(t)
        if len(args) > 1:
            return args[1]
        I.raise_native(KeyError, None, "dict.pop")
    if name == "update":
        src = args[0]
        if not isinstance(src, PDict):
            raise Unsupported("dict.update(non-dict)")
        I.note_write(D, "dict.update")
        for t in src.keys:
            D.keys.setdefault(t, src.keys[t])
            D.vals[t] = src.vals[t]
        return None
    if name == "setdefault":
        t = key_token(args[0])
        if t not in D.keys:
            I.note_write(D, "dict.setdefault")
            D.keys[t] = args[0]
            D.vals[t] = args[1] if len(args) > 1 else None
        return D.vals[t]
    raise Unsupported("dict.%s" % name)


class _DictView:
    def __init__(self, d, kind):
        self.d = d
        self.kind = kind

    def ext_iter(self, I):
        d = self.d
        if self.kind == "keys":
            return [d.keys[t] for t in d.keys]
        if self.kind == "values":
            return [d.vals[t] for t in d.keys]
        return [(d.keys[t], d.vals[t]) for t in d.keys]

    def ext_len(self, I):
        return len(self.d.keys)

    def ext_contains(self, I, x):
        if self.kind == "keys":
            return I.contains(self.d, x)
        raise Unsupported("`in` on dict %s view" % self.kind)

    def ext_eq(self, I, other):
        if self.kind == "keys" and isinstance(other, _DictView) and other.kind == "keys":
            return set(self.d.keys) == set(other.d.keys)
        raise Unsupported("dict view equality")

    def ext_truthy(self, I, label):
        return len(self.d.keys) > 0


def _set_method(I, S, name, args, k):
    if name == "add":
        I.note_write(S, "set.add")
        S.keys[key_token(args[0])] = args[0]
        return None
    raise Unsupported("set.%s" % name)


def _str_method(I, s, name, args, k):
    if name == "format":
        if all(I._all_concrete(x) for x in args):
            try:
                return s.format(*args, **k)
            except Exception:
                return OpaqueStr()
        return OpaqueStr()
    if name == "join":
        from .absdom import AList

        if isinstance(args[0], AList):
            # an abstract list: joining needs strings; an element that is an object (a Var, a term) is a TypeError as soon as
            # the list has an element at all
            lst = args[0]
            e0 = z3.Const(I.ctx.fresh_name("j"), lst.sort)
            sample = lst.wrap(e0)
            if isinstance(sample, Obj):
                if I.ctx.branch(z3.Exists([e0], to_bool(lst.mem(e0))), "join.nonempty"):
                    I.raise_native(TypeError, None, "sequence item 0: expected str instance")
                return ""
            return OpaqueStr()
        parts = I.iter_values(args[0])
        if any(isinstance(p, Obj) or p is None or isinstance(p, (int, float)) and not isinstance(p, bool) or is_sym_num(p) for p in parts):
            I.raise_native(TypeError, None, "sequence item: expected str instance")
        if all(isinstance(p, str) for p in parts):
            return s.join(parts)
        if all(isinstance(p, (str, FmtReal, SymStr)) for p in parts):
            out = []
            for i, p in enumerate(parts):
                if i:
                    out.append(s)
                out.append(p)
            return SymStr(out)
        return OpaqueStr()
    if name in ("startswith", "endswith", "strip", "lower", "upper", "split", "replace", "lstrip", "rstrip"):
        if all(isinstance(x, (str, int)) for x in args):
            r = getattr(s, name)(*args)
            if isinstance(r, list):
                return I.new_list(r)
            return r
    raise Unsupported("str.%s" % name)
