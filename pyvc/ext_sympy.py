"""Model of the small part of sympy that PolyhedralTerm.to_symbolic / solve_for_variables / to_term use (assumption A6):
linear expressions over symbols with real coefficients; solve() of a square linear system returns a dict
{symbol: expression} iff the determinant is non-zero (Cramer's rule, <= 2 unknowns) and the empty LIST otherwise."""
from __future__ import annotations

import ast

import z3

from .core import ExtMod, ExtType, NativeFn, PDict, PList, Unsupported, is_z3, to_real


class SymExpr:
    def __init__(self, coefs=None, const=0):
        self.coefs = dict(coefs or {})
        self.const = const

    def is_symbol(self):
        return len(self.coefs) == 1 and self.const == 0 and list(self.coefs.values())[0] == 1

    def ext_key(self):
        if not self.is_symbol():
            raise Unsupported("non-symbol sympy expression used as a key")
        return ("sym", list(self.coefs)[0])

    def ext_str(self, I):
        if self.is_symbol():
            return list(self.coefs)[0]
        raise Unsupported("str() of a sympy expression")

    def ext_isinstance(self, I, c):
        if c.name == "sympy.Symbol":
            return self.is_symbol()
        return False

    def ext_binop(self, I, op, other, reflected):
        num = isinstance(other, (int, float)) or is_z3(other)
        if op is ast.Mult and num:
            return SymExpr({k: I.binop(ast.Mult(), v, other) for k, v in self.coefs.items()}, I.binop(ast.Mult(), self.const, other))
        if op in (ast.Add, ast.Sub):
            if num:
                o = SymExpr({}, other)
            elif isinstance(other, SymExpr):
                o = other
            else:
                raise Unsupported("sympy expression %s %r" % (op.__name__, other))
            a, b = (o, self) if reflected else (self, o)
            sign = 1 if op is ast.Add else -1
            coefs = dict(a.coefs)
            for k, v in b.coefs.items():
                coefs[k] = I.binop(ast.Add(), coefs.get(k, 0), I.binop(ast.Mult(), v, sign))
            return SymExpr(coefs, I.binop(ast.Add(), a.const, I.binop(ast.Mult(), b.const, sign)))
        raise Unsupported("sympy expression operator %s" % op.__name__)

    def ext_neg(self, I):
        return self.ext_binop(I, ast.Mult, -1, False)

    def ext_getattr(self, I, name):
        if name == "as_coefficients_dict":

            def acd(I2, a, k):
                d = PDict(I2.ctx)
                for s, c in self.coefs.items():
                    sym = SymExpr({s: 1}, 0)
                    d.keys[("sym", s)] = sym
                    d.vals[("sym", s)] = c
                # sympy lists the constant under the key 1 (only when it is not zero)
                cst = self.const
                nonzero = True
                if is_z3(cst):
                    nonzero = I2.ctx.branch(to_real(cst) != 0, "sympy.const!=0")
                elif cst == 0:
                    nonzero = False
                if nonzero:
                    d.keys[("py", 1)] = 1
                    d.vals[("py", 1)] = cst
                return d

            return NativeFn("as_coefficients_dict", acd)
        raise Unsupported("sympy expression attribute %s" % name)


def _symbols(I, a, k):
    if not isinstance(a[0], str):
        raise Unsupported("sympy.symbols(%r)" % (a[0],))
    return SymExpr({a[0]: 1}, 0)


def _solve(I, a, k):
    exprs = I.iter_values(a[0])
    syms = [s for s in a[1:]]
    names = []
    for s in syms:
        if not (isinstance(s, SymExpr) and s.is_symbol()):
            raise Unsupported("sympy.solve unknown %r" % (s,))
        names.append(list(s.coefs)[0])
    eqs = [e if isinstance(e, SymExpr) else SymExpr({}, e) for e in exprs]
    n = len(names)
    if n == 0 or len(eqs) != n:
        raise Unsupported("sympy.solve: %d equations for %d unknowns (only square systems are modelled)" % (len(eqs), n))
    if n > 2:
        raise Unsupported("sympy.solve with %d unknowns (modelled for <= 2)" % n)
    M = [[to_real(e.coefs.get(v, 0)) for v in names] for e in eqs]
    others = []
    for e in eqs:
        for s in e.coefs:
            if s not in names and s not in others:
                others.append(s)
    det = M[0][0] if n == 1 else M[0][0] * M[1][1] - M[0][1] * M[1][0]
    if I.ctx.branch(det == 0, "sympy.solve:singular"):
        return I.new_list([])  # sympy returns an empty LIST when there is no unique solution (A6)

    # equations are  sum M_ij x_j + rest_i = 0 ; rest_i = const_i + sum_o coef_io * o
    def rest(i, o=None):
        return to_real(eqs[i].const) if o is None else to_real(eqs[i].coefs.get(o, 0))

    def sol(j, o=None):
        r0 = -rest(0, o)
        if n == 1:
            return r0 / det
        r1 = -rest(1, o)
        if j == 0:
            return (r0 * M[1][1] - r1 * M[0][1]) / det
        return (M[0][0] * r1 - M[1][0] * r0) / det

    d = PDict(I.ctx)
    for j, v in enumerate(names):
        e = SymExpr({o: sol(j, o) for o in others}, sol(j, None))
        key = SymExpr({v: 1}, 0)
        d.keys[("sym", v)] = key
        d.vals[("sym", v)] = e
    return d


def make_sympy():
    sym_float = ExtType("sympy.Float")
    core = ExtMod("sympy.core", {"numbers": ExtMod("sympy.core.numbers", {"Float": sym_float}), "symbol": ExtMod("sympy.core.symbol", {"Symbol": ExtType("sympy.Symbol")}), "expr": ExtMod("sympy.core.expr", {"Expr": ExtType("sympy.Expr")})})
    # sympy.Symbol(name) takes the name verbatim; sympy.symbols(name) parses it (ranges, separators): the model gives both the
    # meaning "one symbol called name", which is right for symbols() only on names without ':', ',' and blanks
    return ExtMod("sympy", {"core": core, "symbols": NativeFn("sympy.symbols", _symbols), "Symbol": NativeFn("sympy.Symbol", _symbols), "solve": NativeFn("sympy.solve", _solve)})
