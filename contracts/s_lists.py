"""pacti.utils.lists over CONCRETE-length lists whose elements compare symbolically (domain S): the U-domain contracts
(u_lists) see a list as membership and duplication predicates and cannot follow code that counts (`len(a) == len(b)`
between two unknown lengths is outside that abstraction - the run stops as a checker error). Here the lists have 0-3
elements, every element is a one-variable PolyhedralTerm `c x <= d` with symbolic c and d, so that `==` / `in` between
elements is the real `PolyhedralTerm.__eq__` and forks on every equality pattern, repeated elements included."""
import z3

from contracts.registry import contract
from contracts.slib import S
from pyvc.core import PList

L = "pacti.utils.lists"
EQ = "pacti.terms.polyhedra.polyhedra:PolyhedralTerm.__eq__"
BOUND = "first list 0-3 elements, second list 0-2 elements; elements c x <= d with arbitrary real c != 0 and d (every pattern of equal elements, repeated ones included)"


def _setup(h, na, nb):
    s = S(h)
    a = [s.term("a%d" % i, ["x"], support=["x"]) for i in range(na)]
    b = [s.term("b%d" % i, ["x"], support=["x"]) for i in range(nb)]
    return s, a, b, PList(list(a), h.ctx), PList(list(b), h.ctx)


def _binary(fname, spec):
    def make(na, nb):
        def c(h):
            s, a, b, la, lb = _setup(h, na, nb)
            out = h.call(h.I.get_func("%s:%s" % (L, fname)), [la, lb])
            h.check("C14.%s.no_exception" % fname, out.kind == "return", "raised %s at %s" % (out.exc_name, out.where))
            if out.kind != "return":
                return
            h.cover("return")
            r = out.value
            ok = isinstance(r, PList)
            h.check("C06.%s.returns_list" % fname, ok, "%r" % (r,))
            if not ok:
                return
            eq = lambda e, lst: z3.Or(*[s.same_term(e, o) for o in lst]) if lst else z3.BoolVal(False)
            # membership, up to the elements' own equality: an element is in the result iff the specification says so
            for tag, e in [("a%d" % i, t) for i, t in enumerate(a)] + [("b%d" % i, t) for i, t in enumerate(b)]:
                h.ensure("C06.%s.membership_of_%s" % (fname, tag), eq(e, r.items) == spec(eq(e, a), eq(e, b)))
            h.check("C06.%s.result_elements_are_operand_elements" % fname, all(any(x is o for o in a + b) for x in r.items), "an element of the result is not an element of an operand")
            h.check("C13.%s.fresh_result" % fname, r is not la and r is not lb, "result aliases an argument")
            h.check("C13.%s.operands_unchanged" % fname, la.items == a and lb.items == b, "an argument list was modified")
            h.frame_ok(out, "C13.frame")

        return c

    return make


for _f, _spec, _props in [
    ("list_union", lambda ina, inb: z3.Or(ina, inb), ["C06", "C05", "C08", "C15", "C13", "C14"]),
    ("list_diff", lambda ina, inb: z3.And(ina, z3.Not(inb)), ["C06", "C05", "C13", "C14"]),
    ("list_intersection", lambda ina, inb: z3.And(ina, inb), ["C06", "C05", "C13", "C14"]),
]:
    for _na, _nb in [(0, 0), (1, 0), (0, 1), (1, 1), (2, 1), (2, 2), (3, 2)]:
        contract(
            "lists.%s[%d,%d elements compared by PolyhedralTerm.__eq__]" % (_f, _na, _nb),
            _props,
            ["%s:%s" % (L, _f), EQ],
            "S",
            bound=BOUND,
            covers=["return"],
        )(_binary(_f, _spec)(_na, _nb))


def _lists_equal(na, nb):
    def c(h):
        s, a, b, la, lb = _setup(h, na, nb)
        out = h.call(h.I.get_func(L + ":lists_equal"), [la, lb])
        h.check("C14.lists_equal.no_exception", out.kind == "return", "raised %s at %s" % (out.exc_name, out.where))
        if out.kind != "return":
            return
        h.cover("return")
        r = out.value
        rr = r if isinstance(r, z3.BoolRef) else z3.BoolVal(bool(r))
        eq = lambda e, lst: z3.Or(*[s.same_term(e, o) for o in lst]) if lst else z3.BoolVal(False)
        # the same elements: each element of either list occurs in the other (what `shares_io_with` - the guard of every
        # refinement test - means by equal interfaces)
        spec = z3.And(*([eq(e, b) for e in a] + [eq(e, a) for e in b])) if (a or b) else z3.BoolVal(True)
        h.ensure("C06.lists_equal.iff_same_elements", rr == spec)
        h.check("C13.lists_equal.operands_unchanged", la.items == a and lb.items == b, "an argument list was modified")
        h.frame_ok(out, "C13.frame")

    return c


for _na, _nb in [(0, 0), (1, 0), (0, 1), (1, 1), (2, 1), (1, 2), (2, 2), (3, 2)]:
    contract(
        "lists.lists_equal[%d,%d elements compared by PolyhedralTerm.__eq__]" % (_na, _nb),
        ["C06", "C03", "C13", "C14"],
        [L + ":lists_equal", L + ":list_diff", EQ],
        "S",
        bound=BOUND,
        covers=["return"],
    )(_lists_equal(_na, _nb))
