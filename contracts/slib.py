"""Domain-S helpers: concrete variable names and list lengths (bounded shape), symbolic real coefficients.

All "for all behaviours b" statements are checked at one symbolic point p (one real per variable name),
which is a universally quantified skolem constant of the VC.
"""
from __future__ import annotations

import z3

from pyvc.core import Obj, PDict, PList, Unsupported, to_real
from pyvc.interp import key_token

POLY = "pacti.terms.polyhedra.polyhedra"
IOC = "pacti.iocontract.iocontract"


class S:
    def __init__(self, h):
        self.h = h
        self.I = h.I
        self.ctx = h.ctx
        self.ioc = self.I.load_module(IOC)
        self.poly = self.I.load_module(POLY)
        self.VarC = self.ioc.ns["Var"]
        self.PT = self.poly.ns["PolyhedralTerm"]
        self.PTL = self.poly.ns["PolyhedralTermList"]
        self._point = {}

    # ------------------------------------------------------------------ values
    def var(self, name):
        o = Obj(self.VarC, self.ctx)
        o.attrs["_name"] = name
        return o

    def real(self, prefix="r"):
        return self.ctx.fresh_real(prefix)

    def dict_of(self, pairs):
        d = PDict(self.ctx)
        for k, v in pairs:
            kv = self.var(k) if isinstance(k, str) else k
            t = key_token(kv)
            d.keys[t] = kv
            d.vals[t] = v
        return d

    def term(self, name, names, support=None, allow_empty=True, reverse=False):
        """A PolyhedralTerm satisfying the class invariant (stored coefficients are non-zero), built directly.

        support: None = every subset of `names` is explored (nondeterministic choice), or a list of names."""
        if support is None:
            support = [n for n in names if self.ctx.choose(2, "%s.has_%s" % (name, n)) == 0]
            if not support and not allow_empty:
                from pyvc.core import PathInfeasible

                raise PathInfeasible("precondition: every term mentions a variable")
        t = Obj(self.PT, self.ctx)
        pairs = []
        if reverse:
            support = list(reversed(support))  # same term, dictionary populated in the opposite order
        for n in support:
            c = self.real("%s_%s" % (name, n))
            self.h.assume(c != 0, None)
            pairs.append((n, c))
        t.attrs["variables"] = self.dict_of(pairs)
        t.attrs["constant"] = self.real("%s_c" % name)
        return t

    def termlist(self, terms):
        tl = Obj(self.PTL, self.ctx)
        tl.attrs["terms"] = PList(list(terms), self.ctx)
        return tl

    # ------------------------------------------------------------------ semantics
    def point(self, names):
        for n in names:
            self.pval(n)
        return self._point

    def pval(self, n):
        if n not in self._point:
            self._point[n] = to_real(self.ctx.named_real("p_" + n))
        return self._point[n]

    def coefs(self, t):
        """dict name -> coefficient of a PolyhedralTerm object (as stored)."""
        d = t.attrs["variables"]
        if not isinstance(d, PDict):
            raise Unsupported("term.variables is %r" % (d,))
        out = {}
        for tok in d.keys:
            k = d.keys[tok]
            if not (isinstance(k, Obj) and isinstance(k.attrs.get("_name"), str)):
                raise Unsupported("term key %r" % (k,))
            out[k.attrs["_name"]] = to_real(d.vals[tok])
        return out

    def coef(self, t, n):
        return self.coefs(t).get(n, z3.RealVal(0))

    def const(self, t):
        return to_real(t.attrs["constant"])

    def lhs(self, t, sub=None):
        """sum of coefficient * point value; `sub` overrides point values (name -> expr)."""
        tot = z3.RealVal(0)
        for n, c in self.coefs(t).items():
            pv = sub[n] if (sub and n in sub) else self.pval(n)
            tot = tot + c * pv
        return tot

    def e(self, t, sub=None):
        """e(t,b) = lhs - constant ; the term holds iff e <= 0."""
        return self.lhs(t, sub) - self.const(t)

    def holds(self, t, sub=None):
        return self.e(t, sub) <= 0

    def sat(self, tl, sub=None):
        items = tl.attrs["terms"].items if isinstance(tl, Obj) else list(tl)
        return z3.And(*[self.holds(t, sub) for t in items]) if items else z3.BoolVal(True)

    def is_term(self, v):
        return isinstance(v, Obj) and v.cls is self.PT and isinstance(v.attrs.get("variables"), PDict) and "constant" in v.attrs

    def is_termlist(self, v):
        return isinstance(v, Obj) and v.cls is self.PTL and isinstance(v.attrs.get("terms"), PList) and all(self.is_term(t) for t in v.attrs["terms"].items)

    def invariant(self, t):
        """class invariant: no stored zero coefficient."""
        return z3.And(*[c != 0 for c in self.coefs(t).values()]) if self.coefs(t) else z3.BoolVal(True)

    def same_term(self, a, b):
        ca, cb = self.coefs(a), self.coefs(b)
        names = set(ca) | set(cb)
        return z3.And(*([ca.get(n, z3.RealVal(0)) == cb.get(n, z3.RealVal(0)) for n in names] + [self.const(a) == self.const(b)]))

    def snapshot(self, t):
        return (dict(self.coefs(t)), self.const(t), t.attrs["variables"], list(t.attrs["variables"].keys))

    def unchanged(self, t, snap):
        ca = self.coefs(t)
        if list(t.attrs["variables"].keys) != snap[3] or t.attrs["variables"] is not snap[2]:
            return False
        return all(z3.eq(ca[n], snap[0][n]) for n in ca) and z3.eq(self.const(t), snap[1])
