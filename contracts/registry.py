"""Registry of sidecar contracts: name -> (fn, properties, functions under contract, domain, labels)."""
CONTRACTS = {}


def contract(name, props, functions, domain, bound=None, tier="quick", assumes=(), covers=(), chain=(), weight=1, shards=1):
    """Register `fn(h)` as the contract harness `name`.

    props: property ids whose verdict uses this contract's obligations
    functions: qualified names of the /repo/src functions whose real ast is interpreted
    domain: 'U' (unbounded abstract), 'H' (bounded rows, abstract dimension), 'S' (bounded shape)
    bound: human-readable statement of the bound (None = no bound)
    assumes: assumption ids (A1..A11, P-*) this contract relies on
    """

    def deco(fn):
        CONTRACTS[name] = {
            "name": name,
            "fn": fn,
            "props": list(props),
            "functions": list(functions),
            "domain": domain,
            "bound": bound,
            "tier": tier,
            "assumes": list(assumes),
            "covers": list(covers),
            "chain": list(chain),
            "weight": weight,
            "shards": shards,
        }
        return fn

    return deco
