"""IoContract.rename_variable on CONCRETE interface lists (domain S): the U-domain contract (u_iocontract) abstracts list
order away - positions are exactly what it cannot see - so the list surgery (index, remove, item assignment) is checked
here on every ordering of a three-variable input list and a two-variable output list, every source and every target.
The constraint lists are opaque (their rename_variable is a recording stub) and the constructor is a recording stub:
C06 (prescribed interface), C16 (the interface lists are updated accordingly), C14, C13."""
import itertools

from contracts.registry import contract
from contracts.slib import S, IOC
from pyvc.core import Obj, PList

NAMES = ["t", "s", "u"]
OUTS = ["o", "p"]
CANDIDATES = NAMES + OUTS + ["fresh", "ghost"]


def _reference(ins, outs, src, tgt):
    """(inputs, outputs) prescribed, or 'error' for an input/output clash"""
    ins, outs = list(ins), list(outs)
    if src == tgt or (src not in ins and src not in outs):
        return ins, outs
    if (src in ins and tgt in outs) or (src in outs and tgt in ins):
        return "error"
    for lst in (ins, outs):
        if src in lst:
            if tgt in lst:
                lst.remove(src)
            else:
                lst[lst.index(src)] = tgt
    return ins, outs


@contract(
    "IoContract.rename_variable[concrete interface lists]",
    ["C06", "C16", "C14", "C13"],
    [IOC + ":IoContract.rename_variable"],
    "S",
    bound="inputs: every ordering of {t,s,u}; outputs [o,p] or [p,o]; source and target: any of t,s,u,o,p, a fresh name, an absent name",
    assumes=["contract of TermList.rename_variable / copy (domain U, S)", "contract of IoContract.__init__ (C06)"],
    covers=["return", "IncompatibleArgsError"],
    shards=4,
)
def c_rename_concrete(h):
    s = S(h)
    cls = h.I.load_module("pacti.contracts.polyhedral_iocontract").ns["PolyhedralIoContract"]
    perms = list(itertools.permutations(NAMES))
    ins = list(perms[h.ctx.choose(len(perms), "inputs")])
    outs = [OUTS, OUTS[::-1]][h.ctx.choose(2, "outputs")]
    src = CANDIDATES[h.ctx.choose(len(CANDIDATES), "source")]
    tgt = CANDIDATES[h.ctx.choose(len(CANDIDATES), "target")]
    c = Obj(cls, h.ctx)
    c.attrs["inputvars"] = PList([s.var(v) for v in ins], h.ctx)
    c.attrs["outputvars"] = PList([s.var(v) for v in outs], h.ctx)
    log = []

    class _Opaque(Obj):
        pass

    tl_cls = h.I.load_module("pacti.terms.polyhedra.polyhedra").ns["PolyhedralTermList"]

    def mk(tag):
        o = Obj(tl_cls, h.ctx)
        o.attrs["terms"] = PList([], h.ctx)
        o.attrs["_tag"] = tag
        return o

    c.attrs["a"], c.attrs["g"] = mk("a"), mk("g")

    def copy_stub(I, args, kwargs):
        r = mk(args[0].attrs.get("_tag", "?") + "'")
        log.append(("copy", args[0], r))
        return r

    def ren_stub(I, args, kwargs):
        r = mk(args[0].attrs.get("_tag", "?") + "~")
        log.append(("rename", args[0], args[1].attrs.get("_name"), args[2].attrs.get("_name"), r))
        return r

    made = {}

    def init_stub(I, args, kwargs):
        made["args"], made["kwargs"] = args, kwargs
        return None

    h.I.stubs[IOC + ":TermList.copy"] = copy_stub
    h.I.stubs[IOC + ":TermList.rename_variable"] = ren_stub
    h.I.stubs[IOC + ":IoContract.__init__"] = init_stub
    h.I.stubs["pacti.contracts.polyhedral_iocontract:PolyhedralIoContract.__init__"] = init_stub
    out = h.call(h.method(c, "rename_variable"), [s.var(src), s.var(tgt)])
    ref = _reference(ins, outs, src, tgt)
    if out.kind == "raise":
        ok = out.exc_name == "IncompatibleArgsError"
        h.check("C14.rename_concrete.only_incompatible_args", ok, "raised %s at %s renaming %s -> %s in %s / %s" % (out.exc_name, out.where, src, tgt, ins, outs))
        if ok:
            h.cover("IncompatibleArgsError")
            h.check("C06.rename_concrete.rejects_only_a_clash", ref == "error", "renaming %s -> %s in %s / %s rejected" % (src, tgt, ins, outs))
    else:
        h.cover("return")
        h.check("C06.rename_concrete.clash_rejected", ref != "error", "renaming %s -> %s in %s / %s makes a variable input and output" % (src, tgt, ins, outs))
        a = list(made.get("args") or [])[1:]
        kw = dict(made.get("kwargs") or {})
        for k, v in zip(["assumptions", "guarantees", "input_vars", "output_vars"], a):
            kw.setdefault(k, v)
        names = lambda v: [x.attrs.get("_name") for x in v.items] if isinstance(v, PList) else None
        if ref != "error":
            h.check("C06.rename_concrete.inputs_as_prescribed", names(kw.get("input_vars")) == ref[0], "renaming %s -> %s in %s: inputs %s, prescribed %s" % (src, tgt, ins, names(kw.get("input_vars")), ref[0]))
            h.check("C06.rename_concrete.outputs_as_prescribed", names(kw.get("output_vars")) == ref[1], "renaming %s -> %s in %s: outputs %s, prescribed %s" % (src, tgt, outs, names(kw.get("output_vars")), ref[1]))
            touched = src != tgt and (src in ins or src in outs)
            rens = [e for e in log if e[0] == "rename"]
            h.check("C16.rename_concrete.constraints_renamed_iff_the_variable_is_in_the_interface", (len(rens) == 2) if touched else (len(rens) == 0), "%d constraint-list renamings" % len(rens))
            h.check("C16.rename_concrete.constraints_renamed_with_the_same_pair", all(e[2] == src and e[3] == tgt for e in rens), "%r" % ([e[2:4] for e in rens],))
        h.check("C13.rename_concrete.fresh_interface_lists", kw.get("input_vars") is not c.attrs["inputvars"] and kw.get("output_vars") is not c.attrs["outputvars"], "the operand's interface list is handed to the result")
    h.check("C13.rename_concrete.operand_interface_unchanged", [x.attrs.get("_name") for x in c.attrs["inputvars"].items] == ins and [x.attrs.get("_name") for x in c.attrs["outputvars"].items] == outs, "operand interface modified")
    h.frame_ok(out, "C13.frame")
