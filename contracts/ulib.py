"""Domain-U helpers: abstract Vars, var lists, term lists, contracts, and the *assumed* TermList primitive contracts.

The four TermList primitives (+ refines, is_empty, contains_behavior) are abstract methods of the real
`TermList` class; here they are replaced by their documented contracts (DESIGN.md 4.2).  For C05 that
is the hypothesis of the property itself; for the polyhedral instance the same contracts are the
postconditions proved in contracts/h_*.py (C04, C07, C03).
"""
from __future__ import annotations

import z3

from pyvc.absdom import AList, ATerm, NameS, Opaque, TermS, holds, holds2, sat_formula, tvars, _b
from pyvc.core import ClassV, ExcObj, NativeFn, Obj, PList, PyRaise, Unsupported

IOC = "pacti.iocontract.iocontract"


class U:
    def __init__(self, h, stub_termlist_init=True):
        self.h = h
        self.I = h.I
        self.ctx = h.ctx
        self.mod = self.I.load_module(IOC)
        self.VarC = self.mod.ns["Var"]
        self.TermListC = self.mod.ns["TermList"]
        self.IoContractC = self.mod.ns["IoContract"]
        self.I.u_wrap_var = self.var
        self.I.str_hook = None
        self.calls = []  # log of primitive calls: dicts
        self.op = None  # description of the operation under contract (for native replay of counter-models)
        h.u = self
        self.AbsTL = self._make_abs_termlist_class()
        # str(name expression) is the name itself
        _orig_to_str = self.I.to_str

        def to_str(v, conv=-1, spec=None):
            if z3.is_expr(v) and v.sort() == NameS:
                return v
            return _orig_to_str(v, conv, spec)

        self.I.to_str = to_str
        if stub_termlist_init:
            self.I.stubs[IOC + ":TermList.__init__"] = self._termlist_init_contract

    def _termlist_init_contract(self, I, args, kwargs):
        """Contract of TermList.__init__ (checked on the real code by contract `TermList.__init__`):
        self.terms is a new list with exactly the elements of term_list (none when it is None or empty)."""
        obj = args[0]
        tl = args[1] if len(args) > 1 else kwargs.get("term_list")
        if tl is None:
            new = I.new_list([])
        elif isinstance(tl, PList):
            new = I.new_list(tl.items)
        elif isinstance(tl, AList):
            new = tl.abs_copy(I)
        else:
            raise Unsupported("TermList(%r)" % (tl,))
        I.setattr(obj, "terms", new)
        return None

    # ---------------------------------------------------------------- values
    def var(self, e):
        o = Obj(self.VarC, self.ctx)
        o.attrs["_name"] = e
        return o

    def fresh_var(self, prefix="v"):
        return self.var(self.ctx.fresh(NameS, prefix))

    def varlist(self, name, nodup=True):
        mem = z3.Function(self.ctx.fresh_name("in_" + name), NameS, z3.BoolSort())
        if nodup:
            dup = lambda e: z3.BoolVal(False)
        else:
            dp = z3.Function(self.ctx.fresh_name("dup_" + name), NameS, z3.BoolSort())
            dup = lambda e: z3.And(dp(e), mem(e))
        return AList(self.I, NameS, lambda e: mem(e), dup, self.var)

    def termset(self, name):
        mem = z3.Function(self.ctx.fresh_name("in_" + name), TermS, z3.BoolSort())
        return AList(self.I, TermS, lambda t: mem(t), lambda t: z3.BoolVal(False), ATerm)

    def termlist(self, name):
        o = Obj(self.AbsTL, self.ctx)
        o.attrs["terms"] = self.termset(name)
        return o

    def contract(self, name, cls=None):
        """A contract object with arbitrary abstract fields; well-formedness is *assumed* (precondition)."""
        c = Obj(cls or self.IoContractC, self.ctx)
        c.attrs["a"] = self.termlist(name + "_a")
        c.attrs["g"] = self.termlist(name + "_g")
        c.attrs["inputvars"] = self.varlist(name + "_in")
        c.attrs["outputvars"] = self.varlist(name + "_out")
        self.h.assume(self.wf(c), "pre:wf(%s)" % name)
        return c

    # ---------------------------------------------------------------- formulas
    def mem(self, lst):
        from pyvc.absdom import mem_of

        return mem_of(lst, self.I)

    def dup(self, lst):
        from pyvc.absdom import dup_of

        return dup_of(lst, self.I)

    def terms_of(self, tl):
        return tl.attrs["terms"]

    def sat(self, tl, h=holds):
        return sat_formula(self.terms_of(tl), self.I, h)

    def tl_vars(self, tl):
        """closure v -> [v in vars(tl)]"""
        m = self.mem(self.terms_of(tl))

        def f(v):
            t = z3.Const(self.ctx.fresh_name("t"), TermS)
            return z3.Exists([t], z3.And(_b(m(t)), tvars(t, v)))

        return f

    def forall_v(self, body):
        v = z3.Const(self.ctx.fresh_name("v"), NameS)
        return z3.ForAll([v], body(v))

    def forall_t(self, body):
        t = z3.Const(self.ctx.fresh_name("t"), TermS)
        return z3.ForAll([t], body(t))

    def subset(self, f, g):
        return self.forall_v(lambda v: z3.Implies(_b(f(v)), _b(g(v))))

    def seteq(self, f, g):
        return self.forall_v(lambda v: _b(f(v)) == _b(g(v)))

    def disjoint(self, f, g):
        return self.forall_v(lambda v: z3.Not(z3.And(_b(f(v)), _b(g(v)))))

    def nodup(self, lst):
        d = self.dup(lst)
        return self.forall_v(lambda v: z3.Not(_b(d(v))))

    def wf_parts(self, a, g, ins, outs):
        i, o = self.mem(ins), self.mem(outs)
        return z3.And(
            self.nodup(ins),
            self.nodup(outs),
            self.disjoint(i, o),
            self.subset(self.tl_vars(a), i),
            self.subset(self.tl_vars(g), lambda v: z3.Or(_b(i(v)), _b(o(v)))),
        )

    def wf(self, c):
        return self.wf_parts(c.attrs["a"], c.attrs["g"], c.attrs["inputvars"], c.attrs["outputvars"])

    # ---------------------------------------------------------------- primitive contracts (assumed)
    def _make_abs_termlist_class(self):
        cls = ClassV("AbsTermList", [self.TermListC], self.mod)
        u = self

        def new_tl(name):
            return u.termlist(name)

        def primitive_value_error(what):
            e = ExcObj(ValueError, (what,))
            e.from_primitive = True
            raise PyRaise(e)

        def getargs(a, k, names):
            vals = list(a)
            out = []
            for i, n in enumerate(names):
                if i < len(vals):
                    out.append(vals[i])
                elif n in k:
                    out.append(k[n])
                else:
                    out.append(None)
            return out

        def refining(I, a, k):
            s, ctxt, elim, simplify, order = getargs(a, k, ["self", "context", "vars_to_elim", "simplify", "tactics_order"])
            rec = {"op": "refine", "self": s, "context": ctxt, "elim": elim, "simplify": simplify, "order": order}
            u.calls.append(rec)
            if u.ctx.choose(2, "refine#%d" % len(u.calls)) == 0:
                rec["outcome"] = "ValueError"
                primitive_value_error("refine failed")
            r = new_tl("R%d" % len(u.calls))
            rec["outcome"], rec["result"] = "return", r
            # P-refine: context and result imply the original; variables come from self or context
            u.h.assume(z3.Implies(z3.And(u.sat(ctxt), u.sat(r)), u.sat(s)), "P-refine.sound")
            sv, cv = u.tl_vars(s), u.tl_vars(ctxt)
            u.h.assume(u.subset(u.tl_vars(r), lambda v: z3.Or(sv(v), cv(v))), "P-refine.vars")
            return (r, Opaque("stats"))

        def relaxing(I, a, k):
            s, ctxt, elim, simplify, order = getargs(a, k, ["self", "context", "vars_to_elim", "simplify", "tactics_order"])
            rec = {"op": "relax", "self": s, "context": ctxt, "elim": elim, "simplify": simplify, "order": order}
            u.calls.append(rec)
            if u.ctx.choose(2, "relax#%d" % len(u.calls)) == 0:
                rec["outcome"] = "ValueError"
                primitive_value_error("relax failed")
            r = new_tl("R%d" % len(u.calls))
            rec["outcome"], rec["result"] = "return", r
            u.h.assume(z3.Implies(z3.And(u.sat(ctxt), u.sat(s)), u.sat(r)), "P-relax.sound")
            sv, cv = u.tl_vars(s), u.tl_vars(ctxt)
            u.h.assume(u.subset(u.tl_vars(r), lambda v: z3.Or(sv(v), cv(v))), "P-relax.vars")
            if u.relax_eliminates:
                em = u.mem(elim)
                u.h.assume(u.disjoint(u.tl_vars(r), em), "P-relax.eliminates")
            if simplify is False:
                # P-relax.identity: nothing to eliminate and no simplification asked for - the same constraints come back
                # (polyhedral proof: C15.elim_vars_by_relaxing.nothing_to_eliminate_* in s_tactics)
                em = u.mem(elim)
                nothing = u.forall_v(lambda v: z3.Not(_b(em(v))))
                rm, sm = u.mem(u.terms_of(r)), u.mem(u.terms_of(s))
                u.h.assume(z3.Implies(nothing, u.forall_t(lambda t: _b(rm(t)) == _b(sm(t)))), "P-relax.identity")
            return (r, Opaque("stats"))

        def simplify(I, a, k):
            s, ctxt = getargs(a, k, ["self", "context"])
            rec = {"op": "simplify", "self": s, "context": ctxt}
            u.calls.append(rec)
            if u.ctx.choose(2, "simplify#%d" % len(u.calls)) == 0:
                rec["outcome"] = "ValueError"
                # only if infeasible in context (instantiated at b0)
                csat = u.sat(ctxt) if ctxt is not None else z3.BoolVal(True)
                u.h.assume(z3.Not(z3.And(csat, u.sat(s))), "P-simplify.error_only_if_infeasible")
                primitive_value_error("simplify failed")
            r = new_tl("R%d" % len(u.calls))
            rec["outcome"], rec["result"] = "return", r
            rm, sm = u.mem(u.terms_of(r)), u.mem(u.terms_of(s))
            u.h.assume(u.forall_t(lambda t: z3.Implies(_b(rm(t)), _b(sm(t)))), "P-simplify.selection")
            csat = u.sat(ctxt) if ctxt is not None else z3.BoolVal(True)
            u.h.assume(z3.Implies(csat, u.sat(r) == u.sat(s)), "P-simplify.equiv")
            return r

        def refines(I, a, k):
            s, other = getargs(a, k, ["self", "other"])
            r = u.ctx.fresh_bool("refines")
            u.calls.append({"op": "refines", "self": s, "other": other, "result": r})
            u.h.assume(z3.Implies(r, z3.Implies(u.sat(s), u.sat(other))), "P-refines.sound")
            return r

        def is_empty(I, a, k):
            (s,) = getargs(a, k, ["self"])
            r = u.ctx.fresh_bool("is_empty")
            u.calls.append({"op": "is_empty", "self": s, "result": r})
            u.h.assume(z3.Implies(r, z3.Not(u.sat(s))), "P-empty.sound")
            return r

        def contains_behavior(I, a, k):
            s, beh = getargs(a, k, ["self", "behavior"])
            u.calls.append({"op": "contains_behavior", "self": s, "behavior": beh})
            if u.ctx.choose(2, "contains#%d" % len(u.calls)) == 0:
                u.calls[-1]["outcome"] = "ValueError"
                primitive_value_error("unassigned variable")
            r = u.ctx.fresh_bool("contains")
            u.calls[-1]["result"] = r
            # the behaviour in question is the skolem behaviour b0
            u.h.assume(r == u.sat(s), "P-contains.exact")
            return r

        def hash_(I, a, k):
            return ("hashtl", id(a[0]))

        cls.ns["elim_vars_by_refining"] = NativeFn("elim_vars_by_refining", refining)
        cls.ns["elim_vars_by_relaxing"] = NativeFn("elim_vars_by_relaxing", relaxing)
        cls.ns["simplify"] = NativeFn("simplify", simplify)
        cls.ns["refines"] = NativeFn("refines", refines)
        cls.ns["is_empty"] = NativeFn("is_empty", is_empty)
        cls.ns["contains_behavior"] = NativeFn("contains_behavior", contains_behavior)
        cls.ns["__hash__"] = NativeFn("__hash__", hash_)
        return cls

    relax_eliminates = False

    # ---------------------------------------------------------------- native replay of counter-models
    def record_op(self, op, c1, c2, extra=None, simplify=True):
        self.op = {"op": op, "c1": c1, "c2": c2, "extra": extra, "simplify": simplify}

    def model_witness(self, model):
        """Turn a z3 counter-model into a finite table world + script for monitors.m_model.evaluate."""
        if self.op is None:
            return None
        names = model.get_universe(NameS) or []
        terms = model.get_universe(TermS) or []
        nname = {str(n): "n%d" % i for i, n in enumerate(names)}

        def ev(e):
            return z3.is_true(model.eval(e, model_completion=True))

        def name_list(lst):
            m, d = self.mem(lst), self.dup(lst)
            out = []
            for n in names:
                if ev(_b(m(n))):
                    out.append(nname[str(n)])
                    if ev(_b(d(n))):
                        out.append(nname[str(n)])
            return out

        def term_ids(tl):
            m = self.mem(self.terms_of(tl))
            return [i for i, t in enumerate(terms) if ev(_b(m(t)))]

        table = [{"id": i, "vars": [nname[str(n)] for n in names if ev(tvars(t, n))], "holds": ev(holds(t))} for i, t in enumerate(terms)]

        def cdata(c):
            return {"in": name_list(c.attrs["inputvars"]), "out": name_list(c.attrs["outputvars"]), "a": term_ids(c.attrs["a"]), "g": term_ids(c.attrs["g"])}

        script = []
        for rec in self.calls:
            op = rec["op"]
            if op in ("refine", "relax", "simplify"):
                if rec.get("outcome") == "ValueError":
                    script.append({"op": op, "outcome": "ValueError"})
                elif "result" in rec:
                    script.append({"op": op, "outcome": "return", "result": term_ids(rec["result"])})
            elif op in ("refines", "is_empty"):
                script.append({"op": op, "outcome": "return", "result": ev(rec["result"])})
        o = self.op
        p = {"op": o["op"], "terms": table, "c1": cdata(o["c1"]), "c2": cdata(o["c2"]), "simplify": bool(o["simplify"]), "script": script}
        if o["op"] == "compose":
            p["keep"] = name_list(o["extra"]) if o["extra"] is not None else []
        elif o["op"] == "quotient":
            p["add"] = name_list(o["extra"]) if o["extra"] is not None else []
        return p
