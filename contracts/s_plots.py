"""Contracts of the reduction performed by pacti.utils.plots.constraints_to_vertices (C18), domain S: the 2-D system
handed to the vertex routine is exactly the slice (fixed values substituted, axis limits added, x first, y second).
The vertex routine (_get_bounding_vertices) is replaced there by a recording stub and has contracts of its own below:
the Chebyshev-centre LP of _get_feasible_point (A4, A5 with the Euclidean norm), the halfspace encoding handed to Qhull
and the pass-through of its corners (Qhull itself by its assumed contract A10), the four-direction LP fallback, and the
ordering by angle as a permutation.  That the corners Qhull returns ARE the corners is decided by the bounded monitor."""
import z3

from contracts.registry import contract
from contracts.slib import S, POLY
from pyvc.core import ExcObj, Obj, PDict, PList, PyRaise, Unsupported, to_real
from pyvc.ext import NArr

PLOTS = "pacti.utils.plots"


def _slice(nterms, names):
    def c(h):
        s = S(h)
        h.I.load_module(PLOTS)
        terms = [s.term("t%d" % i, names, allow_empty=False) for i in range(nterms)]
        T = s.termlist(terms)
        swap = h.ctx.choose(2, "swap") == 0
        xv, yv = ("y", "x") if swap else ("x", "y")
        others = [n for n in names if n not in ("x", "y")]
        vals = {}
        for n in others + ["q"]:
            if h.ctx.choose(2, "value_for_" + n) == 0:
                vals[n] = s.real("val_" + n)
        # optionally (wrongly) also assign a plot variable
        assign_axis = h.ctx.choose(3, "assign_axis")
        if assign_axis == 1:
            vals[xv] = s.real("val_axis")
        elif assign_axis == 2:
            vals[yv] = s.real("val_axis")
        vd = s.dict_of(list(vals.items()))
        xl = (s.real("xlo"), s.real("xhi"))
        yl = (s.real("ylo"), s.real("yhi"))
        rec = {}

        def stub(I, args, kwargs):
            rec["A"], rec["b"] = args[0], args[1]
            return ((0.0,), (0.0,))

        h.I.stubs[PLOTS + ":_get_bounding_vertices"] = stub
        snaps = [s.snapshot(t) for t in terms]
        out = h.call(h.I.get_func(PLOTS + ":constraints_to_vertices"), [T, s.var(xv), s.var(yv), vd, xl, yl])
        used = set().union(*[set(s.coefs(t)) for t in terms])
        missing = (used - {xv, yv}) - set(vals)
        bad_axis = assign_axis != 0
        sub = {k: to_real(v) for k, v in vals.items() if k not in (xv, yv)}
        # a constraint whose variables are all fixed and which is violated makes the slice empty
        ground_violated = z3.Or(*[s.e(t, sub) > 0 for t in terms if set(s.coefs(t)) <= set(sub)]) if any(set(s.coefs(t)) <= set(sub) for t in terms) else z3.BoolVal(False)
        if out.kind == "raise":
            ok = out.exc_is(h.I, ValueError)
            h.check("C14.vertices.only_valueerror", ok, "raised %s at %s" % (out.exc_name, out.where))
            h.cover("ValueError")
            if ok and not bad_axis and not missing:
                h.ensure("C18.slice.rejects_only_empty_slices", ground_violated)
            return
        h.cover("reduced")
        h.check("C18.slice.assigned_axis_variable_rejected", not bad_axis, "an axis variable was given a value but no ValueError was raised")
        h.check("C18.slice.missing_value_rejected", not missing, "variables %s have no value but no ValueError was raised" % sorted(missing))
        if bad_axis or missing:
            return
        h.ensure("C18.slice.violated_fixed_constraint_rejected", z3.Not(ground_violated))
        A, b = rec.get("A"), rec.get("b")
        ok = isinstance(A, NArr) and A.ndim == 2 and A.shape[1] == 2 and isinstance(b, NArr) and b.ndim == 1 and b.shape[0] == A.shape[0]
        h.check("C18.slice.two_column_system_handed_over", ok, "A=%r b=%r" % (A, b))
        if ok:
            X, Y = s.pval(xv), s.pval(yv)
            system = z3.And(*[to_real(r[0]) * X + to_real(r[1]) * Y <= to_real(bi) for r, bi in zip(A.data, b.data)]) if A.data else z3.BoolVal(True)
            point = dict(sub)
            expected = z3.And(s.sat(T, point), X <= to_real(xl[1]), X >= to_real(xl[0]), Y <= to_real(yl[1]), Y >= to_real(yl[0]))
            # columns are (x, y) in this order, rows mean the constraints at the fixed values plus the four limits
            h.ensure("C18.slice.system_is_exactly_the_slice", system == expected)
        h.check("C13.operands_unchanged", all(s.unchanged(t, sn) for t, sn in zip(terms, snaps)), "constraint list modified")
        h.frame_ok(out, "C13.frame")

    return c


for _n, _names, _tier, _sh in ((1, ["x", "y", "z"], "quick", 4), (2, ["x", "y", "z"], "quick", 16), (2, ["x", "y", "z", "w"], "thorough", 16)):
    contract(
        "plots.constraints_to_vertices.reduction[%d terms over %s]" % (_n, ",".join(_names)),
        ["C18", "C14", "C13"],
        [PLOTS + ":constraints_to_vertices", PLOTS + ":_substitute_in_termlist", PLOTS + ":_gen_boundary_constraints", POLY + ":PolyhedralTermList.termlist_to_polytope"],
        "S",
        bound="%d terms over {%s} (every support), either axis order, values for any subset of the other variables" % (_n, ",".join(_names)),
        assumes=["A5", "contract of _get_bounding_vertices (its own contracts below; Qhull by A10)"],
        covers=["reduced", "ValueError"],
        tier=_tier,
        shards=_sh,
        weight=2 * _n,
    )(_slice(_n, _names))


# ------------------------------------------------------------------------------------------------
# the vertex routine: Chebyshev centre LP, Qhull by its assumed contract (A10), LP fallback, ordering by angle
# ------------------------------------------------------------------------------------------------
from pyvc.core import NativeFn  # noqa: E402
from pyvc.hdom import LP, ExplicitSpace  # noqa: E402


class _QhullError(RuntimeError):
    pass


def _system(h, s, n_user):
    """a_mat, b of a 2-column system: n_user symbolic rows followed by the four axis limits (the call site always adds them,
    so the region is bounded)"""
    rows, bs = [], []
    for i in range(n_user):
        rows.append([s.real("a%d_x" % i), s.real("a%d_y" % i)])
        bs.append(s.real("b%d" % i))
    lim = [s.real(n) for n in ("xhi", "mxlo", "yhi", "mylo")]
    for r, bi in zip(([1.0, 0.0], [-1.0, 0.0], [0.0, 1.0], [0.0, -1.0]), lim):
        rows.append(list(r))
        bs.append(bi)
    return NArr([list(r) for r in rows], (len(rows), 2)), NArr(list(bs), (len(bs),)), rows, bs


def _region(rows, bs):
    def f(px, py, margin=None, norms=None):
        cs = []
        for k, (r, bi) in enumerate(zip(rows, bs)):
            lhs = to_real(r[0]) * px + to_real(r[1]) * py
            if margin is not None:
                lhs = lhs + margin * norms[k]
            cs.append(lhs <= to_real(bi))
        return z3.And(*cs)

    return f


def _spaces(h):
    sp = {}
    return lambda c_, A_: sp.setdefault(len(c_.items if isinstance(c_, PList) else c_.data), ExplicitSpace(h.ctx, len(c_.items if isinstance(c_, PList) else c_.data)))


def _feasible_point(n_user):
    def c(h):
        s = S(h)
        h.I.load_module(PLOTS)
        A, b, rows, bs = _system(h, s, n_user)
        lp = LP(h, _spaces(h))
        lp.install(PLOTS)
        region = _region(rows, bs)
        qx, qy, rho = s.real("q_x"), s.real("q_y"), s.real("rho")

        def on_call(call):
            # instances of A4's quantified part at the contract's skolem points
            for q in ([qx, qy, z3.RealVal(0)], [qx, qy, rho]):
                h.assume(call.inst(q), None)

        lp.on_call = on_call
        A0, b0 = [list(r) for r in A.data], list(b.data)
        out = h.call(h.I.get_func(PLOTS + ":_get_feasible_point"), [A, b])
        h.check("A4.one_lp", len(lp.calls) == 1, "%d LPs" % len(lp.calls))
        if not lp.calls:
            return
        call = lp.calls[0]
        # the LP is the Chebyshev-centre problem of the system: columns (x, y, r), row i = (a_i, |a_i|) <= b_i, and -r <= 0
        norms = [to_real(rw[2]) for rw in call.rows[:-1]] if all(len(rw) == 3 for rw in call.rows) else None
        shape_ok = norms is not None and len(call.rows) == len(rows) + 1
        h.check("C18.feasible_point.lp_has_one_row_per_constraint_plus_the_sign_of_the_radius", shape_ok, "%d LP rows for %d constraints" % (len(call.rows), len(rows)))
        if not shape_ok:
            return
        for k, (rw, r0) in enumerate(zip(call.rows, rows)):
            h.ensure("C18.feasible_point.lp_row_%d_is_the_constraint_with_its_norm" % k, z3.And(to_real(rw[0]) == to_real(r0[0]), to_real(rw[1]) == to_real(r0[1]), rw[2] >= 0, rw[2] * rw[2] == to_real(r0[0]) * to_real(r0[0]) + to_real(r0[1]) * to_real(r0[1]), to_real(call.b[k]) == to_real(bs[k])))
        if out.kind == "raise":
            h.check("C14.feasible_point.only_valueerror", out.exc_is(h.I, ValueError), "raised %s at %s" % (out.exc_name, out.where))
            h.cover("ValueError")
            h.ensure("C18.feasible_point.rejects_only_an_empty_region", z3.Not(region(qx, qy)))
        else:
            h.cover("point")
            pt = out.value
            ok = isinstance(pt, NArr) and pt.ndim == 1 and pt.shape[0] == 2
            h.check("C18.feasible_point.returns_a_point_of_the_plane", ok, "%r" % (pt,))
            if ok:
                px, py = to_real(pt.data[0]), to_real(pt.data[1])
                h.ensure("C18.feasible_point.point_is_in_the_region", region(px, py))
                # whenever some disc of positive radius fits in the region, the returned point is strictly inside
                fits = z3.And(rho > 0, region(qx, qy, rho, norms))
                strictly = z3.And(*[z3.Implies(nk > 0, to_real(r[0]) * px + to_real(r[1]) * py < to_real(bi)) for r, bi, nk in zip(rows, bs, norms)])
                h.ensure("C18.feasible_point.strictly_inside_whenever_the_region_has_interior", z3.Implies(fits, strictly))
        h.check("C13.feasible_point.arguments_unchanged", A.data == A0 and b.data == b0, "argument array modified")
        h.frame_ok(out, "C13.frame")

    return c


for _n in (0, 1):
    contract(
        "plots._get_feasible_point[%d constraints and the axis limits]" % _n,
        ["C18", "C14", "C13"],
        [PLOTS + ":_get_feasible_point"],
        "S",
        bound="%d symbolic rows followed by the four axis-limit rows" % _n,
        assumes=["A4", "A5"],
        covers=["point", "ValueError"],
    )(_feasible_point(_n))


class _Qhull:
    """A10: scipy.spatial.HalfspaceIntersection(halfspaces, interior_point) - rows [a, -b] mean a.x - b <= 0; given a
    strictly interior point it returns the corners of the region in `.intersections`; otherwise it raises QhullError."""

    def __init__(self, h, s):
        self.h, self.s = h, s
        self.calls = []

    def __call__(self, I, args, kwargs):
        hs, ip = args[0], args[1]
        k = self.h.ctx.choose(4, "qhull")  # 0: QhullError, 1..3: that many corners
        rec = {"halfspaces": hs, "interior_point": ip, "k": k}
        self.calls.append(rec)
        if k == 0:
            I.raise_native(_QhullError, None, "QhullError")
        pts = [[self.s.real("v%d_x" % i), self.s.real("v%d_y" % i)] for i in range(k)]
        rec["points"] = pts
        return _QhullResult(NArr([list(p) for p in pts], (k, 2)))


class _QhullResult:
    def __init__(self, inter):
        self.inter = inter

    def ext_getattr(self, I, name):
        if name == "intersections":
            return self.inter
        raise Unsupported("HalfspaceIntersection.%s" % name)


def _pairs(value):
    """(x tuple, y tuple) -> list of (x, y) or None"""
    if not (isinstance(value, tuple) and len(value) == 2 and all(isinstance(t, tuple) for t in value) and len(value[0]) == len(value[1])):
        return None
    return list(zip(value[0], value[1]))


def _same_multiset(got, exp):
    exp = list(exp)
    for g in got:
        for j, e in enumerate(exp):
            if all(z3.eq(z3.simplify(to_real(a)), z3.simplify(to_real(b))) for a, b in zip(g, e)):
                del exp[j]
                break
        else:
            return False
    return not exp


def _bounding_vertices(n_user):
    def c(h):
        s = S(h)
        h.I.load_module(PLOTS)
        A, b, rows, bs = _system(h, s, n_user)
        region = _region(rows, bs)
        lp = LP(h, _spaces(h))
        lp.install(PLOTS)
        qh = _Qhull(h, s)
        h.I.overrides[(PLOTS, "HalfspaceIntersection")] = NativeFn("HalfspaceIntersection", qh)
        h.I.overrides[(PLOTS, "QhullError")] = _QhullError
        atan = z3.Function("atan2", z3.RealSort(), z3.RealSort(), z3.RealSort())
        h.I.overrides[(PLOTS, "atan2")] = NativeFn("atan2", lambda I, a, k: atan(to_real(a[0]), to_real(a[1])))
        fp = {}

        def feasible_point(I, args, kwargs):
            # contract of _get_feasible_point (proved above): ValueError only for an empty region, else a point of the region
            fp["args"] = args
            if h.ctx.choose(2, "feasible_point") == 0:
                h.assume(z3.Not(region(s.real("any_x"), s.real("any_y"))), "contract:_get_feasible_point.rejects_only_empty")
                I.raise_native(ValueError, None, "Constraints are unfeasible")
            ip = [s.real("ip_x"), s.real("ip_y")]
            fp["ip"] = ip
            h.assume(region(ip[0], ip[1]), "contract:_get_feasible_point.point_in_region")
            return NArr(list(ip), (2,))

        h.I.stubs[PLOTS + ":_get_feasible_point"] = feasible_point

        def on_call(call):
            if "ip" in fp:
                h.assume(call.inst(fp["ip"]), None)

        lp.on_call = on_call
        A0, b0 = [list(r) for r in A.data], list(b.data)
        out = h.call(h.I.get_func(PLOTS + ":_get_bounding_vertices"), [A, b])
        if out.kind == "raise":
            h.check("C14.vertices.only_valueerror", out.exc_is(h.I, ValueError), "raised %s at %s" % (out.exc_name, out.where))
            h.check("C18.vertices.valueerror_only_for_an_empty_region", "ip" not in fp, "ValueError although the region has a point")
            h.cover("ValueError")
            return
        pairs = _pairs(out.value)
        h.check("C18.vertices.returns_x_and_y_tuples", pairs is not None, "%r" % (out.value,))
        if pairs is None:
            return
        h.check("C18.vertices.qhull_asked_once", len(qh.calls) == 1, "%d Qhull calls" % len(qh.calls))
        if len(qh.calls) != 1:
            return
        q = qh.calls[0]
        hs = q["halfspaces"]
        enc = isinstance(hs, NArr) and hs.ndim == 2 and hs.shape == (len(rows), 3)
        h.check("A10.vertices.halfspaces_have_three_columns", enc, "%r" % (hs,))
        if enc:
            for k, (hr, r0, bi) in enumerate(zip(hs.data, rows, bs)):
                h.ensure("A10.vertices.halfspace_%d_is_a_x_minus_b" % k, z3.And(to_real(hr[0]) == to_real(r0[0]), to_real(hr[1]) == to_real(r0[1]), to_real(hr[2]) == -to_real(bi)))
        ipa = q["interior_point"]
        h.check("A10.vertices.interior_point_is_the_feasible_point", isinstance(ipa, NArr) and "ip" in fp and all(z3.eq(to_real(x), y) for x, y in zip(ipa.data, fp["ip"])), "%r" % (ipa,))
        h.check("C18.vertices.feasible_point_of_this_system", fp.get("args") is not None and fp["args"][0] is A and fp["args"][1] is b, "feasible point asked for another system")
        if q["k"] > 0:
            h.cover("qhull")
            # the corners Qhull found are returned, all of them, nothing else (ordering by angle only permutes them)
            h.check("C18.vertices.qhull_corners_returned_exactly", _same_multiset(pairs, q["points"]), "returned %r for corners %r" % (pairs, q["points"]))
            h.check("C18.vertices.no_lp_when_qhull_succeeds", not lp.calls, "%d LPs" % len(lp.calls))
        else:
            h.cover("fallback")
            # degenerate region: the extreme points in the four axis directions
            h.check("C18.vertices.fallback_solves_four_lps", len(lp.calls) == 4, "%d LPs" % len(lp.calls))
            if len(lp.calls) == 4:
                want = [(0, 1), (0, -1), (1, 0), (-1, 0)]
                pts = []
                for k, (call, w) in enumerate(zip(lp.calls, want)):
                    same_sys = len(call.rows) == len(rows) and all(all(z3.eq(z3.simplify(to_real(x)), z3.simplify(to_real(y))) for x, y in zip(rw, r0)) for rw, r0 in zip(call.rows, rows)) and all(z3.eq(z3.simplify(to_real(x)), z3.simplify(to_real(y))) for x, y in zip(call.b, bs))
                    h.check("C18.vertices.fallback_lp_%d_over_the_region" % k, same_sys, "LP %d is not over the system" % k)
                    cv = [z3.simplify(to_real(x)) for x in call.c]
                    h.check("C18.vertices.fallback_lp_%d_direction" % k, len(cv) == 2 and all(z3.eq(x, z3.simplify(z3.RealVal(y))) for x, y in zip(cv, w)), "LP %d minimises %r, expected %r" % (k, cv, w))
                    h.check("C18.vertices.fallback_lp_%d_has_an_optimum" % k, call.status == 0, "status %d on a non-empty bounded region" % call.status)
                    if call.status == 0:
                        pts.append(list(call.x))
                if len(pts) == 4:
                    h.check("C18.vertices.fallback_returns_the_four_extreme_points", _same_multiset(pairs, pts), "returned %r" % (pairs,))
                    for k, p in enumerate(pairs):
                        h.ensure("C18.vertices.fallback_point_%d_in_region" % k, region(to_real(p[0]), to_real(p[1])))
        h.check("C13.vertices.arguments_unchanged", A.data == A0 and b.data == b0, "argument array modified")
        h.frame_ok(out, "C13.frame")

    return c


for _n in (0, 1):
    contract(
        "plots._get_bounding_vertices[%d constraints and the axis limits]" % _n,
        ["C18", "C14", "C13"],
        [PLOTS + ":_get_bounding_vertices"],
        "S",
        bound="%d symbolic rows followed by the four axis-limit rows; Qhull returns 1-3 corners or fails" % _n,
        assumes=["A4", "A5", "A10: Qhull (HalfspaceIntersection) returns the corners of the region described by the halfspaces it is given, or raises QhullError", "contract of _get_feasible_point (proved separately)", "atan2 is some function of its arguments"],
        covers=["qhull", "fallback", "ValueError"],
        shards=4,
    )(_bounding_vertices(_n))
