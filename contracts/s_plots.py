"""Contracts of the reduction performed by pacti.utils.plots.constraints_to_vertices (C18), domain S: the 2-D system
handed to the vertex routine is exactly the slice (fixed values substituted, axis limits added, x first, y second).
The vertex routine itself (_get_bounding_vertices: Chebyshev LP, Qhull, atan2, LP fallback) is outside the verifier's
reach and is replaced by a recording stub; it is covered by the bounded monitor only."""
import z3

from contracts.registry import contract
from contracts.slib import S, POLY
from pyvc.core import ExcObj, Obj, PDict, PList, PyRaise, Unsupported, to_real
from pyvc.ext import NArr

PLOTS = "pacti.utils.plots"


def _slice(nterms, names):
    def c(h):
        s = S(h)
        h.I.load_module(PLOTS)
        terms = [s.term("t%d" % i, names, allow_empty=False) for i in range(nterms)]
        T = s.termlist(terms)
        swap = h.ctx.choose(2, "swap") == 0
        xv, yv = ("y", "x") if swap else ("x", "y")
        others = [n for n in names if n not in ("x", "y")]
        vals = {}
        for n in others + ["q"]:
            if h.ctx.choose(2, "value_for_" + n) == 0:
                vals[n] = s.real("val_" + n)
        # optionally (wrongly) also assign a plot variable
        assign_axis = h.ctx.choose(3, "assign_axis")
        if assign_axis == 1:
            vals[xv] = s.real("val_axis")
        elif assign_axis == 2:
            vals[yv] = s.real("val_axis")
        vd = s.dict_of(list(vals.items()))
        xl = (s.real("xlo"), s.real("xhi"))
        yl = (s.real("ylo"), s.real("yhi"))
        rec = {}

        def stub(I, args, kwargs):
            rec["A"], rec["b"] = args[0], args[1]
            return ((0.0,), (0.0,))

        h.I.stubs[PLOTS + ":_get_bounding_vertices"] = stub
        snaps = [s.snapshot(t) for t in terms]
        out = h.call(h.I.get_func(PLOTS + ":constraints_to_vertices"), [T, s.var(xv), s.var(yv), vd, xl, yl])
        used = set().union(*[set(s.coefs(t)) for t in terms])
        missing = (used - {xv, yv}) - set(vals)
        bad_axis = assign_axis != 0
        sub = {k: to_real(v) for k, v in vals.items() if k not in (xv, yv)}
        # a constraint whose variables are all fixed and which is violated makes the slice empty
        ground_violated = z3.Or(*[s.e(t, sub) > 0 for t in terms if set(s.coefs(t)) <= set(sub)]) if any(set(s.coefs(t)) <= set(sub) for t in terms) else z3.BoolVal(False)
        if out.kind == "raise":
            ok = out.exc_is(h.I, ValueError)
            h.check("C14.vertices.only_valueerror", ok, "raised %s at %s" % (out.exc_name, out.where))
            h.cover("ValueError")
            if ok and not bad_axis and not missing:
                h.ensure("C18.slice.rejects_only_empty_slices", ground_violated)
            return
        h.cover("reduced")
        h.check("C18.slice.assigned_axis_variable_rejected", not bad_axis, "an axis variable was given a value but no ValueError was raised")
        h.check("C18.slice.missing_value_rejected", not missing, "variables %s have no value but no ValueError was raised" % sorted(missing))
        if bad_axis or missing:
            return
        h.ensure("C18.slice.violated_fixed_constraint_rejected", z3.Not(ground_violated))
        A, b = rec.get("A"), rec.get("b")
        ok = isinstance(A, NArr) and A.ndim == 2 and A.shape[1] == 2 and isinstance(b, NArr) and b.ndim == 1 and b.shape[0] == A.shape[0]
        h.check("C18.slice.two_column_system_handed_over", ok, "A=%r b=%r" % (A, b))
        if ok:
            X, Y = s.pval(xv), s.pval(yv)
            system = z3.And(*[to_real(r[0]) * X + to_real(r[1]) * Y <= to_real(bi) for r, bi in zip(A.data, b.data)]) if A.data else z3.BoolVal(True)
            point = dict(sub)
            expected = z3.And(s.sat(T, point), X <= to_real(xl[1]), X >= to_real(xl[0]), Y <= to_real(yl[1]), Y >= to_real(yl[0]))
            # columns are (x, y) in this order, rows mean the constraints at the fixed values plus the four limits
            h.ensure("C18.slice.system_is_exactly_the_slice", system == expected)
        h.check("C13.operands_unchanged", all(s.unchanged(t, sn) for t, sn in zip(terms, snaps)), "constraint list modified")
        h.frame_ok(out, "C13.frame")

    return c


for _n, _names, _tier, _sh in ((1, ["x", "y", "z"], "quick", 4), (2, ["x", "y", "z"], "quick", 16), (2, ["x", "y", "z", "w"], "thorough", 16)):
    contract(
        "plots.constraints_to_vertices.reduction[%d terms over %s]" % (_n, ",".join(_names)),
        ["C18", "C14", "C13"],
        [PLOTS + ":constraints_to_vertices", PLOTS + ":_substitute_in_termlist", PLOTS + ":_gen_boundary_constraints", POLY + ":PolyhedralTermList.termlist_to_polytope"],
        "S",
        bound="%d terms over {%s} (every support), either axis order, values for any subset of the other variables" % (_n, ",".join(_names)),
        assumes=["A5", "A10: _get_bounding_vertices returns the corners of the system it is handed (bounded monitor only)"],
        covers=["reduced", "ValueError"],
        tier=_tier,
        shards=_sh,
        weight=2 * _n,
    )(_slice(_n, _names))
