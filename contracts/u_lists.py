"""Contracts of pacti.utils.lists over abstract lists (domain U, no bound on length or elements)."""
import z3

from contracts.registry import contract
from contracts.ulib import U
from pyvc.absdom import AList, _b

L = "pacti.utils.lists"


def _setup(h, dups=True):
    u = U(h)
    a = u.varlist("a", nodup=not dups)
    b = u.varlist("b", nodup=not dups)
    return u, a, b


def _binary(h, fname, mem_spec, dup_spec):
    u, a, b = _setup(h)
    f = h.I.get_func("%s:%s" % (L, fname))
    out = h.call(f, [a, b])
    h.check("no_exception", out.kind == "return", "raised %s" % out.exc_name)
    if out.kind != "return":
        return
    r = out.value
    h.check("returns_list", isinstance(r, AList), "returned %r" % (r,))
    if not isinstance(r, AList):
        return
    am, bm, ad, bd = a.mem, b.mem, a.dup, b.dup
    h.ensure("members", u.forall_v(lambda e: _b(r.mem(e)) == mem_spec(am(e), bm(e))))
    h.ensure("duplicates", u.forall_v(lambda e: _b(r.dup(e)) == dup_spec(am(e), bm(e), ad(e), bd(e))))
    h.ensure("nodup_preserved", z3.Implies(z3.And(u.nodup(a), u.nodup(b)), u.nodup(r)))
    h.check("fresh_result", r is not a and r is not b, "result aliases an argument")
    h.frame_ok(out)
    h.cover("return")


@contract("lists.list_intersection", ["C06", "C13"], [L + ":list_intersection"], "U")
def c_intersection(h):
    _binary(h, "list_intersection", lambda a, b: z3.And(a, b), lambda a, b, ad, bd: z3.And(ad, b))


@contract("lists.list_diff", ["C06", "C13"], [L + ":list_diff"], "U")
def c_diff(h):
    _binary(h, "list_diff", lambda a, b: z3.And(a, z3.Not(b)), lambda a, b, ad, bd: z3.And(ad, z3.Not(b)))


@contract("lists.list_union", ["C06", "C13"], [L + ":list_union"], "U")
def c_union(h):
    _binary(h, "list_union", lambda a, b: z3.Or(a, b), lambda a, b, ad, bd: z3.Or(ad, z3.And(z3.Not(a), bd)))


@contract("lists.lists_equal", ["C06", "C03"], [L + ":lists_equal"], "U")
def c_equal(h):
    u, a, b = _setup(h)
    f = h.I.get_func(L + ":lists_equal")
    out = h.call(f, [a, b])
    h.check("no_exception", out.kind == "return", "raised %s" % out.exc_name)
    if out.kind != "return":
        return
    r = out.value
    same = u.seteq(a.mem, b.mem)
    if isinstance(r, bool):
        h.ensure("iff_same_elements", same if r else z3.Not(same))
        h.cover("returns_%s" % r)
    else:
        h.ensure("iff_same_elements", r == same)
    h.frame_ok(out)
