"""Contracts of the parse actions of pacti.terms.polyhedra.syntax.grammar (C09), domain S.

Each action is called on the token shapes the grammar object graph can hand it (enumerated here from the grammar
definitions: optional '*', optional sign with default '+', optional factor) and must return an object whose denotation
is the arithmetic reading of those tokens.  That pyparsing delivers exactly these shapes, on freshly built token
objects, is assumption A8 (exercised by the bounded monitor).  Actions scale their freshly parsed operand in place:
writes to the token objects are therefore permitted here."""
import z3

from contracts.registry import contract
from contracts.s_syntax import Syn, NAMES, DATA, stub_same_term_list
from pyvc.core import Obj, PDict, PList, to_real
from pyvc.ext import PRes

GR = "pacti.terms.polyhedra.syntax.grammar"
B = "operands over the variable names {x,y} (every key set), arbitrary real numbers"


def _pr(h, items):
    return PRes(list(items), h.ctx)


def _call(h, name, tokens):
    return h.call(h.I.get_func(GR + ":" + name), [tokens])


def _ok(h, out, clause="C14.action.no_exception"):
    h.check(clause, out.kind == "return", "raised %s at line %s" % (out.exc_name, out.where))
    return out.kind == "return"


def _sign(h, label="sign"):
    return ["+", "-"][h.ctx.choose(2, label)]


def _sg(s):
    return -1 if s == "-" else 1


def _star(h):
    return ["*"] if h.ctx.choose(2, "star") == 0 else []


@contract("grammar.term_actions", ["C09", "C14"], [GR + ":_parse_only_variable", GR + ":_parse_number_and_variable", GR + ":_parse_term", GR + ":_parse_first_term", GR + ":_parse_signed_term", GR + ":_parse_term_list", GR + ":_parse_paren_terms", GR + ":_parse_factor_paren_terms"], "S", bound=B, assumes=["A8"], shards=4, weight=3)
def c_term_actions(h):
    y = Syn(h)
    h.I.load_module(GR)
    which = h.ctx.choose(8, "action")
    if which == 0:
        out = _call(h, "_parse_only_variable", _pr(h, ["x"]))
        if _ok(h, out) and y.is_tl(out.value):
            h.ensure("C09.only_variable.meaning", y.v_tl(out.value) == y.s.pval("x"))
    elif which == 1:
        num = y.s.real("num")
        var_tl = h.I.instantiate(y.TL, [], {"constant": 0, "factors": y.s.dict_of([])})
        var_tl.attrs["factors"] = PDict(h.ctx)
        var_tl.attrs["factors"].keys[("py", "x")] = "x"
        var_tl.attrs["factors"].vals[("py", "x")] = 1.0
        out = _call(h, "_parse_number_and_variable", _pr(h, [num] + _star(h) + [var_tl]))
        if _ok(h, out) and y.is_tl(out.value):
            h.ensure("C09.number_and_variable.meaning", y.v_tl(out.value) == num * y.s.pval("x"))
    elif which == 2:
        if h.ctx.choose(2, "term_is_number") == 0:
            num = y.s.real("num")
            out = _call(h, "_parse_term", _pr(h, [_pr(h, [num])]))
            if _ok(h, out) and y.is_tl(out.value):
                h.ensure("C09.term.number_meaning", y.v_tl(out.value) == num)
        else:
            t = y.tl("t")
            before = y.v_tl(t)
            out = _call(h, "_parse_term", _pr(h, [_pr(h, [t])]))
            if _ok(h, out) and y.is_tl(out.value):
                h.ensure("C09.term.termlist_meaning", y.v_tl(out.value) == before)
    elif which in (3, 4):
        t = y.tl("t")
        before = y.v_tl(t)
        sg = _sign(h)
        name = "_parse_first_term" if which == 3 else "_parse_signed_term"
        out = _call(h, name, _pr(h, [_pr(h, [sg, t])]))
        if _ok(h, out) and y.is_tl(out.value):
            h.ensure("C09.signed_term.meaning", y.v_tl(out.value) == _sg(sg) * before)
    elif which == 5:
        n = h.ctx.choose(3, "n") + 1
        ts = [y.tl("t%d" % i) for i in range(n)]
        before = sum([y.v_tl(t) for t in ts], z3.RealVal(0))
        out = _call(h, "_parse_term_list", _pr(h, [_pr(h, ts)]))
        if _ok(h, out) and y.is_tl(out.value):
            h.ensure("C09.term_list.meaning_is_the_sum", y.v_tl(out.value) == before)
    elif which == 6:
        t = y.tl("t")
        before = y.v_tl(t)
        out = _call(h, "_parse_paren_terms", _pr(h, [_pr(h, ["(", t, ")"])]))
        if _ok(h, out) and y.is_tl(out.value):
            h.ensure("C09.paren_terms.meaning", y.v_tl(out.value) == before)
    else:
        f = y.s.real("f")
        t = y.tl("t")
        before = y.v_tl(t)
        out = _call(h, "_parse_factor_paren_terms", _pr(h, [_pr(h, [f] + _star(h) + [t])]))
        if _ok(h, out) and y.is_tl(out.value):
            h.ensure("C09.factor_paren_terms.meaning", y.v_tl(out.value) == f * before)


@contract("grammar.absolute_actions", ["C09", "C14"], [GR + ":_parse_absolute_term", GR + ":_parse_signed_abs_term", GR + ":_parse_first_abs_term", GR + ":_parse_abs_or_term", GR + ":_parse_abs_or_terms", GR + ":_parse_paren_abs_or_terms"], "S", bound=B + "; at most 2 absolute terms per list", assumes=["A8", "contract of same_term_list"], shards=8, weight=4)
def c_abs_actions(h):
    y = Syn(h)
    stub_same_term_list(h, y)
    h.I.load_module(GR)
    which = h.ctx.choose(6, "action")
    absv = lambda e: z3.If(e >= 0, e, -e)
    if which == 0:
        t = y.tl("t")
        inner = y.v_tl(t)
        if h.ctx.choose(2, "with_coefficient") == 0:
            k = y.s.real("k")
            out = _call(h, "_parse_absolute_term", _pr(h, [_pr(h, [k] + _star(h) + ["|", t, "|"])]))
            exp = k * absv(inner)
        else:
            out = _call(h, "_parse_absolute_term", _pr(h, [_pr(h, ["|", t, "|"])]))
            exp = absv(inner)
        if _ok(h, out) and y.is_at(out.value):
            h.ensure("C09.absolute_term.meaning", y.v_at(out.value) == exp)
    elif which in (1, 2):
        a = y.at("a")
        before = y.v_at(a)
        sg = _sign(h)
        if which == 1:
            out = _call(h, "_parse_signed_abs_term", _pr(h, [_pr(h, [sg, a])]))
        else:
            out = _call(h, "_parse_first_abs_term", _pr(h, [_pr(h, [sg, a])]))
        if _ok(h, out) and y.is_at(out.value):
            h.ensure("C09.signed_abs_term.meaning", y.v_at(out.value) == _sg(sg) * before)
    elif which == 3:
        if h.ctx.choose(2, "is_abs") == 0:
            a = y.at("a")
            out = _call(h, "_parse_abs_or_term", _pr(h, [_pr(h, [a])]))
            if _ok(h, out):
                h.check("C09.abs_or_term.passes_operand_through", out.value is a, "%r" % (out.value,))
        else:
            t = y.tl("t")
            out = _call(h, "_parse_abs_or_term", _pr(h, [_pr(h, [t])]))
            if _ok(h, out):
                h.check("C09.abs_or_term.passes_operand_through", out.value is t, "%r" % (out.value,))
    elif which == 4:
        kinds = [["t"], ["a"], ["t", "a"], ["a", "t"], ["a", "a"], ["t", "t", "a"]][h.ctx.choose(6, "shape")]
        items, tot = [], z3.RealVal(0)
        for i, kd in enumerate(kinds):
            o = y.tl("i%d" % i, ["x"]) if kd == "t" else y.at("i%d" % i, ["x"])
            items.append(o)
            tot = tot + (y.v_tl(o) if kd == "t" else y.v_at(o))
        out = _call(h, "_parse_abs_or_terms", _pr(h, [_pr(h, items)]))
        if _ok(h, out) and y.is_atl(out.value):
            h.ensure("C09.abs_or_terms.meaning_is_the_sum", y.v_atl(out.value) == tot)
    else:
        a = y.atl("a", h.ctx.choose(2, "nabs"), ["x"])
        before = y.v_atl(a)
        if h.ctx.choose(2, "with_factor") == 0:
            f = y.s.real("f")
            out = _call(h, "_parse_paren_abs_or_terms", _pr(h, [_pr(h, [f] + _star(h) + ["(", a, ")"])]))
            exp = f * before
        else:
            out = _call(h, "_parse_paren_abs_or_terms", _pr(h, [_pr(h, ["(", a, ")"])]))
            exp = before
        if _ok(h, out) and y.is_atl(out.value):
            h.ensure("C09.paren_abs_or_terms.meaning", y.v_atl(out.value) == exp)


@contract("grammar.side_actions", ["C09", "C14"], [GR + ":_parse_first_or_addl_paren_abs_or_terms", GR + ":_parse_multi_paren_abs_or_terms"], "S", bound=B + "; operands over {x}", assumes=["A8", "contract of same_term_list"], shards=8, weight=4)
def c_side_actions(h):
    y = Syn(h)
    stub_same_term_list(h, y)
    h.I.load_module(GR)

    def operand(i):
        k = h.ctx.choose(3, "kind%d" % i)
        if k == 0:
            o = y.tl("o%d" % i, ["x"])
            return o, y.v_tl(o)
        if k == 1:
            o = y.at("o%d" % i, ["x"])
            return o, y.v_at(o)
        o = y.atl("o%d" % i, h.ctx.choose(2, "nabs%d" % i), ["x"])
        return o, y.v_atl(o)

    if h.ctx.choose(2, "action") == 0:
        o, v = operand(0)
        if h.ctx.choose(2, "with_sign") == 0:
            sg = _sign(h)
            out = _call(h, "_parse_first_or_addl_paren_abs_or_terms", _pr(h, [_pr(h, [sg, o])]))
            exp = _sg(sg) * v
        else:
            out = _call(h, "_parse_first_or_addl_paren_abs_or_terms", _pr(h, [_pr(h, [o])]))
            exp = v
        if _ok(h, out) and y.is_atl(out.value):
            h.ensure("C09.signed_side_item.meaning", y.v_atl(out.value) == exp)
    else:
        n = h.ctx.choose(2, "n") + 1
        ops = [operand(i) for i in range(n)]
        # class invariant inside each operand list; across operands equal arguments are merged by the action
        out = _call(h, "_parse_multi_paren_abs_or_terms", _pr(h, [_pr(h, [o for o, _ in ops])]))
        if _ok(h, out) and y.is_atl(out.value):
            h.ensure("C09.side.meaning_is_the_sum", y.v_atl(out.value) == sum([v for _, v in ops], z3.RealVal(0)))


@contract("grammar.expression_actions", ["C09", "C14"], [GR + ":_parse_equality_expression", GR + ":_parse_leq_expression", GR + ":_parse_geq_expression", GR + ":_parse_expression_sides", GR + ":_parse_expression", GR + ":_parse_arithmetic_chain"], "S", bound="2-3 sides; arithmetic chains of 2-4 numbers", assumes=["A8"])
def c_expression_actions(h):
    y = Syn(h)
    g = h.I.load_module(GR)
    m = y.m
    which = h.ctx.choose(4, "action")
    if which == 0:
        l, r = y.tl("l", ["x"]), y.tl("r", ["x"])
        op = ["=", "=="][h.ctx.choose(2, "op")]
        out = _call(h, "_parse_equality_expression", _pr(h, [_pr(h, [l, op, r])]))
        if _ok(h, out):
            e = out.value
            ok = isinstance(e, Obj) and e.cls is m.ns["PolyhedralSyntaxEqlExpression"]
            h.check("C09.equality.returns_equality_expression", ok, "%r" % (e,))
            if ok:
                h.check("C09.equality.sides_in_order", e.attrs.get("lhs") is l and e.attrs.get("rhs") is r, "sides swapped or replaced")
    elif which in (1, 2):
        n = h.ctx.choose(2, "n") + 2
        sides = [y.atl("s%d" % i, 0, ["x"]) for i in range(n)]
        sym = "<=" if which == 1 else ">="
        toks = [sides[0]]
        for s_ in sides[1:]:
            toks += [sym, s_]
        out = _call(h, "_parse_leq_expression" if which == 1 else "_parse_geq_expression", _pr(h, [_pr(h, toks)]))
        if _ok(h, out):
            e = out.value
            ok = isinstance(e, Obj) and e.cls is m.ns["PolyhedralSyntaxIneqExpression"] and isinstance(e.attrs.get("sides"), PList)
            h.check("C09.inequality.returns_inequality_expression", ok, "%r" % (e,))
            if ok:
                opm = m.ns["PolyhedralSyntaxOperator"].ns["leq" if which == 1 else "geq"]
                h.check("C09.inequality.operator", e.attrs.get("operator") is opm, "operator %r" % (e.attrs.get("operator"),))
                h.check("C09.inequality.all_sides_in_order", len(e.attrs["sides"].items) == n and all(a is b for a, b in zip(e.attrs["sides"].items, sides)), "sides lost or reordered")
    else:
        n = h.ctx.choose(3, "n") + 2
        level = h.ctx.choose(2, "level")
        nums = [y.s.real("n%d" % i) for i in range(n)]
        ops = [(["*", "/"] if level == 0 else ["+", "-"])[h.ctx.choose(2, "op%d" % i)] for i in range(n - 1)]
        toks = [nums[0]]
        exp = nums[0]
        for o, v in zip(ops, nums[1:]):
            toks += [o, v]
            if o == "/":
                h.assume(v != 0)
            exp = {"*": exp * v, "/": exp / v, "+": exp + v, "-": exp - v}[o]
        out = h.call(h.I.get_func(GR + ":_parse_arithmetic_chain"), ["<string>", 0, _pr(h, [_pr(h, toks)])])
        if _ok(h, out):
            h.ensure("C09.arithmetic_chain.left_to_right_value", to_real(out.value) == exp)
