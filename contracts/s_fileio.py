"""Contracts of pacti.utils.fileio (C10 dispatch on representation type, C14 malformed files), with the file system and
json replaced by a model: the file's parsed json value is given directly (assumption A9: json round-trips)."""
import z3

from contracts.registry import contract
from pyvc.absdom import Opaque
from pyvc.core import ExcObj, ExtMod, NativeFn, Obj, PDict, PList, PyRaise, Unsupported

FIO = "pacti.utils.fileio"
PIC = "pacti.contracts.polyhedral_iocontract"
SER = "pacti.terms.polyhedra.serializer"


class FileV:
    def __init__(self, env, path, mode):
        self.env, self.path, self.mode = env, path, mode

    def ext_enter(self, I):
        self.env.opened.append((self.path, self.mode))
        return self

    def ext_exit(self, I):
        self.env.closed.append(self.path)

    def ext_getattr(self, I, name):
        if name == "write":
            return NativeFn("file.write", lambda I2, a, k: self.env.written.append(a[0]))
        raise Unsupported("file.%s" % name)


class JsonText:
    def __init__(self, data):
        self.data = data


class FsEnv:
    def __init__(self, h, exists=True, content=None):
        self.h = h
        self.opened, self.closed, self.written = [], [], []
        self.content = content
        I = h.I
        I.hooks["open"] = lambda I2, a, k: FileV(self, a[0], a[1] if len(a) > 1 else "r")
        mod = I.load_module(FIO)
        I.overrides[(FIO, "json")] = ExtMod("json", {"load": NativeFn("json.load", lambda I2, a, k: self.content), "dumps": NativeFn("json.dumps", lambda I2, a, k: JsonText(a[0]))})
        I.overrides[(FIO, "os")] = ExtMod("os", {"path": ExtMod("os.path", {"isfile": NativeFn("isfile", lambda I2, a, k: exists)})})


def _d(h, pairs):
    d = PDict(h.ctx)
    for k, v in pairs:
        d.keys[("py", k)] = k
        d.vals[("py", k)] = v
    return d


TYPES = ["PolyhedralIoContract_machine", "PolyhedralIoContract", "PolyhedralIoContractCompound", "SomethingElse"]


@contract("fileio.read_contracts_from_file", ["C10", "C14"], [FIO + ":read_contracts_from_file"], "S", bound="files with 0-2 entries of every type, plus every malformed top-level / entry shape", assumes=["A9: json round-trips", "contracts of validate_contract_dict / from_dict / from_strings (recorded, not executed)"], covers=["return", "rejected"])
def c_read(h):
    cfe = h.I.load_module("pacti.utils.errors").ns["ContractFormatError"]
    shape = h.ctx.choose(6, "shape")
    log = []
    entries = []
    faults = []
    if shape == 0:
        content, exists = None, False
    elif shape == 1:
        content, exists = _d(h, [("type", TYPES[0])]), True  # not a list
    elif shape == 2:
        content, exists = PList(["not a dict"], h.ctx), True
    elif shape == 3:
        missing = ["type", "name", "data"][h.ctx.choose(3, "missing")]
        content = PList([_d(h, [(k, Opaque(k)) for k in ("type", "name", "data") if k != missing])], h.ctx)
        exists = True
    else:
        n = h.ctx.choose(3, "n")
        for i in range(n):
            t = TYPES[h.ctx.choose(len(TYPES), "type%d" % i)]
            if t == "PolyhedralIoContractCompound":
                # compound entries are validated by the reader itself: alternatives are lists of strings
                fault = ["none", "missing_key", "not_a_list", "alternative_not_a_list", "term_not_a_string", "name_not_a_string"][h.ctx.choose(6, "compound_fault%d" % i)]
                fields = [
                    ("assumptions", PList([PList(["A%d" % i], h.ctx), PList(["B%d" % i, "C%d" % i], h.ctx)], h.ctx)),
                    ("guarantees", PList([PList(["G%d" % i], h.ctx)], h.ctx)),
                    ("input_vars", PList(["x"], h.ctx)),
                    ("output_vars", PList(["y"], h.ctx)),
                ]
                if fault == "missing_key":
                    fields = fields[1:]
                elif fault == "not_a_list":
                    fields[1] = ("guarantees", "G")
                elif fault == "alternative_not_a_list":
                    fields[0] = ("assumptions", PList([PList(["A"], h.ctx), 3], h.ctx))
                elif fault == "term_not_a_string":
                    fields[1] = ("guarantees", PList([PList([3.5], h.ctx)], h.ctx))
                elif fault == "name_not_a_string":
                    fields[2] = ("input_vars", PList(["x", None], h.ctx))
                if fault != "none":
                    faults.append(fault)
                data = _d(h, fields)
            else:
                data = _d(h, [("assumptions", Opaque("a%d" % i)), ("guarantees", Opaque("g%d" % i)), ("input_vars", Opaque("i%d" % i)), ("output_vars", Opaque("o%d" % i))])
            entries.append((t, "name%d" % i, data))
        content = PList([_d(h, [("type", t), ("name", nm), ("data", d)]) for t, nm, d in entries], h.ctx)
        exists = True
    FsEnv(h, exists, content)

    def rec(kind):
        def f(I, args, kwargs):
            r = Opaque("contract#%d" % len(log))
            log.append((kind, args, kwargs, r))
            return r if kind != "validate" else None

        return f

    h.I.stubs[SER + ":validate_contract_dict"] = rec("validate")
    h.I.stubs[PIC + ":PolyhedralIoContract.from_dict"] = rec("from_dict")
    h.I.stubs[PIC + ":PolyhedralIoContract.from_strings"] = rec("from_strings")
    h.I.stubs[PIC + ":PolyhedralIoContractCompound.from_strings"] = rec("compound_from_strings")
    out = h.call(h.I.get_func(FIO + ":read_contracts_from_file"), ["some/file.json"])
    if out.kind == "raise":
        h.cover("rejected")
        ok = out.exc_is(h.I, ValueError) or out.exc_is(h.I, cfe)
        h.check("C14.read.only_documented_errors", ok, "raised %s at %s" % (out.exc_name, out.where))
        bad_type = any(t == "SomethingElse" for t, _, _ in entries)
        h.check("C14.read.rejects_only_bad_files", shape in (0, 1, 2, 3) or bad_type or bool(faults), "a well-formed file was rejected")
        return
    h.cover("return")
    h.check("C14.read.malformed_file_rejected", shape >= 4 and all(t != "SomethingElse" for t, _, _ in entries), "a malformed file (shape %d) was accepted" % shape)
    h.check("C14.read.malformed_compound_entry_rejected", not faults, "a compound entry with fault %s was accepted" % faults)
    r = out.value
    ok = isinstance(r, tuple) and len(r) == 2 and isinstance(r[0], PList) and isinstance(r[1], PList)
    h.check("C10.read.returns_contracts_and_names", ok, "%r" % (r,))
    if not ok:
        return
    h.check("C10.read.names_in_order", r[1].items == [nm for _, nm, _ in entries], "names %r" % (r[1].items,))
    h.check("C10.read.one_contract_per_entry", len(r[0].items) == len(entries), "%d contracts" % len(r[0].items))
    builders = [l for l in log if l[0] != "validate"]
    h.check("C10.read.one_constructor_call_per_entry", len(builders) == len(entries), "%d constructor calls" % len(builders))
    for i, ((t, nm, d), b) in enumerate(zip(entries, builders)):
        want = {"PolyhedralIoContract_machine": "from_dict", "PolyhedralIoContract": "from_strings", "PolyhedralIoContractCompound": "compound_from_strings"}[t]
        h.check("C10.read.entry_%d_dispatched_on_its_type" % i, b[0] == want, "type %s read with %s" % (t, b[0]))
        if want == "from_dict":
            h.check("C10.read.entry_%d_data_passed" % i, len(b[1]) >= 1 and b[1][0] is d, "from_dict did not get the entry's data")
        else:
            h.check("C10.read.entry_%d_data_passed" % i, set(b[2]) == {"assumptions", "guarantees", "input_vars", "output_vars"} and all(b[2][k] is d.vals[("py", k)] for k in b[2]), "from_strings did not get the entry's fields")
        if i < len(r[0].items):
            h.check("C10.read.entry_%d_result_kept" % i, r[0].items[i] is b[3], "result list does not hold the constructed contract")
        if t in ("PolyhedralIoContract_machine", "PolyhedralIoContract"):
            vals = [l for l in log if l[0] == "validate" and l[1] and l[1][0] is d]
            h.check("C14.read.entry_%d_validated_in_its_representation" % i, len(vals) == 1 and (vals[0][2].get("machine_representation", vals[0][1][2] if len(vals[0][1]) > 2 else None) is (t == "PolyhedralIoContract_machine")), "entry not validated (or in the wrong representation)")


@contract("fileio.write_contracts_to_file", ["C10", "C14"], [FIO + ":write_contracts_to_file"], "S", bound="0-2 polyhedral contracts, both representations; one compound contract; one foreign object", assumes=["A9: json round-trips", "contracts of to_machine_dict / to_dict (recorded)"], covers=["return"])
def c_write(h):
    pic = h.I.load_module(PIC)
    cls, ccls = pic.ns["PolyhedralIoContract"], pic.ns["PolyhedralIoContractCompound"]
    machine = h.ctx.choose(2, "machine") == 0
    n = h.ctx.choose(3, "n")
    kinds = [["poly", "compound", "foreign"][h.ctx.choose(3, "kind%d" % i)] for i in range(n)]
    objs = []
    for k in kinds:
        objs.append(Obj(cls, h.ctx) if k == "poly" else (Obj(ccls, h.ctx) if k == "compound" else Opaque("foreign")))
    names = ["name%d" % i for i in range(n)]
    env = FsEnv(h, True, None)
    log = []

    def rec(kind):
        def f(I, args, kwargs):
            r = Opaque("%s#%d" % (kind, len(log)))
            log.append((kind, args[0], r))
            return r

        return f

    h.I.stubs[PIC + ":PolyhedralIoContract.to_machine_dict"] = rec("machine")
    h.I.stubs[PIC + ":PolyhedralIoContract.to_dict"] = rec("human")
    h.I.stubs[PIC + ":PolyhedralIoContractCompound.to_dict"] = rec("compound")
    out = h.call(h.I.get_func(FIO + ":write_contracts_to_file"), [PList(objs, h.ctx), PList(names, h.ctx), "out.json", machine])
    unsupported = any(k == "foreign" for k in kinds) or (machine and any(k == "compound" for k in kinds))
    if out.kind == "raise":
        h.check("C14.write.only_valueerror", out.exc_is(h.I, ValueError), "raised %s at %s" % (out.exc_name, out.where))
        h.check("C14.write.rejects_only_unsupported", unsupported, "a supported list of contracts was rejected")
        h.check("C10.write.nothing_written_on_error", not env.written, "a partial file was written")
        return
    h.cover("return")
    h.check("C14.write.unsupported_rejected", not unsupported, "unsupported contract kind accepted")
    h.check("C10.write.one_file_written", len(env.written) == 1 and env.opened == [("out.json", "w")], "opened %r" % (env.opened,))
    if len(env.written) == 1 and isinstance(env.written[0], JsonText) and isinstance(env.written[0].data, PList):
        data = env.written[0].data.items
        h.check("C10.write.one_entry_per_contract", len(data) == n, "%d entries" % len(data))
        for i, (e, k) in enumerate(zip(data, kinds)):
            ok = isinstance(e, PDict) and set(e.keys) == {("py", "name"), ("py", "type"), ("py", "data")}
            h.check("C10.write.entry_%d_has_name_type_data" % i, ok, "%r" % (e,))
            if ok:
                t = e.vals[("py", "type")]
                want = "PolyhedralIoContractCompound" if k == "compound" else ("PolyhedralIoContract_machine" if machine else "PolyhedralIoContract")
                h.check("C10.write.entry_%d_type_matches_representation" % i, t == want, "type %r" % (t,))
                h.check("C10.write.entry_%d_name" % i, e.vals[("py", "name")] == names[i], "name %r" % (e.vals[("py", "name")],))
                src = [l for l in log if l[1] is objs[i]]
                wantk = "compound" if k == "compound" else ("machine" if machine else "human")
                h.check("C10.write.entry_%d_data_is_the_contract_in_that_representation" % i, len(src) == 1 and src[0][0] == wantk and e.vals[("py", "data")] is src[0][2], "data does not come from the right serialiser")
    else:
        h.check("C10.write.json_list_written", False, "written: %r" % (env.written,))
