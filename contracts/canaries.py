"""Canaries: deliberately false postconditions on real functions. Each must be refuted on every run, otherwise the
engine is unsound or vacuous and the check exits 3 (DESIGN.md 2.7)."""
import z3

from contracts.registry import contract, CONTRACTS
from contracts.ulib import U
from pyvc.absdom import _b


@contract("canary.U.list_diff_returns_first_argument", [], ["pacti.utils.lists:list_diff"], "U")
def canary_list_diff(h):
    u = U(h)
    a, b = u.varlist("a", nodup=False), u.varlist("b", nodup=False)
    out = h.call(h.I.get_func("pacti.utils.lists:list_diff"), [a, b])
    r = out.value
    h.ensure("canary.members_equal_first", u.forall_v(lambda e: _b(r.mem(e)) == _b(a.mem(e))))


CONTRACTS["canary.U.list_diff_returns_first_argument"]["canary"] = ["canary.members_equal_first"]


@contract("canary.U.compose_assumptions_without_producer_guarantees", [], ["pacti.iocontract.iocontract:IoContract.compose_tactics"], "U")
def canary_compose(h):
    from pyvc.absdom import Opaque

    u = U(h)
    c1, c2 = u.contract("c1"), u.contract("c2")
    keep = u.varlist("keep")
    out = h.call(h.method(c1, "compose_tactics"), [c2, keep, False, Opaque("order")])
    if out.kind == "return":
        res = out.value[0]
        # false claim: the composite assumptions alone (without self honouring its contract) imply other's assumptions
        h.ensure("canary.no_need_for_guarantees", z3.Implies(u.sat(res.attrs["a"]), u.sat(c2.attrs["a"])))


CONTRACTS["canary.U.compose_assumptions_without_producer_guarantees"]["canary"] = ["canary.no_need_for_guarantees"]


@contract("canary.S.multiply_keeps_the_constant", [], ["pacti.terms.polyhedra.polyhedra:PolyhedralTerm.multiply"], "S")
def canary_multiply(h):
    from contracts.slib import S

    s = S(h)
    a = s.term("a", ["x", "y"])
    k = s.real("k")
    out = h.call(h.method(a, "multiply"), [k])
    if out.kind == "return":
        h.ensure("canary.constant_unchanged", s.const(out.value) == s.const(a))


CONTRACTS["canary.S.multiply_keeps_the_constant"]["canary"] = ["canary.constant_unchanged"]


@contract("canary.H.reduce_polytope_keeps_every_row", [], ["pacti.terms.polyhedra.polyhedra:PolyhedralTermList.reduce_polytope"], "H")
def canary_reduce(h):
    from contracts.h_lp import HEnv

    e = HEnv(h)
    a, b = e.matrix("a", 2)
    out = h.call(e.fn("reduce_polytope"), [a, b])
    if out.kind == "return":
        h.check("canary.all_rows_kept", len(out.value[0].rows) == 2, "a row was dropped")


CONTRACTS["canary.H.reduce_polytope_keeps_every_row"]["canary"] = ["canary.all_rows_kept"]
