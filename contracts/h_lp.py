"""Contracts of the LP-level functions of PolyhedralTermList (domain H: abstract dimension, bounded rows)
under the ideal linprog contract A4.  Proof hints are explicit instances of A4's quantified parts."""
import z3

from contracts.registry import contract
from contracts.slib import POLY
from pyvc.core import to_real
from pyvc.ext import NArr
from pyvc.hdom import LP, AbstractSpace, Dim, HMat, LinRow, RowS, install_numpy_h

PTL = POLY + ":PolyhedralTermList."


TAU = z3.RealVal("1/10000")


class HEnv:
    def __init__(self, h, gives_up=False):
        self.h = h
        install_numpy_h(h.I)
        self.space = AbstractSpace(h.ctx)
        self.lp = LP(h, lambda c, A: self.space, gives_up=gives_up)
        self.lp.install()
        self.dim = Dim("m")
        self.cls = h.I.get_class(POLY + ":PolyhedralTermList")

    def matrix(self, name, n):
        rows = [LinRow([(1, self.h.ctx.fresh(RowS, "%s%d" % (name, i)))], self.dim) for i in range(n)]
        b = NArr([self.h.ctx.fresh_real("b_%s%d" % (name, i)) for i in range(n)], (n,))
        return HMat(rows, self.dim), b

    def poly(self, rows, bs):
        sp = self.space

        def f(p):
            cs = [sp.ev(r, p) <= to_real(b) for r, b in zip(rows, bs)]
            return z3.And(*cs) if cs else z3.BoolVal(True)

        return f

    def fn(self, name):
        return self.h.I.get_func(PTL + name)

    def comb_hint(self, call, p, row, bound):
        """Instances needed to transfer `max row <= bound-1` from the LP feasible set (where row <= bound) to all of it:
        the point on the segment from the optimum x* to p at which `row` equals `bound`."""
        sp = self.space
        xs = call.witness
        M, P = sp.ev(row, xs), sp.ev(row, p)
        lam = self.h.ctx.fresh_real("lam")
        allrows = list(call.rows) + [row]
        q, facts = sp.comb(xs, p, lam, allrows)
        return z3.And(z3.Implies(P != M, lam * (P - M) == to_real(bound) - M), *facts, call.inst(q))


# ------------------------------------------------------------------------------------------------
@contract("PolyhedralTermList.is_polytope_empty", ["C03", "C11", "C14"], [PTL + "is_polytope_empty"], "H", bound="0..3 rows, any number of columns", assumes=["A4", "A5"], covers=["True", "False"])
def c_is_empty(h):
    e = HEnv(h)
    n = h.ctx.choose(4, "rows")
    a, b = e.matrix("a", n)
    out = h.call(e.fn("is_polytope_empty"), [a, b])
    h.check("C14.no_exception", out.kind == "return", "raised %s at %s" % (out.exc_name, out.where))
    if out.kind != "return":
        return
    r = out.value
    h.check("returns_bool", isinstance(r, bool), "%r" % (r,))
    S = e.poly(a.rows, b.data)
    if r is True:
        h.cover("True")
        p = e.space.new_point("p")
        h.ensure("C11.is_polytope_empty.true_only_if_no_point", z3.Not(S(p)), hints=[c.inst(p) for c in e.lp.calls])
    elif r is False:
        h.cover("False")
        wit = [c.witness for c in e.lp.calls if c.witness is not None] or [e.space.new_point("any")]
        h.ensure("C11.is_polytope_empty.false_only_if_some_point", z3.Or(*[S(w) for w in wit]))
    h.frame_ok(out, "C13.frame")


# ------------------------------------------------------------------------------------------------
def _containment(nl, nr, gives_up=False):
    def c(h):
        e = HEnv(h, gives_up)
        al, bl = e.matrix("l", nl)
        ar, br = e.matrix("r", nr)
        out = h.call(e.fn("verify_polytope_containment"), [al, bl, ar, br])
        L, R = e.poly(al.rows, bl.data), e.poly(ar.rows, br.data)
        calls = e.lp.calls
        # A4 at the loop's LPs: the tested row, relaxed by one, is among the constraints, so the objective -(row) is bounded
        # below by -(b_r[i]+1) on the feasible set and "unbounded" cannot be a true answer - that path is infeasible under A4
        for c_ in calls[2:]:
            if c_.status == 3 and not c_.gave_up:
                h.assume(c_.inst_unbounded(-to_real(c_.b[-1]))[1], "A4.unbounded_means_below_every_bound")
        if any(c_.gave_up for c_ in calls):
            # outside A4: an answer without information.  The emptiness tests may refuse (ValueError, "Cannot decide
            # emptiness"); a containment test that got no optimum must leave containment unestablished - never True, and
            # never another exception
            h.cover("solver_gave_up")
            if out.kind == "raise":
                h.check("C14.containment.solver_gave_up.only_valueerror", out.exc_is(h.I, ValueError), "raised %s at %s" % (out.exc_name, out.where))
                h.check("C14.containment.solver_gave_up.valueerror_only_from_emptiness_test", any(c_.gave_up for c_ in calls[:2]), "ValueError although both emptiness tests were answered")
            elif any(c_.gave_up for c_ in calls[2:]):
                h.check("C03.containment.solver_gave_up.not_established", out.value is False, "returned %r after an LP without optimum" % (out.value,))
            return
        if out.kind == "raise":
            # every exception must be unreachable under A4; for status 3 inside the loop the objective is bounded below
            hints = []
            for c_ in calls:
                if c_.status == 3 and not c_.gave_up:
                    bound = -to_real(c_.b[-1])  # objective = -(tested row) >= -(b_r[i]+1) on the feasible set
                    _, fact = c_.inst_unbounded(bound)
                    hints.append(fact)
            h.ensure("C14.containment.no_exception[%s]" % out.exc_name, False, hints=hints)
            return
        r = out.value
        h.check("returns_bool", isinstance(r, bool), "%r" % (r,))
        if r is True:
            h.cover("True")
            p = e.space.new_point("p")
            # the property's numerical reading: a True answer is wrong only if some point of the left side breaks a
            # right-hand constraint by more than 1e-4*(1+|constant|).  One obligation per right-hand constraint, each with the
            # instances of its own LP only (the conjunction over three rows was one slow, unstable query)
            tested = calls[2:]
            if calls and calls[0].status != 2:
                # (an empty left side is contained in anything: True without a single containment LP)
                h.check("C03.containment.one_lp_per_right_hand_constraint", len(tested) == len(ar.rows) and all(c_.status == 0 for c_ in tested), "%d LPs for %d constraints" % (len(tested), len(ar.rows)))
            for i, (row, x) in enumerate(zip(ar.rows, br.data)):
                hints = [c_.inst(p) for c_ in calls[:2]]
                if i < len(tested) and tested[i].status == 0:
                    c_ = tested[i]
                    hints += [c_.inst(p), e.comb_hint(c_, p, c_.rows[-1], c_.b[-1])]
                bound = to_real(x) + TAU * (1 + z3.If(to_real(x) >= 0, to_real(x), -to_real(x)))
                h.ensure("C03.containment.true_only_if_contained_within_tolerance[right-hand constraint %d]" % i, z3.Implies(L(p), e.space.ev(row, p) <= bound), hints=hints)
        elif r is False:
            h.cover("False")
            wits = [c_.witness for c_ in calls if c_.witness is not None]
            hints = [c_.inst(w) for c_ in calls for w in wits]
            h.ensure("C03.containment.false_only_if_not_contained", z3.Or(*[z3.And(L(w), z3.Not(R(w))) for w in wits]) if wits else False, hints=hints)
        h.frame_ok(out, "C13.frame")

    return c


for _nl, _nr, _tier in [(1, 1, "quick"), (2, 1, "quick"), (1, 2, "quick"), (2, 2, "quick"), (3, 2, "thorough"), (3, 3, "thorough")]:
    contract(
        "PolyhedralTermList.verify_polytope_containment[%dx%d]" % (_nl, _nr),
        ["C03", "C14", "C13"],
        [PTL + "verify_polytope_containment", PTL + "is_polytope_empty"],
        "H",
        bound="%d left rows, %d right rows, any number of columns" % (_nl, _nr),
        assumes=["A4", "A5", "A3"],
        tier=_tier,
        covers=["True", "False"],
    )(_containment(_nl, _nr))


# ------------------------------------------------------------------------------------------------
def _reduce(n, nh, gives_up=False):
    def c(h):
        e = HEnv(h, gives_up)
        a, b = e.matrix("a", n)
        if nh is None:
            args = [a, b]
            H = lambda p: z3.BoolVal(True)
            hrows, hb = [], []
        else:
            ah, bh = e.matrix("h", nh)
            args = [a, b, ah, bh]
            H = e.poly(ah.rows, bh.data)
            hrows, hb = ah.rows, bh.data
        b0 = list(b.data)
        out = h.call(e.fn("reduce_polytope"), args)
        A = e.poly(a.rows, b0)
        # two kinds of LP: the redundancy tests (objective = minus one of the LP's rows), and - since an "infeasible" answer
        # is confirmed by the emptiness test before the constraints are declared unsatisfiable - feasibility problems (zero
        # objective) over the system of the test they confirm
        all_calls = e.lp.calls
        confirms = [c_ for c_ in all_calls if _zero_objective(c_)]
        calls = [c_ for c_ in all_calls if not _zero_objective(c_)]
        p = e.space.new_point("p")
        base_hints = [c_.inst(p) for c_ in all_calls]
        tested_ok = all(_tested_index(c_) is not None for c_ in calls)
        h.check("C07.reduce.each_test_maximises_one_of_its_rows", tested_ok, "an LP objective is not the negation of one of the LP's rows")
        if not tested_ok:
            return
        conf_ok = all(any(t.status == 2 and not t.gave_up and _confirms(t, c_) for t in calls) for c_ in confirms)
        h.check("C07.reduce.a_feasibility_problem_is_the_system_of_a_test_answered_infeasible", conf_ok, "a feasibility LP over another system than that of a test answered 'infeasible'")
        if not conf_ok:
            return
        unb = [c_.inst_unbounded(-to_real(c_.b[_tested_index(c_)]))[1] for c_ in calls if c_.status == 3 and not c_.gave_up]
        for fact in unb:
            # A4: the tested row, relaxed by one, is among the constraints - an "unbounded" answer is impossible
            h.assume(fact, "A4.unbounded_means_below_every_bound")
        for zrow in getattr(h.ctx, "zero_rows", []):
            # a row found to have no non-zero entry is the zero functional: at every point the contract talks about
            for pt in [p] + [c_.witness for c_ in calls if c_.witness is not None]:
                h.assume(e.space.ev(zrow, pt) == 0, "A5.row_without_nonzero_entry_is_zero")
        if out.kind == "raise":
            if out.exc_is(h.I, ValueError):
                h.cover("ValueError")
                h.ensure("C07.reduce.valueerror_only_if_infeasible", z3.Not(z3.And(A(p), H(p))), hints=base_hints + unb)
            else:
                h.ensure("C14.reduce.no_exception[%s]" % out.exc_name, False, hints=unb)
            return
        h.cover("return")
        res = out.value
        ok = isinstance(res, tuple) and len(res) == 2 and isinstance(res[0], HMat) and isinstance(res[1], NArr)
        h.check("reduce.returns_pair", ok, "%r" % (res,))
        if not ok:
            return
        ra, rb = res
        # selection: the result rows are a subsequence of the argument rows with their own constants
        idx, j = [], 0
        for r in ra.rows:
            while j < n and not r.same_functional(a.rows[j]):
                j += 1
            if j == n:
                idx = None
                break
            idx.append(j)
            j += 1
        h.check("C07.reduce.selection_in_order", idx is not None and len(rb.data) == len(ra.rows), "result rows are not a subsequence of the input rows")
        if idx is None:
            return
        for k, jj in enumerate(idx):
            h.ensure("C07.reduce.constant_unchanged_%d" % k, to_real(rb.data[k]) == to_real(b0[jj]))
        for c_ in calls:
            if c_.gave_up:
                # outside A4: an LP answered without an optimum says nothing about redundancy - its row stays
                h.cover("solver_gave_up")
                ti = _tested_index(c_)
                kept = any(c_.rows[ti].same_functional(a.rows[jj]) for jj in idx)
                h.check("C07.reduce.solver_gave_up.row_is_kept", kept, "a row was dropped although its LP had no optimum (status %d)" % c_.status)
        Ared = e.poly(ra.rows, rb.data)
        hints = list(base_hints)
        for c_ in calls:
            if c_.status == 0:
                ti = _tested_index(c_)
                hints.append(e.comb_hint(c_, p, c_.rows[ti], c_.b[ti]))
            elif c_.status == 3:
                hints.append(c_.inst_unbounded(-to_real(c_.b[_tested_index(c_)]))[1])
        h.ensure("C07.reduce.equivalent_in_context", z3.Implies(H(p), Ared(p) == A(p)), hints=hints)
        # nothing redundant is left: each kept row was tested, and the optimum of its test violates it while satisfying the others
        tested = {}
        for c_ in calls:
            ti = _tested_index(c_)
            for jj in range(n):
                if c_.rows[ti].same_functional(a.rows[jj]):
                    tested[jj] = c_
        if not (n == 1 and nh is None) and n > 0:
            for k, jj in enumerate(idx):
                c_ = tested.get(jj)
                # (a single remaining row with no context has nothing that could imply it: keeping it untested is the code's own
                # up-front shortcut, and stays acceptable if it is taken later in the loop)
                alone = len(idx) == 1 and nh is None
                # (outside A4 a test answered "infeasible" may fail to be confirmed: the row stays and the loop goes on)
                h.check("C07.reduce.kept_row_was_tested_%d" % k, alone or (c_ is not None and (c_.status == 0 or c_.gave_up or (gives_up and c_.status == 2))), "row %d kept without a bounded test" % jj)
                if c_ is not None and c_.status == 0 and not c_.gave_up:
                    w = c_.witness
                    others = z3.And(*[e.space.ev(ra.rows[q], w) <= to_real(rb.data[q]) for q in range(len(idx)) if q != k]) if len(idx) > 1 else z3.BoolVal(True)
                    bk = to_real(rb.data[k])
                    margin = TAU * (1 + z3.If(bk >= 0, bk, -bk))
                    # "droppable" in the property's reading means implied with a margin above the tolerance
                    h.ensure("C07.reduce.kept_row_not_redundant_%d" % k, z3.And(others, H(w), e.space.ev(ra.rows[k], w) > bk - margin))
        # arguments untouched
        h.check("C13.reduce.arguments_unchanged", all(z3.eq(to_real(x), to_real(y)) for x, y in zip(b.data, b0)) and len(b.data) == n, "argument vector modified")
        h.frame_ok(out, "C13.frame")

    return c


def _zero_objective(call):
    return all(z3.is_true(z3.simplify(to_real(k) == 0)) for k, _ in call.c.terms)


def _confirms(test, conf):
    """the feasibility problem `conf` is over the system of the redundancy test `test`, the tested row relaxed by one as in
    the test or with its own bound (either way a subset of what the test called infeasible is asked about)"""
    if len(test.rows) != len(conf.rows) or not all(r1.same_functional(r2) for r1, r2 in zip(test.rows, conf.rows)):
        return False
    ti = _tested_index(test)
    for i, (x, y) in enumerate(zip(test.b, conf.b)):
        same = z3.is_true(z3.simplify(to_real(x) == to_real(y)))
        restored = i == ti and z3.is_true(z3.simplify(to_real(x) - 1 == to_real(y)))
        if not (same or restored):
            return False
    return True


def _tested_index(call):
    """index (within the LP's rows) of the row whose redundancy the LP tests: the one whose negation is the objective."""
    for i, r in enumerate(call.rows):
        neg = r.scaled_static(-1)
        if neg.same_functional(call.c):
            return i
    return None


def _scaled_static(self, k):
    return LinRow([(z3.simplify(to_real(c) * k), b) for c, b in self.terms], self.dim)


def _same(self, other):
    if len(self.terms) != len(other.terms):
        return False
    return all(z3.eq(z3.simplify(to_real(a[0])), z3.simplify(to_real(b[0]))) and z3.eq(a[1], b[1]) for a, b in zip(self.terms, other.terms))


LinRow.scaled_static = _scaled_static
LinRow.same_functional = _same

for _n, _nh, _tier in [(0, None, "quick"), (1, None, "quick"), (2, None, "quick"), (1, 1, "quick"), (2, 1, "quick"), (3, None, "quick"), (2, 2, "thorough"), (3, 1, "thorough"), (3, 2, "thorough")]:
    contract(
        "PolyhedralTermList.reduce_polytope[%d rows,%s context]" % (_n, "no" if _nh is None else "%d-row" % _nh),
        ["C07", "C14", "C13"],
        [PTL + "reduce_polytope"],
        "H",
        bound="%d rows, %s context rows, any number of columns" % (_n, 0 if _nh is None else _nh),
        assumes=["A4", "A5", "A3"],
        tier=_tier,
        covers=["return"],
    )(_reduce(_n, _nh))


# ------------------------------------------------------------------------------------------------
# outside A4: the solver answers 1, 4 or an untrue 3 (no optimum, no information).  The property quantifies over inputs, not over
# solvers that behave: on such an answer reduce_polytope keeps the row and containment stays unestablished.
# ------------------------------------------------------------------------------------------------
GIVES_UP = "A4 for the answers 0/2/3 that carry their meaning; any LP may instead answer 1, 4 or an untrue 3 with no optimum"
for _nl, _nr in [(1, 1), (2, 1), (1, 2)]:
    contract(
        "PolyhedralTermList.verify_polytope_containment[%dx%d,solver may give up]" % (_nl, _nr),
        ["C03", "C14", "C13"],
        [PTL + "verify_polytope_containment", PTL + "is_polytope_empty"],
        "H",
        bound="%d left rows, %d right rows, any number of columns; every LP may be answered without an optimum" % (_nl, _nr),
        assumes=["A4", "A5", "A3"],
        covers=["True", "False", "solver_gave_up"],
    )(_containment(_nl, _nr, True))
for _n, _nh in [(2, None), (3, None), (2, 1)]:
    contract(
        "PolyhedralTermList.reduce_polytope[%d rows,%s context,solver may give up]" % (_n, "no" if _nh is None else "%d-row" % _nh),
        ["C07", "C14", "C13"],
        [PTL + "reduce_polytope"],
        "H",
        bound="%d rows, %s context rows, any number of columns; every LP may be answered without an optimum" % (_n, 0 if _nh is None else _nh),
        assumes=["A4", "A5", "A3"],
        covers=["return", "solver_gave_up"],
    )(_reduce(_n, _nh, True))
