"""Contracts of the string printer's pair folding (serializer.polyhedral_term_list_to_strings and
_are_polyhedral_terms_opposite): C10, domain S.  Number formatting and string building are opaque (A7/A9);
what is proved is WHICH pair is folded, that exactly that pair is removed, and that the pair is one whose
meaning the emitted pattern (which mentions only the first term's left-hand side and constant) can carry."""
import z3

from contracts.registry import contract
from contracts.slib import S, POLY
from pyvc.core import Obj, PList, to_real

SER = "pacti.terms.polyhedra.serializer"
NAMES = ["x", "y"]
# "Equal up to printing", taken from the property (four significant digits), not from the tolerances in the source: two numbers
# MAY be treated as equal only if they differ by at most 1e-4 of the larger magnitude, and MUST be if they differ by at most 1e-6
# of it.  No absolute slack: an absolute tolerance (the source had 1e-8) makes numbers below it equal to zero and to each
# other, which the four printed digits do not license (coefficients dropped, `|x| = 0` emitted for x <= 6e-9, -x <= 6e-9: a
# string the grammar does not accept).  The source's relative 1e-5 lies between the two.
MAY, MUST = to_real(1e-4), to_real(1e-6)


def _b(r):
    return r if isinstance(r, z3.BoolRef) else z3.BoolVal(bool(r))


def _abs(e):
    return z3.If(e >= 0, e, -e)


def _mx(a, b):
    return z3.If(_abs(a) >= _abs(b), _abs(a), _abs(b))


def approx(a, b):
    """may be treated as equal"""
    return _abs(a - b) <= MAY * _mx(a, b)


def surely(a, b):
    """must be treated as equal"""
    return _abs(a - b) <= MUST * _mx(a, b)


def opposite_spec(s, a, b, rel=approx):
    ca, cb = s.coefs(a), s.coefs(b)
    if set(ca) != set(cb):
        return z3.BoolVal(False)
    return z3.And(*[rel(-ca[n], cb[n]) for n in ca]) if ca else z3.BoolVal(True)


@contract("serializer._are_polyhedral_terms_opposite", ["C10"], [SER + ":_are_polyhedral_terms_opposite", SER + ":_are_numbers_approximatively_equal"], "S", bound="two terms over {x,y}, every support", assumes=["A5"])
def c_opposite(h):
    s = S(h)
    a, b = s.term("a", NAMES), s.term("b", NAMES)
    out = h.call(h.I.get_func(SER + ":_are_polyhedral_terms_opposite"), [a, b])
    h.check("C14.no_exception", out.kind == "return", "raised %s at %s" % (out.exc_name, out.where))
    if out.kind == "return":
        # opposite terms: same set of variables, coefficients negated up to printing
        h.ensure("C10.opposite.only_if_same_variables_and_negated_coefficients", z3.Implies(_b(out.value), opposite_spec(s, a, b)))
        h.ensure("C10.opposite.if_same_variables_and_negated_coefficients", z3.Implies(opposite_spec(s, a, b, surely), _b(out.value)))
    h.frame_ok(out, "C13.frame")


def _fold(n):
    def c(h):
        s = S(h)
        terms = [s.term("t%d" % i, NAMES, allow_empty=False) for i in range(n)]
        pl = PList(list(terms), h.ctx)
        out = h.call(h.I.get_func(SER + ":polyhedral_term_list_to_strings"), [pl])
        h.check("C14.no_exception", out.kind == "return", "raised %s at %s" % (out.exc_name, out.where))
        if out.kind != "return":
            return
        r = out.value
        ok = isinstance(r, tuple) and len(r) == 2 and isinstance(r[1], PList)
        h.check("C10.printer.returns_string_and_rest", ok, "%r" % (r,))
        if not ok:
            return
        rest = r[1].items
        if n == 0:
            h.check("C10.printer.empty_list", rest == [], "rest %r" % (rest,))
            return
        tp = terms[0]
        others = terms[1:]
        if len(rest) == len(others):
            h.cover("single")
            h.check("C10.printer.unfolded_rest_is_tail", all(x is y for x, y in zip(rest, others)), "rest is not the tail of the list")
        else:
            h.cover("folded")
            # exactly one term was removed from the tail, order of the others preserved
            removed = [t for t in others if not any(t is x for x in rest)]
            h.check("C10.printer.exactly_one_partner_removed", len(rest) == len(others) - 1 and len(removed) == 1 and [x for x in others if x is not removed[0]] == rest, "rest does not equal the tail minus one term")
            if len(removed) == 1:
                tn = removed[0]
                cp, cn = s.const(tp), s.const(tn)
                # the emitted pattern mentions only tp: it can stand for the pair only if tn is its opposite and the
                # constants are negated (LHS = c), both zero (|LHS| = 0) or equal (|LHS| <= c)
                h.ensure("C10.printer.folds_only_opposite_pairs", opposite_spec(s, tp, tn))
                h.ensure("C10.printer.folds_only_matching_constants", z3.Or(approx(cp, -cn), z3.And(approx(cp, z3.RealVal(0)), approx(cn, z3.RealVal(0))), approx(cp, cn)))
        h.check("C13.argument_list_unchanged", pl.items == terms, "argument list modified")
        h.frame_ok(out, "C13.frame")

    return c


for _n in (0, 1, 2, 3):
    contract(
        "serializer.polyhedral_term_list_to_strings[%d terms]" % _n,
        ["C10", "C13", "C14"],
        [SER + ":polyhedral_term_list_to_strings", SER + ":_are_polyhedral_terms_opposite", SER + ":_are_numbers_approximatively_equal", SER + ":_lhs_str", SER + ":_number_to_string"],
        "S",
        bound="%d terms over {x,y}, every support" % _n,
        assumes=["A5", "A7"],
        covers=["single"] + (["folded"] if _n >= 2 else []) if _n else [],
        shards=1 if _n < 3 else 16,
        weight=1 if _n < 3 else 8,
        tier="quick" if _n < 3 else "thorough",
    )(_fold(_n))


# ------------------------------------------------------------------------------------------------
# the number formatter: four significant digits OF THE NUMBER ITSELF
# ------------------------------------------------------------------------------------------------
@contract(
    "serializer._number_to_string",
    ["C10", "C14"],
    [SER + ":_number_to_string"],
    "S",
    bound="a float (any real) or an int",
    assumes=["A9-fmt: format(x, '.4g') is the four-significant-digit form of x"],
    covers=["float", "int"],
)
def c_number_to_string(h):
    from pyvc.core import FormattedNumber

    s = S(h)
    h.I.load_module(SER)
    kind = ["float", "int"][h.ctx.choose(2, "kind")]
    x = s.real("n") if kind == "float" else 7
    out = h.call(h.I.get_func(SER + ":_number_to_string"), [x])
    h.check("C14.number_to_string.no_exception", out.kind == "return", "raised %s at %s" % (out.exc_name, out.where))
    if out.kind != "return":
        return
    h.cover(kind)
    r = out.value
    if kind == "int":
        h.check("C10.number_to_string.int_printed_in_full", r == "7", "%r" % (r,))
    else:
        ok = isinstance(r, FormattedNumber)
        h.check("C10.number_to_string.float_is_formatted_with_a_spec", ok, "%r" % (r,))
        if ok:
            h.check("C10.number_to_string.four_significant_digits", r.spec == ".4g", "format spec %r" % (r.spec,))
            # the number formatted is the argument itself: nothing is done to it before (rounding to decimals, scaling, abs)
            h.ensure("C10.number_to_string.formats_the_number_itself", to_real(r.expr) == to_real(x))


# ------------------------------------------------------------------------------------------------
# the list printer's loop and the human-readable dictionaries (what from_strings / the file writer are given)
# ------------------------------------------------------------------------------------------------
PICM = "pacti.contracts.polyhedral_iocontract"


def _printer_stub(h, log):
    """Call-site contract of polyhedral_term_list_to_strings (proved above): one string for the first term, or for the first
    term and ONE later term, which is removed; the rest keeps its order; the argument is not modified."""

    def f(I, args, kwargs):
        lst = args[0]
        items = list(lst.items)
        k = len(log)
        if not items:
            log.append((lst, [], "S%d" % k, []))
            return ("S%d" % k, PList([], h.ctx))
        fold = 0
        if len(items) >= 2:
            fold = h.ctx.choose(len(items), "printer#%d.folds_with" % k)  # 0: no partner, j: the j-th later term
        consumed = [items[0]] + ([items[fold]] if fold else [])
        rest = [t for t in items[1:] if not (fold and t is items[fold])]
        log.append((lst, items, "S%d" % k, consumed))
        return ("S%d" % k, PList(rest, h.ctx))

    return f


def _to_str_list(n):
    def c(h):
        s = S(h)
        terms = [s.term("t%d" % i, NAMES, allow_empty=False) for i in range(n)]
        tl = s.termlist(terms)
        log = []
        h.I.stubs[SER + ":polyhedral_term_list_to_strings"] = _printer_stub(h, log)
        out = h.call(h.method(tl, "to_str_list"), [])
        h.check("C14.to_str_list.no_exception", out.kind == "return", "raised %s at %s" % (out.exc_name, out.where))
        if out.kind != "return":
            return
        h.cover("return")
        r = out.value
        ok = isinstance(r, PList) and all(isinstance(x, str) for x in r.items)
        h.check("C10.to_str_list.returns_list_of_strings", ok, "%r" % (r,))
        if not ok:
            return
        if n and not log:
            # the list is printed by some other route than the pair printer: nothing can be said through that function's contract
            # (a checker error, exit 3 - never a violation)
            from pyvc.core import Unsupported

            raise Unsupported("to_str_list does not print through polyhedral_term_list_to_strings: the contract has to be restated")
        # every constraint is printed exactly once: the printer is first given all the terms in order, then what it left, until
        # nothing is left; the strings come back in that order
        h.check("C10.to_str_list.strings_in_printing_order", r.items == [l[2] for l in log], "%r" % (r.items,))
        h.check("C10.to_str_list.first_call_gets_all_terms_in_order", (not log and n == 0) or (bool(log) and len(log[0][1]) == n and all(x is y for x, y in zip(log[0][1], terms))), "first call on another list")
        consumed = [t for l in log for t in l[3]]
        h.check("C10.to_str_list.every_term_printed_exactly_once", len(consumed) == n and all(sum(1 for c_ in consumed if c_ is t) == 1 for t in terms), "%d terms printed for %d" % (len(consumed), n))
        for i in range(1, len(log)):
            prev_rest = [t for t in log[i - 1][1] if not any(t is c_ for c_ in log[i - 1][3])]
            h.check("C10.to_str_list.call_%d_gets_what_the_previous_left" % i, len(prev_rest) == len(log[i][1]) and all(x is y for x, y in zip(prev_rest, log[i][1])), "printer called on something else than the rest")
        h.check("C10.to_str_list.no_call_on_an_empty_list", all(l[1] for l in log), "printer asked to print nothing (an empty string would be emitted)")
        h.check("C13.to_str_list.terms_unchanged", tl.attrs["terms"].items == terms, "list modified")
        h.frame_ok(out, "C13.frame")

    return c


for _n in (0, 1, 2, 3):
    contract(
        "PolyhedralTermList.to_str_list[%d terms]" % _n,
        ["C10", "C13", "C14"],
        [POLY + ":PolyhedralTermList.to_str_list"],
        "S",
        bound="%d terms; the printer by its call-site contract (every choice of folded partner)" % _n,
        assumes=["contract of polyhedral_term_list_to_strings (proved: C10.printer.* clauses)"],
        covers=["return"],
    )(_to_str_list(_n))


def _dict_of(h, r, keys):
    from pyvc.core import PDict

    if not isinstance(r, PDict):
        return None
    return r if set(r.keys) == {("py", k) for k in keys} else None


@contract("PolyhedralIoContract.to_dict", ["C10", "C13", "C14"], [PICM + ":PolyhedralIoContract.to_dict", "pacti.iocontract.iocontract:Var.__str__", "pacti.iocontract.iocontract:Var.name"], "S", bound="interfaces of 0-2 inputs and 1-2 outputs; the two constraint lists print through to_str_list (its contract)", assumes=["contract of PolyhedralTermList.to_str_list (proved above)"], covers=["return"])
def c_to_dict(h):
    s = S(h)
    cls = h.I.load_module(PICM).ns["PolyhedralIoContract"]
    ins = [[], ["x"], ["x", "y"], ["y", "x"]][h.ctx.choose(4, "ins")]
    outs = [["z"], ["w", "z"], ["z", "w"]][h.ctx.choose(3, "outs")]
    c = Obj(cls, h.ctx)
    c.attrs["inputvars"] = PList([s.var(v) for v in ins], h.ctx)
    c.attrs["outputvars"] = PList([s.var(v) for v in outs], h.ctx)
    c.attrs["a"] = s.termlist([s.term("a0", ["x"], allow_empty=False)])
    c.attrs["g"] = s.termlist([s.term("g0", ["x", "z"], allow_empty=False)])
    made = {}

    def to_str_list(I, args, kwargs):
        me = args[0]
        made.setdefault(id(me), PList(["<%s>" % ("A" if me is c.attrs["a"] else "G" if me is c.attrs["g"] else "?")], h.ctx))
        return made[id(me)]

    h.I.stubs[POLY + ":PolyhedralTermList.to_str_list"] = to_str_list
    out = h.call(h.method(c, "to_dict"), [])
    h.check("C14.to_dict.no_exception", out.kind == "return", "raised %s at %s" % (out.exc_name, out.where))
    if out.kind != "return":
        return
    h.cover("return")
    if not made:
        from pyvc.core import Unsupported

        raise Unsupported("to_dict does not print through PolyhedralTermList.to_str_list: the contract has to be restated")
    d = _dict_of(h, out.value, ["input_vars", "output_vars", "assumptions", "guarantees"])
    h.check("C10.to_dict.has_exactly_the_four_fields", d is not None, "%r" % (out.value,))
    if d is None:
        return
    lst = lambda k: d.vals[("py", k)].items if isinstance(d.vals[("py", k)], PList) else None
    h.check("C10.to_dict.input_names_in_order", lst("input_vars") == ins, "%r" % (lst("input_vars"),))
    h.check("C10.to_dict.output_names_in_order", lst("output_vars") == outs, "%r" % (lst("output_vars"),))
    h.check("C10.to_dict.assumptions_are_the_printed_assumptions", lst("assumptions") == ["<A>"], "%r" % (lst("assumptions"),))
    h.check("C10.to_dict.guarantees_are_the_printed_guarantees", lst("guarantees") == ["<G>"], "%r" % (lst("guarantees"),))
    h.check("C13.to_dict.fresh_interface_lists", d.vals[("py", "input_vars")] is not c.attrs["inputvars"] and d.vals[("py", "output_vars")] is not c.attrs["outputvars"], "the dictionary shares the contract's lists")
    h.frame_ok(out, "C13.frame")


@contract("PolyhedralIoContractCompound.to_dict", ["C10", "C13", "C14"], [PICM + ":PolyhedralIoContractCompound.to_dict", "pacti.iocontract.iocontract:Var.__str__", "pacti.iocontract.iocontract:Var.name"], "S", bound="1-2 assumption alternatives, 1-2 guarantee alternatives; each prints through to_str_list (its contract)", assumes=["contract of PolyhedralTermList.to_str_list (proved above)"], covers=["return"])
def c_compound_to_dict(h):
    s = S(h)
    m = h.I.load_module(PICM)
    cls, nested = m.ns["PolyhedralIoContractCompound"], m.ns["NestedPolyhedra"]
    na, ng = 1 + h.ctx.choose(2, "na"), 1 + h.ctx.choose(2, "ng")
    ins = [["x"], ["y", "x"]][h.ctx.choose(2, "ins")]
    outs = [["z"], ["z", "w"]][h.ctx.choose(2, "outs")]

    def nest(name, n, names):
        o = Obj(nested, h.ctx)
        o.attrs["nested_termlist"] = PList([s.termlist([s.term("%s%d" % (name, i), names, allow_empty=False)]) for i in range(n)], h.ctx)
        return o

    c = Obj(cls, h.ctx)
    c.attrs["inputvars"] = PList([s.var(v) for v in ins], h.ctx)
    c.attrs["outputvars"] = PList([s.var(v) for v in outs], h.ctx)
    c.attrs["a"], c.attrs["g"] = nest("a", na, ["x"]), nest("g", ng, ["x", "z"])
    label = {}
    for i, t in enumerate(c.attrs["a"].attrs["nested_termlist"].items):
        label[id(t)] = "<A%d>" % i
    for i, t in enumerate(c.attrs["g"].attrs["nested_termlist"].items):
        label[id(t)] = "<G%d>" % i
    made = {}

    def to_str_list(I, args, kwargs):
        me = args[0]
        made.setdefault(id(me), PList([label.get(id(me), "?")], h.ctx))
        return made[id(me)]

    h.I.stubs[POLY + ":PolyhedralTermList.to_str_list"] = to_str_list
    out = h.call(h.method(c, "to_dict"), [])
    h.check("C14.compound_to_dict.no_exception", out.kind == "return", "raised %s at %s" % (out.exc_name, out.where))
    if out.kind != "return":
        return
    h.cover("return")
    if not made:
        from pyvc.core import Unsupported

        raise Unsupported("to_dict does not print through PolyhedralTermList.to_str_list: the contract has to be restated")
    d = _dict_of(h, out.value, ["input_vars", "output_vars", "assumptions", "guarantees"])
    h.check("C10.compound_to_dict.has_exactly_the_four_fields", d is not None, "%r" % (out.value,))
    if d is None:
        return
    lst = lambda k: d.vals[("py", k)].items if isinstance(d.vals[("py", k)], PList) else None
    nestl = lambda k: [x.items if isinstance(x, PList) else x for x in (lst(k) or [])]
    h.check("C10.compound_to_dict.input_names_in_order", lst("input_vars") == ins, "%r" % (lst("input_vars"),))
    h.check("C10.compound_to_dict.output_names_in_order", lst("output_vars") == outs, "%r" % (lst("output_vars"),))
    h.check("C10.compound_to_dict.one_printed_list_per_assumption_alternative_in_order", nestl("assumptions") == [["<A%d>" % i] for i in range(na)], "%r" % (nestl("assumptions"),))
    h.check("C10.compound_to_dict.one_printed_list_per_guarantee_alternative_in_order", nestl("guarantees") == [["<G%d>" % i] for i in range(ng)], "%r" % (nestl("guarantees"),))
    h.frame_ok(out, "C13.frame")
