"""Contracts of the string printer's pair folding (serializer.polyhedral_term_list_to_strings and
_are_polyhedral_terms_opposite): C10, domain S.  Number formatting and string building are opaque (A7/A9);
what is proved is WHICH pair is folded, that exactly that pair is removed, and that the pair is one whose
meaning the emitted pattern (which mentions only the first term's left-hand side and constant) can carry."""
import z3

from contracts.registry import contract
from contracts.slib import S, POLY
from pyvc.core import Obj, PList, to_real

SER = "pacti.terms.polyhedra.serializer"
NAMES = ["x", "y"]
RTOL, ATOL = to_real(1e-5), to_real(1e-8)  # the exact rationals denoted by the float tolerances in the source


def _b(r):
    return r if isinstance(r, z3.BoolRef) else z3.BoolVal(bool(r))


def _abs(e):
    return z3.If(e >= 0, e, -e)


def approx(a, b):
    """np.isclose(a, b, rtol=1e-5, atol=1e-8)"""
    return _abs(a - b) <= ATOL + RTOL * _abs(b)


def opposite_spec(s, a, b):
    ca, cb = s.coefs(a), s.coefs(b)
    if set(ca) != set(cb):
        return z3.BoolVal(False)
    return z3.And(*[approx(-ca[n], cb[n]) for n in ca]) if ca else z3.BoolVal(True)


@contract("serializer._are_polyhedral_terms_opposite", ["C10"], [SER + ":_are_polyhedral_terms_opposite", SER + ":_are_numbers_approximatively_equal"], "S", bound="two terms over {x,y}, every support", assumes=["A5"])
def c_opposite(h):
    s = S(h)
    a, b = s.term("a", NAMES), s.term("b", NAMES)
    out = h.call(h.I.get_func(SER + ":_are_polyhedral_terms_opposite"), [a, b])
    h.check("C14.no_exception", out.kind == "return", "raised %s at %s" % (out.exc_name, out.where))
    if out.kind == "return":
        # opposite terms: same set of variables, coefficients approximately negated
        h.ensure("C10.opposite.iff_same_variables_and_negated_coefficients", _b(out.value) == opposite_spec(s, a, b))
    h.frame_ok(out, "C13.frame")


def _fold(n):
    def c(h):
        s = S(h)
        terms = [s.term("t%d" % i, NAMES, allow_empty=False) for i in range(n)]
        pl = PList(list(terms), h.ctx)
        out = h.call(h.I.get_func(SER + ":polyhedral_term_list_to_strings"), [pl])
        h.check("C14.no_exception", out.kind == "return", "raised %s at %s" % (out.exc_name, out.where))
        if out.kind != "return":
            return
        r = out.value
        ok = isinstance(r, tuple) and len(r) == 2 and isinstance(r[1], PList)
        h.check("C10.printer.returns_string_and_rest", ok, "%r" % (r,))
        if not ok:
            return
        rest = r[1].items
        if n == 0:
            h.check("C10.printer.empty_list", rest == [], "rest %r" % (rest,))
            return
        tp = terms[0]
        others = terms[1:]
        if len(rest) == len(others):
            h.cover("single")
            h.check("C10.printer.unfolded_rest_is_tail", all(x is y for x, y in zip(rest, others)), "rest is not the tail of the list")
        else:
            h.cover("folded")
            # exactly one term was removed from the tail, order of the others preserved
            removed = [t for t in others if not any(t is x for x in rest)]
            h.check("C10.printer.exactly_one_partner_removed", len(rest) == len(others) - 1 and len(removed) == 1 and [x for x in others if x is not removed[0]] == rest, "rest does not equal the tail minus one term")
            if len(removed) == 1:
                tn = removed[0]
                cp, cn = s.const(tp), s.const(tn)
                # the emitted pattern mentions only tp: it can stand for the pair only if tn is its opposite and the
                # constants are negated (LHS = c), both zero (|LHS| = 0) or equal (|LHS| <= c)
                h.ensure("C10.printer.folds_only_opposite_pairs", opposite_spec(s, tp, tn))
                h.ensure("C10.printer.folds_only_matching_constants", z3.Or(approx(cp, -cn), z3.And(approx(cp, z3.RealVal(0)), approx(cn, z3.RealVal(0))), approx(cp, cn)))
        h.check("C13.argument_list_unchanged", pl.items == terms, "argument list modified")
        h.frame_ok(out, "C13.frame")

    return c


for _n in (0, 1, 2, 3):
    contract(
        "serializer.polyhedral_term_list_to_strings[%d terms]" % _n,
        ["C10", "C13", "C14"],
        [SER + ":polyhedral_term_list_to_strings", SER + ":_are_polyhedral_terms_opposite", SER + ":_are_numbers_approximatively_equal", SER + ":_lhs_str", SER + ":_number_to_string"],
        "S",
        bound="%d terms over {x,y}, every support" % _n,
        assumes=["A5", "A7"],
        covers=["single"] + (["folded"] if _n >= 2 else []) if _n else [],
        shards=1 if _n < 3 else 16,
        weight=1 if _n < 3 else 8,
        tier="quick" if _n < 3 else "thorough",
    )(_fold(_n))


# ------------------------------------------------------------------------------------------------
# the number formatter: four significant digits OF THE NUMBER ITSELF
# ------------------------------------------------------------------------------------------------
@contract(
    "serializer._number_to_string",
    ["C10", "C14"],
    [SER + ":_number_to_string"],
    "S",
    bound="a float (any real) or an int",
    assumes=["A9-fmt: format(x, '.4g') is the four-significant-digit form of x"],
    covers=["float", "int"],
)
def c_number_to_string(h):
    from pyvc.core import FormattedNumber

    s = S(h)
    h.I.load_module(SER)
    kind = ["float", "int"][h.ctx.choose(2, "kind")]
    x = s.real("n") if kind == "float" else 7
    out = h.call(h.I.get_func(SER + ":_number_to_string"), [x])
    h.check("C14.number_to_string.no_exception", out.kind == "return", "raised %s at %s" % (out.exc_name, out.where))
    if out.kind != "return":
        return
    h.cover(kind)
    r = out.value
    if kind == "int":
        h.check("C10.number_to_string.int_printed_in_full", r == "7", "%r" % (r,))
    else:
        ok = isinstance(r, FormattedNumber)
        h.check("C10.number_to_string.float_is_formatted_with_a_spec", ok, "%r" % (r,))
        if ok:
            h.check("C10.number_to_string.four_significant_digits", r.spec == ".4g", "format spec %r" % (r.spec,))
            # the number formatted is the argument itself: nothing is done to it before (rounding to decimals, scaling, abs)
            h.ensure("C10.number_to_string.formats_the_number_itself", to_real(r.expr) == to_real(x))
