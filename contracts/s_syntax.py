"""Contracts of the syntax-term algebra (pacti.terms.polyhedra.syntax.data) and of the conversion of parsed
expressions into PolyhedralTerms (serializer._expression_to_polyhedral_terms): C09, domain S.

Denotations at a point p:  [[TL]](p) = constant + sum factors[k]*p(k);   [[AT]](p) = (coefficient or 1) * |[[tl]](p)|;
[[ATL]](p) = [[tl]](p) + sum [[at_i]](p).   The pyparsing engine itself (tokenisation, derivation) is assumption A8 and
is covered by the bounded monitor only.
"""
import z3

from contracts.registry import contract
from contracts.slib import S
from pyvc.core import Obj, PDict, PList, to_real

DATA = "pacti.terms.polyhedra.syntax.data"
SER = "pacti.terms.polyhedra.serializer"
NAMES = ["x", "y"]
B = "syntax term lists over the variable names {x,y} (every key set), arbitrary real constants and factors"


class Syn:
    def __init__(self, h):
        self.h = h
        self.s = S(h)
        self.I = h.I
        self.m = self.I.load_module(DATA)
        self.TL = self.m.ns["PolyhedralSyntaxTermList"]
        self.AT = self.m.ns["PolyhedralSyntaxAbsoluteTerm"]
        self.ATL = self.m.ns["PolyhedralSyntaxAbsoluteTermList"]

    def tl(self, name, names=NAMES, nonzero=False):
        d = PDict(self.h.ctx)
        for n in names:
            if self.h.ctx.choose(2, "%s.has_%s" % (name, n)) == 0:
                v = self.s.real("%s_%s" % (name, n))
                if nonzero:
                    self.h.assume(v != 0)
                d.keys[("py", n)] = n
                d.vals[("py", n)] = v
        o = Obj(self.TL, self.h.ctx)
        o.attrs["constant"] = self.s.real(name + "_c")
        o.attrs["factors"] = d
        return o

    def at(self, name, names=NAMES, tl=None):
        o = Obj(self.AT, self.h.ctx)
        o.attrs["term_list"] = tl if tl is not None else self.tl(name + "_tl", names)
        o.attrs["coefficient"] = None if self.h.ctx.choose(2, name + ".coef_none") == 0 else self.s.real(name + "_k")
        return o

    def atl(self, name, n_abs, names=NAMES):
        o = Obj(self.ATL, self.h.ctx)
        o.attrs["term_list"] = self.tl(name + "_tl", names)
        o.attrs["absolute_term_list"] = PList([self.at("%s_a%d" % (name, i), names) for i in range(n_abs)], self.h.ctx)
        return o

    # denotations
    def v_tl(self, t):
        tot = to_real(t.attrs["constant"])
        d = t.attrs["factors"]
        for k in d.keys:
            tot = tot + to_real(d.vals[k]) * self.s.pval(d.keys[k])
        return tot

    def coef(self, a):
        c = a.attrs["coefficient"]
        return z3.RealVal(1) if c is None else to_real(c)

    def v_at(self, a):
        e = self.v_tl(a.attrs["term_list"])
        return self.coef(a) * z3.If(e >= 0, e, -e)

    def v_atl(self, a):
        tot = self.v_tl(a.attrs["term_list"])
        for x in a.attrs["absolute_term_list"].items:
            tot = tot + self.v_at(x)
        return tot

    def is_tl(self, v):
        return isinstance(v, Obj) and v.cls is self.TL and isinstance(v.attrs.get("factors"), PDict)

    def is_at(self, v):
        return isinstance(v, Obj) and v.cls is self.AT and self.is_tl(v.attrs.get("term_list"))

    def is_atl(self, v):
        return isinstance(v, Obj) and v.cls is self.ATL and self.is_tl(v.attrs.get("term_list")) and isinstance(v.attrs.get("absolute_term_list"), PList) and all(self.is_at(x) for x in v.attrs["absolute_term_list"].items)

    def snap_tl(self, t):
        d = t.attrs["factors"]
        return (t.attrs["constant"], d, list(d.keys), dict(d.vals))

    def same_snap(self, t, sn):
        d = t.attrs["factors"]
        return t.attrs["constant"] is sn[0] and d is sn[1] and list(d.keys) == sn[2] and all(d.vals[k] is sn[3][k] for k in d.keys)

    def same_tl(self, a, b):
        """equal constants and equal factor maps"""
        da, db = a.attrs["factors"], b.attrs["factors"]
        if set(da.keys) != set(db.keys):
            return z3.BoolVal(False)
        return z3.And(to_real(a.attrs["constant"]) == to_real(b.attrs["constant"]), *[to_real(da.vals[k]) == to_real(db.vals[k]) for k in da.keys])


def _ret(h, out, clause="no_exception"):
    h.check(clause, out.kind == "return", "raised %s at line %s" % (out.exc_name, out.where))
    return out.kind == "return"


def _b(r):
    return r if isinstance(r, z3.BoolRef) else z3.BoolVal(bool(r))


# ------------------------------------------------------------------------------------------------
@contract("SyntaxTermList.add", ["C09", "C13"], [DATA + ":PolyhedralSyntaxTermList.add"], "S", bound=B, assumes=["A9-repr"])
def c_tl_add(h):
    y = Syn(h)
    a, b = y.tl("a"), y.tl("b")
    sa, sb = y.snap_tl(a), y.snap_tl(b)
    out = h.call(h.method(a, "add"), [b])
    if _ret(h, out):
        r = out.value
        h.check("returns_term_list", y.is_tl(r), "%r" % (r,))
        if y.is_tl(r):
            h.ensure("C09.termlist_add.meaning", y.v_tl(r) == y.v_tl(a) + y.v_tl(b))
            h.check("C13.fresh", r is not a and r is not b and r.attrs["factors"] is not a.attrs["factors"] and r.attrs["factors"] is not b.attrs["factors"], "result shares a dict")
    h.check("C13.operands_unchanged", y.same_snap(a, sa) and y.same_snap(b, sb), "operand modified")
    h.frame_ok(out, "C13.frame")


@contract("SyntaxTermList.negate", ["C09", "C13"], [DATA + ":PolyhedralSyntaxTermList.negate"], "S", bound=B)
def c_tl_negate(h):
    y = Syn(h)
    a = y.tl("a")
    sa = y.snap_tl(a)
    out = h.call(h.method(a, "negate"), [])
    if _ret(h, out) and y.is_tl(out.value):
        h.ensure("C09.termlist_negate.meaning", y.v_tl(out.value) == -y.v_tl(a))
        h.check("C13.fresh", out.value is not a and out.value.attrs["factors"] is not a.attrs["factors"], "shares dict")
    h.check("C13.operands_unchanged", y.same_snap(a, sa), "operand modified")
    h.frame_ok(out, "C13.frame")


@contract("SyntaxTermList.to_polyhedral_term", ["C09"], [DATA + ":PolyhedralSyntaxTermList.to_polyhedral_term"], "S", bound=B)
def c_tl_to_term(h):
    y = Syn(h)
    a = y.tl("a")
    out = h.call(h.method(a, "to_polyhedral_term"), [])
    if _ret(h, out):
        t = out.value
        h.check("returns_polyhedral_term", y.s.is_term(t), "%r" % (t,))
        if y.s.is_term(t):
            # the term  sum coef*v <= constant  holds  iff  [[TL]] <= 0
            h.ensure("C09.to_polyhedral_term.meaning", y.s.e(t) == y.v_tl(a))
    h.frame_ok(out, "C13.frame")


@contract("SyntaxAbsoluteTerm.methods", ["C09", "C13"], [DATA + ":PolyhedralSyntaxAbsoluteTerm.negate", DATA + ":PolyhedralSyntaxAbsoluteTerm.to_term_list", DATA + ":PolyhedralSyntaxAbsoluteTerm.is_positive"], "S", bound=B)
def c_at_methods(h):
    y = Syn(h)
    a = y.at("a")
    which = h.ctx.choose(3, "method")
    if which == 0:
        out = h.call(h.method(a, "negate"), [])
        if _ret(h, out) and y.is_at(out.value):
            h.ensure("C09.absterm_negate.meaning", y.v_at(out.value) == -y.v_at(a))
    elif which == 1:
        out = h.call(h.method(a, "to_term_list"), [])
        if _ret(h, out) and y.is_tl(out.value):
            # the signed reading used by the sign expansion:  coefficient * [[tl]]
            h.ensure("C09.absterm_to_term_list.meaning", y.v_tl(out.value) == y.coef(a) * y.v_tl(a.attrs["term_list"]))
            h.check("C13.fresh", out.value.attrs["factors"] is not a.attrs["term_list"].attrs["factors"], "shares dict")
    else:
        out = h.call(h.method(a, "is_positive"), [])
        if _ret(h, out):
            h.ensure("C09.absterm_is_positive.iff_positive_coefficient", _b(out.value) == (y.coef(a) > 0))
    h.frame_ok(out, "C13.frame")


def _same_term_list(names):
    def c(h):
        y = Syn(h)
        a, b = y.at("a", names), y.at("b", names)
        out = h.call(h.method(a, "same_term_list"), [b])
        if _ret(h, out):
            # two absolute terms may be merged only if their arguments are the same linear expression
            h.ensure("C09.same_term_list.iff_same_argument", _b(out.value) == y.same_tl(a.attrs["term_list"], b.attrs["term_list"]))
        h.frame_ok(out, "C13.frame")

    return c


contract("SyntaxAbsoluteTerm.same_term_list[x]", ["C09"], [DATA + ":PolyhedralSyntaxAbsoluteTerm.same_term_list", DATA + ":PolyhedralSyntaxTermList.__repr__", DATA + ":_factor_repr"], "S", bound="arguments over {x}", assumes=["A9-repr", "A9-fmt"])(
    _same_term_list(["x"])
)
contract("SyntaxAbsoluteTerm.same_term_list[x,y]", ["C09"], [DATA + ":PolyhedralSyntaxAbsoluteTerm.same_term_list", DATA + ":PolyhedralSyntaxTermList.__repr__", DATA + ":_factor_repr"], "S", bound="arguments over {x,y}", assumes=["A9-repr", "A9-fmt"], tier="thorough", shards=16)(
    _same_term_list(["x", "y"])
)


def stub_same_term_list(h, y):
    """call-site contract of same_term_list (proved by SyntaxAbsoluteTerm.same_term_list[*]): no forking on number spellings"""

    def stub(I, args, kwargs):
        a, b = args
        return y.same_tl(a.attrs["term_list"], b.attrs["term_list"])

    h.I.stubs[DATA + ":PolyhedralSyntaxAbsoluteTerm.same_term_list"] = stub


@contract("syntax._combine_optional_floats", ["C09"], [DATA + ":_combine_optional_floats"], "S", bound="both arguments None or arbitrary reals")
def c_combine_floats(h):
    y = Syn(h)
    f1 = None if h.ctx.choose(2, "f1_none") == 0 else y.s.real("f1")
    f2 = None if h.ctx.choose(2, "f2_none") == 0 else y.s.real("f2")
    out = h.call(h.I.get_func(DATA + ":_combine_optional_floats"), [f1, f2])
    if _ret(h, out):
        v1 = z3.RealVal(1) if f1 is None else f1
        v2 = z3.RealVal(1) if f2 is None else f2
        r = out.value
        h.check("C09.combine.returns_number", r is not None, "returned None: an absent coefficient means 1, the sum of two coefficients is never absent")
        if r is not None:
            h.ensure("C09.combine.sum_of_coefficients", to_real(r) == v1 + v2)


def _combine_or_append(n):
    def c(h):
        y = Syn(h)
        stub_same_term_list(h, y)
        lst = [y.at("l%d" % i) for i in range(n)]
        t = y.at("t")
        # class invariant of the callers: the list holds pairwise different arguments
        for i in range(n):
            for j in range(i + 1, n):
                h.assume(z3.Not(y.same_tl(lst[i].attrs["term_list"], lst[j].attrs["term_list"])))
        pl = PList(list(lst), h.ctx)
        out = h.call(h.I.get_func(DATA + ":_combine_or_append"), [pl, t])
        if _ret(h, out):
            r = out.value
            ok = isinstance(r, PList) and all(y.is_at(x) for x in r.items)
            h.check("returns_list_of_absolute_terms", ok, "%r" % (r,))
            if ok:
                tot_in = sum([y.v_at(x) for x in lst], z3.RealVal(0)) + y.v_at(t)
                tot_out = sum([y.v_at(x) for x in r.items], z3.RealVal(0))
                h.ensure("C09.combine_or_append.sum_preserved", tot_out == tot_in)
                items = r.items
                for i in range(len(items)):
                    for j in range(i + 1, len(items)):
                        h.ensure("C09.combine_or_append.arguments_stay_distinct_%d_%d" % (i, j), z3.Not(y.same_tl(items[i].attrs["term_list"], items[j].attrs["term_list"])))
                h.check("C13.fresh_list", r is not pl, "returns the argument list")
        h.check("C13.argument_list_unchanged", pl.items == lst, "argument list modified")
        h.frame_ok(out, "C13.frame")

    return c


for _n in (0, 1, 2):
    contract("syntax._combine_or_append[%d]" % _n, ["C09", "C13"], [DATA + ":_combine_or_append", DATA + ":_combine_optional_floats"], "S", bound=B + "; list of %d absolute terms" % _n, assumes=["contract of same_term_list"], shards=1 if _n < 2 else 8, weight=1 if _n < 2 else 6)(
        _combine_or_append(_n)
    )


def _expand(n_abs, names=NAMES):
    def c(h):
        y = Syn(h)
        a = y.atl("a", n_abs, names)
        out = h.call(h.method(a, "expand"), [])
        if _ret(h, out):
            r = out.value
            ok = isinstance(r, PList) and all(y.is_tl(x) for x in r.items)
            h.check("returns_list_of_term_lists", ok, "%r" % (r,))
            if ok:
                h.check("C09.expand.two_to_the_n_combinations", len(r.items) == 2**n_abs, "%d results" % len(r.items))
                pos = z3.And(*[y.coef(x) > 0 for x in a.attrs["absolute_term_list"].items]) if n_abs else z3.BoolVal(True)
                allr = z3.And(*[y.v_tl(x) <= 0 for x in r.items]) if r.items else z3.BoolVal(True)
                # with positive weights, a sum of absolute values is <= 0 iff every sign choice is
                h.ensure("C09.expand.meaning_when_convex", z3.Implies(pos, allr == (y.v_atl(a) <= 0)))
        h.frame_ok(out, "C13.frame")

    return c


for _n, _names, _tier in ((0, NAMES, "quick"), (1, NAMES, "quick"), (2, ["x"], "quick"), (2, NAMES, "thorough")):
    contract(
        "SyntaxAbsoluteTermList.expand[%d absolute terms over %s]" % (_n, ",".join(_names)),
        ["C09", "C13"],
        [DATA + ":PolyhedralSyntaxAbsoluteTermList.expand", DATA + ":_generate_absolute_term_combinations", DATA + ":PolyhedralSyntaxAbsoluteTerm.to_term_list", DATA + ":PolyhedralSyntaxAbsoluteTerm.negate", DATA + ":PolyhedralSyntaxTermList.add"],
        "S",
        bound="syntax term lists over {%s}; %d absolute terms" % (",".join(_names), _n),
        shards=1 if _n < 2 else 16,
        weight=1 if _n < 2 else 6,
        tier=_tier,
    )(_expand(_n, _names))


def _atl_ops(na, nb):
    def c(h):
        y = Syn(h)
        stub_same_term_list(h, y)
        a, b = y.atl("a", na), y.atl("b", nb)
        # class invariant: within one list the absolute arguments are pairwise different
        for lst in (a, b):
            its = lst.attrs["absolute_term_list"].items
            for i in range(len(its)):
                for j in range(i + 1, len(its)):
                    h.assume(z3.Not(y.same_tl(its[i].attrs["term_list"], its[j].attrs["term_list"])))
        which = h.ctx.choose(2, "op")
        if which == 0:
            out = h.call(h.method(a, "add"), [b])
            if _ret(h, out) and y.is_atl(out.value):
                h.ensure("C09.abslist_add.meaning", y.v_atl(out.value) == y.v_atl(a) + y.v_atl(b))
        else:
            out = h.call(h.method(a, "negate"), [])
            if _ret(h, out) and y.is_atl(out.value):
                h.ensure("C09.abslist_negate.meaning", y.v_atl(out.value) == -y.v_atl(a))
        h.frame_ok(out, "C13.frame")

    return c


for _na, _nb in ((0, 0), (1, 0), (0, 1), (1, 1)):
    contract(
        "SyntaxAbsoluteTermList.add_negate[%d,%d]" % (_na, _nb),
        ["C09", "C13"],
        [DATA + ":PolyhedralSyntaxAbsoluteTermList.add", DATA + ":PolyhedralSyntaxAbsoluteTermList.negate", DATA + ":_combine_or_append"],
        "S",
        bound=B + "; %d and %d absolute terms" % (_na, _nb),
        assumes=["A9-repr", "A9-fmt"],
        shards=1 if _na + _nb < 2 else 8,
        weight=1 if _na + _nb < 2 else 6,
    )(_atl_ops(_na, _nb))


# ------------------------------------------------------------------------------------------------
# expression -> polyhedral terms
# ------------------------------------------------------------------------------------------------
def _expr(kind, nsides, nabs):
    def c(h):
        y = Syn(h)
        stub_same_term_list(h, y)
        ser = h.I.load_module(SER)
        m = y.m
        if kind == "eql":
            lhs, rhs = y.tl("l"), y.tl("r")
            e = h.I.instantiate(m.ns["PolyhedralSyntaxEqlExpression"], [], {"lhs": lhs, "rhs": rhs})
            written = y.v_tl(lhs) == y.v_tl(rhs)
            convex = z3.BoolVal(True)
        else:
            sides = [y.atl("s%d" % i, nabs if i == 0 else 0, names=["x"]) for i in range(nsides)]
            op = m.ns["PolyhedralSyntaxOperator"].ns["leq" if kind == "leq" else "geq"]
            e = h.I.instantiate(m.ns["PolyhedralSyntaxIneqExpression"], [], {"operator": op, "sides": PList(sides, h.ctx)})
            vs = [y.v_atl(s_) for s_ in sides]
            rel = [(a <= b) if kind == "leq" else (a >= b) for a, b in zip(vs, vs[1:])]
            written = z3.And(*rel)
            # convexity: on 'a - b <= 0' (resp. 'b - a <= 0') every absolute value must carry a positive weight
            sign = 1 if kind == "leq" else -1
            convex = z3.And(*[sign * y.coef(x) > 0 for x in sides[0].attrs["absolute_term_list"].items]) if nabs else z3.BoolVal(True)
        out = h.call(ser.ns["_expression_to_polyhedral_terms"], ["<string>", e])
        if out.kind == "raise":
            cx = h.I.load_module("pacti.utils.errors").ns["PolyhedralSyntaxConvexException"]
            ok = out.exc_is(h.I, cx)
            h.check("C14.expression.only_convexity_error", ok, "raised %s at %s" % (out.exc_name, out.where))
            if ok:
                h.cover("convexity_error")
                h.ensure("C09.expression.rejects_only_non_convex", z3.Not(convex))
        else:
            h.cover("translated")
            r = out.value
            ok = isinstance(r, PList) and all(y.s.is_term(t) for t in r.items)
            h.check("returns_list_of_terms", ok, "%r" % (r,))
            if ok:
                h.ensure("C09.expression.non_convex_rejected", convex)
                parsed = z3.And(*[y.s.holds(t) for t in r.items]) if r.items else z3.BoolVal(True)
                h.ensure("C09.expression.meaning", z3.Implies(convex, parsed == written))
        h.frame_ok(out, "C13.frame")

    return c


for _kind, _ns, _na in (("eql", 2, 0), ("leq", 2, 0), ("geq", 2, 0), ("leq", 2, 1), ("geq", 2, 1), ("leq", 3, 0), ("geq", 3, 1)):
    contract(
        "serializer._expression_to_polyhedral_terms[%s,%d sides,%d abs]" % (_kind, _ns, _na),
        ["C09", "C14", "C13"],
        [SER + ":_expression_to_polyhedral_terms", SER + ":_leq_expression_to_polyhedral_terms", SER + ":_geq_expression_to_polyhedral_terms", SER + ":_eql_expression_to_polyhedral_terms", SER + ":_check_absolute_terms", DATA + ":PolyhedralSyntaxAbsoluteTermList.expand"],
        "S",
        bound="sides over {x} (eql: {x,y}); %d sides; %d absolute terms on the first side" % (_ns, _na),
        assumes=["A9-repr", "A9-fmt"],
        covers=["translated"],
        shards=4 if _ns * (_na + 1) > 2 else 1,
        weight=3 if _ns * (_na + 1) > 2 else 1,
    )(_expr(_kind, _ns, _na))


# ------------------------------------------------------------------------------------------------
# the entry point of the parser: pyparsing by its assumed contract A8, the translation by its own contract above
# ------------------------------------------------------------------------------------------------
@contract(
    "serializer.polyhedral_termlist_from_string",
    ["C09", "C14", "C13"],
    [SER + ":polyhedral_termlist_from_string"],
    "S",
    bound="every shape of the parser's answer: a parse error, one expression, one token of another kind, two tokens, none",
    assumes=["A8: expression.parse_string(text, parse_all=True) raises a ParseBaseException or returns the tokens", "contract of _expression_to_polyhedral_terms (above)"],
    covers=["syntax_error", "translated", "ValueError"],
)
def c_termlist_from_string(h):
    from pyvc.core import ClassV, NativeFn, PyRaise
    from pyvc.ext import PRes, default_ext

    mod = h.I.load_module(SER)
    data = h.I.load_module(DATA)
    pbe = default_ext()["pyparsing"].attrs["ParseBaseException"]
    parse_exc_cls = ClassV("ParseException", [pbe], mod)
    expr_cls = data.ns["PolyhedralSyntaxIneqExpression"]
    shape = ["error", "expression", "other", "two", "none"][h.ctx.choose(5, "parser_answer")]
    rec = {}
    e_obj = Obj(expr_cls, h.ctx)
    pe = Obj(parse_exc_cls, h.ctx)
    result = PList([], h.ctx)

    def parse_string(I, args, kwargs):
        rec["text"], rec["parse_all"] = args[0], kwargs.get("parse_all", args[1] if len(args) > 1 else False)
        if shape == "error":
            raise PyRaise(pe)
        toks = {"expression": [e_obj], "other": [3.0], "two": [e_obj, Obj(expr_cls, h.ctx)], "none": []}[shape]
        return PRes(list(toks), h.ctx)

    class Expression:
        def ext_getattr(self, I, name):
            if name in ("parse_string", "parseString"):
                return NativeFn("expression.parse_string", parse_string)
            raise Unsupported("expression.%s" % name)

    def translate(I, args, kwargs):
        rec["translate"] = args
        return result

    h.I.overrides[(SER, "expression")] = Expression()
    h.I.stubs[SER + ":_expression_to_polyhedral_terms"] = translate
    out = h.call(h.I.get_func(SER + ":polyhedral_termlist_from_string"), ["TEXT"])
    h.check("C09.from_string.whole_string_is_parsed", rec.get("text") == "TEXT" and rec.get("parse_all") is True, "parse_string(%r, parse_all=%r)" % (rec.get("text"), rec.get("parse_all")))
    if shape == "error":
        h.cover("syntax_error")
        ok = out.kind == "raise" and isinstance(out.exc, Obj) and out.exc.cls is h.I.load_module("pacti.utils.errors").ns["PolyhedralSyntaxException"]
        h.check("C14.from_string.parse_error_becomes_syntax_exception", ok, "outcome %s %s" % (out.kind, out.exc_name))
    elif shape == "expression":
        h.cover("translated")
        h.check("C09.from_string.expression_is_translated", out.kind == "return" and out.value is result, "outcome %s %r" % (out.kind, out.value if out.kind == "return" else out.exc_name))
        a = rec.get("translate")
        h.check("C09.from_string.translation_of_the_parsed_expression", a is not None and a[0] == "TEXT" and a[1] is e_obj, "translated %r" % (a,))
    else:
        h.cover("ValueError")
        h.check("C14.from_string.other_token_shapes_rejected_with_valueerror", out.kind == "raise" and out.exc_is(h.I, ValueError), "outcome %s %s" % (out.kind, out.exc_name if out.kind == "raise" else out.value))
        h.check("C09.from_string.nothing_translated", "translate" not in rec, "translated %r" % (rec.get("translate"),))
    h.frame_ok(out, "C13.frame")
