"""Contracts of the compound (disjunctive) layer pacti.iocontract.compundiocontract over abstract term lists (domain U):
C17.  Alternatives per side: 1-2 (concrete), everything else unbounded."""
import z3

from contracts.registry import contract
from contracts.ulib import U
from pyvc.absdom import _b
from pyvc.core import Obj, PList

CMP = "pacti.iocontract.compundiocontract"
NB = "1-2 alternatives per nested list; alternatives are abstract constraint lists (no bound on terms or variables)"


class UC(U):
    def __init__(self, h):
        super().__init__(h)
        m = self.I.load_module(CMP)
        self.Nested = m.ns["NestedTermList"]
        self.Compound = m.ns["IoContractCompound"]

    def alts(self, name, n):
        return [self.termlist("%s%d" % (name, i)) for i in range(n)]

    def nested(self, name, n):
        o = Obj(self.Nested, self.ctx)
        o.attrs["nested_termlist"] = PList(self.alts(name, n), self.ctx)
        return o

    def union_sat(self, tls):
        return z3.Or(*[self.sat(t) for t in tls]) if tls else z3.BoolVal(False)

    def is_nested(self, v):
        return isinstance(v, Obj) and v.cls.is_subclass_of(self.Nested) and isinstance(v.attrs.get("nested_termlist"), PList)

    def calls_of(self, op):
        return [c for c in self.calls if c["op"] == op]


def _n(h, label, lo=1, hi=2):
    return lo + h.ctx.choose(hi - lo + 1, label)


@contract("NestedTermList.__init__", ["C17", "C13", "C14"], [CMP + ":NestedTermList.__init__"], "U", bound="1-3 alternatives; alternatives are abstract constraint lists (no bound on terms or variables)", assumes=["P-empty(exact)"], covers=["return", "ValueError"])
def c_nested_init(h):
    u = UC(h)
    n = _n(h, "n", 1, 3)
    force = h.ctx.choose(2, "force") == 0
    alts = u.alts("A", n)
    pl = PList(list(alts), h.ctx)
    out = h.call(u.Nested, [pl, force])
    tests = u.calls_of("is_empty")
    if out.kind == "raise":
        ok = out.exc_is(h.I, ValueError)
        h.check("C14.nested_init.only_valueerror", ok, "raised %s at %s" % (out.exc_name, out.where))
        h.cover("ValueError")
        h.check("C17.nested_init.rejects_only_when_forced", force, "raised without force_empty_intersection")
        # rejected only if some pair was found to share a behaviour (its emptiness test answered False)
        h.ensure("C17.nested_init.rejects_only_overlapping", z3.Or(*[z3.Not(t["result"]) for t in tests]) if tests else False)
    else:
        h.cover("return")
        r = out.value
        h.check("returns_nested_list", u.is_nested(r), "%r" % (r,))
        if force:
            # every pair i<j was tested on the conjunction of the two alternatives and found empty
            h.check("C17.nested_init.every_pair_tested", len(tests) == n * (n - 1) // 2, "%d emptiness tests for %d alternatives" % (len(tests), n))
            h.ensure("C17.nested_init.accepted_only_if_all_pairs_empty", z3.And(*[t["result"] for t in tests]) if tests else True)
            k = 0
            for i in range(n):
                for j in range(i + 1, n):
                    if k < len(tests):
                        h.ensure("C17.nested_init.test_%d_%d_is_on_the_conjunction" % (i, j), u.sat(tests[k]["self"]) == z3.And(u.sat(alts[i]), u.sat(alts[j])))
                    k += 1
        if u.is_nested(r):
            got = r.attrs["nested_termlist"].items
            h.check("C17.nested_init.keeps_all_alternatives", len(got) == n, "%d alternatives stored" % len(got))
            for i, (a, g) in enumerate(zip(alts, got)):
                h.ensure("C17.nested_init.alternative_%d_same_terms" % i, u.forall_t(lambda t, a=a, g=g: _b(u.mem(u.terms_of(a))(t)) == _b(u.mem(u.terms_of(g))(t))))
                h.check("C13.nested_init.alternative_%d_is_a_copy" % i, g is not a and u.terms_of(g) is not u.terms_of(a), "stores the caller's list object")
            h.check("C13.nested_init.fresh_list", r.attrs["nested_termlist"] is not pl, "stores the caller's outer list")
    h.check("C13.argument_unchanged", pl.items == alts, "argument list modified")
    h.frame_ok(out, "C13.frame")


@contract("NestedTermList.contains_behavior", ["C17", "C14"], [CMP + ":NestedTermList.contains_behavior"], "U", bound=NB, assumes=["P-contains"], covers=["return"])
def c_nested_contains(h):
    u = UC(h)
    n = _n(h, "n", 0, 2)
    N = u.nested("A", n)
    alts = list(N.attrs["nested_termlist"].items)
    from pyvc.absdom import Opaque

    out = h.call(h.method(N, "contains_behavior"), [Opaque("behavior")])
    if out.kind == "raise":
        h.check("C14.nested_contains.only_valueerror", out.exc_is(h.I, ValueError), "raised %s" % out.exc_name)
        h.check("C17.nested_contains.valueerror_only_from_an_alternative", any(c.get("outcome") == "ValueError" for c in u.calls_of("contains_behavior")), "ValueError not caused by an alternative")
        h.cover("ValueError")
    else:
        h.cover("return")
        r = out.value
        rr = r if isinstance(r, z3.BoolRef) else z3.BoolVal(bool(r))
        h.ensure("C17.nested_contains.iff_some_alternative_contains", rr == u.union_sat(alts))
    h.frame_ok(out, "C13.frame")


@contract("NestedTermList.__le__", ["C17", "C14"], [CMP + ":NestedTermList.__le__", "pacti.iocontract.iocontract:TermList.__le__"], "U", bound=NB, assumes=["P-refines"])
def c_nested_le(h):
    u = UC(h)
    A, Bn = u.nested("A", _n(h, "na", 0, 2)), u.nested("B", _n(h, "nb", 0, 2))
    out = h.call(h.method(A, "__le__"), [Bn])
    h.check("C14.nested_le.no_exception", out.kind == "return", "raised %s" % out.exc_name)
    if out.kind == "return":
        r = out.value
        rr = r if isinstance(r, z3.BoolRef) else z3.BoolVal(bool(r))
        h.ensure("C17.nested_le.true_only_if_union_contained", z3.Implies(rr, z3.Implies(u.union_sat(A.attrs["nested_termlist"].items), u.union_sat(Bn.attrs["nested_termlist"].items))))
    h.frame_ok(out, "C13.frame")


@contract("NestedTermList.intersect", ["C17", "C13", "C14"], [CMP + ":NestedTermList.intersect", CMP + ":NestedTermList.__init__", "pacti.iocontract.iocontract:TermList.__or__"], "U", bound=NB, assumes=["P-empty(exact)"], covers=["return"])
def c_nested_intersect(h):
    u = UC(h)
    A, Bn = u.nested("A", _n(h, "na")), u.nested("B", _n(h, "nb"))
    force = h.ctx.choose(2, "force") == 0
    a_items, b_items = list(A.attrs["nested_termlist"].items), list(Bn.attrs["nested_termlist"].items)
    out = h.call(h.method(A, "intersect"), [Bn, force])
    if out.kind == "raise":
        h.check("C14.nested_intersect.only_valueerror", out.exc_is(h.I, ValueError), "raised %s" % out.exc_name)
        h.check("C17.nested_intersect.valueerror_only_when_forced", force, "raised without force_empty_intersection")
        h.cover("ValueError")
    else:
        h.cover("return")
        r = out.value
        h.check("returns_nested_list", u.is_nested(r), "%r" % (r,))
        if u.is_nested(r):
            got = r.attrs["nested_termlist"].items
            # P-empty (sound direction at the skolem behaviour): a dropped alternative holds nowhere
            h.ensure("C17.nested_intersect.union_is_intersection_of_unions", u.union_sat(got) == z3.And(u.union_sat(a_items), u.union_sat(b_items)))
            # no alternative reported empty is kept: each kept one is a pairwise conjunction whose emptiness test answered False
            tests = [t for t in u.calls_of("is_empty")][: len(a_items) * len(b_items)]
            kept = [t for t in tests if True]
            h.check("C17.nested_intersect.every_pair_tested", len(tests) == len(a_items) * len(b_items), "%d tests" % len(tests))
            h.ensure("C17.nested_intersect.number_kept_matches_tests", z3.Sum([z3.If(t["result"], 0, 1) for t in tests]) == len(got) if tests else len(got) == 0)
    h.check("C13.operands_unchanged", A.attrs["nested_termlist"].items == a_items and Bn.attrs["nested_termlist"].items == b_items, "operand modified")
    h.frame_ok(out, "C13.frame")


@contract("IoContractCompound.merge", ["C17", "C13", "C14"], [CMP + ":IoContractCompound.merge", CMP + ":IoContractCompound.__init__", CMP + ":NestedTermList.intersect", CMP + ":NestedTermList.copy", CMP + ":NestedTermList.vars"], "U", bound="1 alternative per side for assumptions, 1-2 for guarantees", assumes=["P-empty(exact)"], covers=["return"], shards=4, weight=3)
def c_compound_merge(h):
    u = UC(h)

    def compound(name, ng):
        c = Obj(u.Compound, h.ctx)
        c.attrs["a"] = u.nested(name + "_a", 1)
        c.attrs["g"] = u.nested(name + "_g", ng)
        c.attrs["inputvars"] = u.varlist(name + "_in")
        c.attrs["outputvars"] = u.varlist(name + "_out")
        return c

    c1, c2 = compound("c1", _n(h, "g1")), compound("c2", _n(h, "g2"))
    I1, O1, I2, O2 = (u.mem(c1.attrs["inputvars"]), u.mem(c1.attrs["outputvars"]), u.mem(c2.attrs["inputvars"]), u.mem(c2.attrs["outputvars"]))
    out = h.call(h.method(c1, "merge"), [c2])
    if out.kind == "raise":
        h.check("C14.compound_merge.only_valueerror", out.exc_is(h.I, ValueError), "raised %s at %s" % (out.exc_name, out.where))
        h.cover("ValueError")
    else:
        h.cover("return")
        r = out.value
        ok = isinstance(r, Obj) and r.cls is u.Compound and u.is_nested(r.attrs.get("a")) and u.is_nested(r.attrs.get("g"))
        h.check("returns_compound_contract", ok, "%r" % (r,))
        if ok:
            un = lambda f, g: (lambda v: z3.Or(_b(f(v)), _b(g(v))))
            h.ensure("C17.compound_merge.inputs_union", u.seteq(u.mem(r.attrs["inputvars"]), un(I1, I2)))
            h.ensure("C17.compound_merge.outputs_union", u.seteq(u.mem(r.attrs["outputvars"]), un(O1, O2)))
            ga = lambda c: c.attrs["a"].attrs["nested_termlist"].items
            gg = lambda c: c.attrs["g"].attrs["nested_termlist"].items
            h.ensure("C17.compound_merge.assumptions_are_intersection", u.union_sat(ga(r)) == z3.And(u.union_sat(ga(c1)), u.union_sat(ga(c2))))
            h.ensure("C17.compound_merge.guarantees_are_intersection", u.union_sat(gg(r)) == z3.And(u.union_sat(gg(c1)), u.union_sat(gg(c2))))
    h.frame_ok(out, "C13.frame")
