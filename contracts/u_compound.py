"""Contracts of the compound (disjunctive) layer pacti.iocontract.compundiocontract over abstract term lists (domain U):
C17.  Alternatives per side: 1-2 (concrete), everything else unbounded."""
import z3

from contracts.registry import contract
from contracts.ulib import U
from pyvc.absdom import _b
from pyvc.core import Obj, PList

CMP = "pacti.iocontract.compundiocontract"
NB = "1-2 alternatives per nested list; alternatives are abstract constraint lists (no bound on terms or variables)"


class UC(U):
    def __init__(self, h):
        super().__init__(h)
        m = self.I.load_module(CMP)
        self.Nested = m.ns["NestedTermList"]
        self.Compound = m.ns["IoContractCompound"]

    def alts(self, name, n):
        return [self.termlist("%s%d" % (name, i)) for i in range(n)]

    def nested(self, name, n):
        o = Obj(self.Nested, self.ctx)
        o.attrs["nested_termlist"] = PList(self.alts(name, n), self.ctx)
        return o

    def union_sat(self, tls):
        return z3.Or(*[self.sat(t) for t in tls]) if tls else z3.BoolVal(False)

    def is_nested(self, v):
        return isinstance(v, Obj) and v.cls.is_subclass_of(self.Nested) and isinstance(v.attrs.get("nested_termlist"), PList)

    def calls_of(self, op):
        return [c for c in self.calls if c["op"] == op]


def _n(h, label, lo=1, hi=2):
    return lo + h.ctx.choose(hi - lo + 1, label)


@contract("NestedTermList.__init__", ["C17", "C13", "C14"], [CMP + ":NestedTermList.__init__"], "U", bound="1-3 alternatives; alternatives are abstract constraint lists (no bound on terms or variables)", assumes=["P-empty(exact)"], covers=["return", "ValueError"])
def c_nested_init(h):
    u = UC(h)
    n = _n(h, "n", 1, 3)
    force = h.ctx.choose(2, "force") == 0
    alts = u.alts("A", n)
    pl = PList(list(alts), h.ctx)
    out = h.call(u.Nested, [pl, force])
    tests = u.calls_of("is_empty")
    if out.kind == "raise":
        ok = out.exc_is(h.I, ValueError)
        h.check("C14.nested_init.only_valueerror", ok, "raised %s at %s" % (out.exc_name, out.where))
        h.cover("ValueError")
        h.check("C17.nested_init.rejects_only_when_forced", force, "raised without force_empty_intersection")
        # rejected only if some pair was found to share a behaviour (its emptiness test answered False)
        h.ensure("C17.nested_init.rejects_only_overlapping", z3.Or(*[z3.Not(t["result"]) for t in tests]) if tests else False)
    else:
        h.cover("return")
        r = out.value
        h.check("returns_nested_list", u.is_nested(r), "%r" % (r,))
        if force:
            # every pair i<j was tested on the conjunction of the two alternatives and found empty
            h.check("C17.nested_init.every_pair_tested", len(tests) == n * (n - 1) // 2, "%d emptiness tests for %d alternatives" % (len(tests), n))
            h.ensure("C17.nested_init.accepted_only_if_all_pairs_empty", z3.And(*[t["result"] for t in tests]) if tests else True)
            k = 0
            for i in range(n):
                for j in range(i + 1, n):
                    if k < len(tests):
                        h.ensure("C17.nested_init.test_%d_%d_is_on_the_conjunction" % (i, j), u.sat(tests[k]["self"]) == z3.And(u.sat(alts[i]), u.sat(alts[j])))
                    k += 1
        if u.is_nested(r):
            got = r.attrs["nested_termlist"].items
            h.check("C17.nested_init.keeps_all_alternatives", len(got) == n, "%d alternatives stored" % len(got))
            for i, (a, g) in enumerate(zip(alts, got)):
                h.ensure("C17.nested_init.alternative_%d_same_terms" % i, u.forall_t(lambda t, a=a, g=g: _b(u.mem(u.terms_of(a))(t)) == _b(u.mem(u.terms_of(g))(t))))
                h.check("C13.nested_init.alternative_%d_is_a_copy" % i, g is not a and u.terms_of(g) is not u.terms_of(a), "stores the caller's list object")
            h.check("C13.nested_init.fresh_list", r.attrs["nested_termlist"] is not pl, "stores the caller's outer list")
    h.check("C13.argument_unchanged", pl.items == alts, "argument list modified")
    h.frame_ok(out, "C13.frame")


@contract("NestedTermList.contains_behavior", ["C17", "C14"], [CMP + ":NestedTermList.contains_behavior"], "U", bound=NB, assumes=["P-contains"], covers=["return"])
def c_nested_contains(h):
    u = UC(h)
    n = _n(h, "n", 0, 2)
    N = u.nested("A", n)
    alts = list(N.attrs["nested_termlist"].items)
    from pyvc.absdom import Opaque

    out = h.call(h.method(N, "contains_behavior"), [Opaque("behavior")])
    if out.kind == "raise":
        h.check("C14.nested_contains.only_valueerror", out.exc_is(h.I, ValueError), "raised %s" % out.exc_name)
        h.check("C17.nested_contains.valueerror_only_from_an_alternative", any(c.get("outcome") == "ValueError" for c in u.calls_of("contains_behavior")), "ValueError not caused by an alternative")
        h.cover("ValueError")
    else:
        h.cover("return")
        r = out.value
        rr = r if isinstance(r, z3.BoolRef) else z3.BoolVal(bool(r))
        h.ensure("C17.nested_contains.iff_some_alternative_contains", rr == u.union_sat(alts))
    h.frame_ok(out, "C13.frame")


@contract("NestedTermList.__le__", ["C17", "C14"], [CMP + ":NestedTermList.__le__", "pacti.iocontract.iocontract:TermList.__le__"], "U", bound=NB, assumes=["P-refines"])
def c_nested_le(h):
    u = UC(h)
    A, Bn = u.nested("A", _n(h, "na", 0, 2)), u.nested("B", _n(h, "nb", 0, 2))
    out = h.call(h.method(A, "__le__"), [Bn])
    h.check("C14.nested_le.no_exception", out.kind == "return", "raised %s" % out.exc_name)
    if out.kind == "return":
        r = out.value
        rr = r if isinstance(r, z3.BoolRef) else z3.BoolVal(bool(r))
        h.ensure("C17.nested_le.true_only_if_union_contained", z3.Implies(rr, z3.Implies(u.union_sat(A.attrs["nested_termlist"].items), u.union_sat(Bn.attrs["nested_termlist"].items))))
    h.frame_ok(out, "C13.frame")


@contract("NestedTermList.intersect", ["C17", "C13", "C14"], [CMP + ":NestedTermList.intersect", CMP + ":NestedTermList.__init__", "pacti.iocontract.iocontract:TermList.__or__"], "U", bound=NB, assumes=["P-empty(exact)"], covers=["return"])
def c_nested_intersect(h):
    u = UC(h)
    A, Bn = u.nested("A", _n(h, "na")), u.nested("B", _n(h, "nb"))
    force = h.ctx.choose(2, "force") == 0
    a_items, b_items = list(A.attrs["nested_termlist"].items), list(Bn.attrs["nested_termlist"].items)
    out = h.call(h.method(A, "intersect"), [Bn, force])
    if out.kind == "raise":
        h.check("C14.nested_intersect.only_valueerror", out.exc_is(h.I, ValueError), "raised %s" % out.exc_name)
        h.check("C17.nested_intersect.valueerror_only_when_forced", force, "raised without force_empty_intersection")
        h.cover("ValueError")
    else:
        h.cover("return")
        r = out.value
        h.check("returns_nested_list", u.is_nested(r), "%r" % (r,))
        if u.is_nested(r):
            got = r.attrs["nested_termlist"].items
            # P-empty (sound direction at the skolem behaviour): a dropped alternative holds nowhere
            h.ensure("C17.nested_intersect.union_is_intersection_of_unions", u.union_sat(got) == z3.And(u.union_sat(a_items), u.union_sat(b_items)))
            # no alternative reported empty is kept: each kept one is a pairwise conjunction whose emptiness test answered False
            tests = [t for t in u.calls_of("is_empty")][: len(a_items) * len(b_items)]
            kept = [t for t in tests if True]
            h.check("C17.nested_intersect.every_pair_tested", len(tests) == len(a_items) * len(b_items), "%d tests" % len(tests))
            h.ensure("C17.nested_intersect.number_kept_matches_tests", z3.Sum([z3.If(t["result"], 0, 1) for t in tests]) == len(got) if tests else len(got) == 0)
    h.check("C13.operands_unchanged", A.attrs["nested_termlist"].items == a_items and Bn.attrs["nested_termlist"].items == b_items, "operand modified")
    h.frame_ok(out, "C13.frame")


@contract("IoContractCompound.merge", ["C17", "C13", "C14"], [CMP + ":IoContractCompound.merge", CMP + ":IoContractCompound.__init__", CMP + ":NestedTermList.intersect", CMP + ":NestedTermList.copy", CMP + ":NestedTermList.vars"], "U", bound="1 alternative per side for assumptions, 1-2 for guarantees", assumes=["P-empty(exact)"], covers=["return"], shards=4, weight=3)
def c_compound_merge(h):
    u = UC(h)

    def compound(name, ng):
        c = Obj(u.Compound, h.ctx)
        c.attrs["a"] = u.nested(name + "_a", 1)
        c.attrs["g"] = u.nested(name + "_g", ng)
        c.attrs["inputvars"] = u.varlist(name + "_in")
        c.attrs["outputvars"] = u.varlist(name + "_out")
        return c

    c1, c2 = compound("c1", _n(h, "g1")), compound("c2", _n(h, "g2"))
    I1, O1, I2, O2 = (u.mem(c1.attrs["inputvars"]), u.mem(c1.attrs["outputvars"]), u.mem(c2.attrs["inputvars"]), u.mem(c2.attrs["outputvars"]))
    out = h.call(h.method(c1, "merge"), [c2])
    if out.kind == "raise":
        h.check("C14.compound_merge.only_valueerror", out.exc_is(h.I, ValueError), "raised %s at %s" % (out.exc_name, out.where))
        h.cover("ValueError")
    else:
        h.cover("return")
        r = out.value
        ok = isinstance(r, Obj) and r.cls is u.Compound and u.is_nested(r.attrs.get("a")) and u.is_nested(r.attrs.get("g"))
        h.check("returns_compound_contract", ok, "%r" % (r,))
        if ok:
            un = lambda f, g: (lambda v: z3.Or(_b(f(v)), _b(g(v))))
            h.ensure("C17.compound_merge.inputs_union", u.seteq(u.mem(r.attrs["inputvars"]), un(I1, I2)))
            h.ensure("C17.compound_merge.outputs_union", u.seteq(u.mem(r.attrs["outputvars"]), un(O1, O2)))
            ga = lambda c: c.attrs["a"].attrs["nested_termlist"].items
            gg = lambda c: c.attrs["g"].attrs["nested_termlist"].items
            h.ensure("C17.compound_merge.assumptions_are_intersection", u.union_sat(ga(r)) == z3.And(u.union_sat(ga(c1)), u.union_sat(ga(c2))))
            h.ensure("C17.compound_merge.guarantees_are_intersection", u.union_sat(gg(r)) == z3.And(u.union_sat(gg(c1)), u.union_sat(gg(c2))))
    h.frame_ok(out, "C13.frame")


# ------------------------------------------------------------------------------------------------
# equality of nested lists and of compound contracts (C19: compundiocontract.py is one of its anchors)
# ------------------------------------------------------------------------------------------------
def _memoise_refines(u):
    """P-refines.function: the same refinement question gets the same answer (needed to speak about symmetry)."""
    from pyvc.core import NativeFn

    orig = u.AbsTL.ns["refines"].fn if hasattr(u.AbsTL.ns["refines"], "fn") else None
    memo = {}

    def refines(I, a, k):
        key = (id(a[0]), id(a[1] if len(a) > 1 else k.get("other")))
        if key not in memo:
            memo[key] = orig(I, a, k)
        else:
            u.calls.append({"op": "refines", "self": a[0], "other": a[1] if len(a) > 1 else k.get("other"), "result": memo[key], "repeated": True})
        return memo[key]

    if orig is not None:
        u.AbsTL.ns["refines"] = NativeFn("refines", refines)
    return orig is not None


@contract("NestedTermList.__eq__", ["C19", "C14", "C13"], [CMP + ":NestedTermList.__eq__", CMP + ":NestedTermList.__le__", "pacti.iocontract.iocontract:TermList.__le__"], "U", bound="0-2 alternatives per side; alternatives are abstract constraint lists", assumes=["P-refines", "P-refines.function: the same refinement question gets the same answer"], covers=["return"])
def c_nested_eq(h):
    u = UC(h)
    h.check("engine.refines_memoised", _memoise_refines(u), "cannot wrap the refines primitive")
    A, Bn = u.nested("A", _n(h, "na", 0, 2)), u.nested("B", _n(h, "nb", 0, 2))
    a_items, b_items = list(A.attrs["nested_termlist"].items), list(Bn.attrs["nested_termlist"].items)
    out = h.call(h.method(A, "__eq__"), [Bn])
    h.check("C14.nested_eq.no_exception", out.kind == "return", "raised %s at %s" % (out.exc_name, out.where))
    if out.kind != "return":
        return
    h.cover("return")
    rr = out.value if isinstance(out.value, z3.BoolRef) else z3.BoolVal(bool(out.value))
    # True only for the same union of behaviours (at the skolem behaviour): both containments were established
    h.ensure("C19.nested_eq.true_only_if_same_union", z3.Implies(rr, u.union_sat(a_items) == u.union_sat(b_items)))
    # ... and a True answer rests on both directions: every alternative of either side was found inside one of the other
    firsts = [c for c in u.calls_of("refines") if not c.get("repeated")]
    for side, mine, theirs in (("left", a_items, b_items), ("right", b_items, a_items)):
        for i, t in enumerate(mine):
            found = [c["result"] for c in firsts if c["self"] is t and any(c["other"] is o for o in theirs)]
            h.ensure("C19.nested_eq.true_only_if_%s_alternative_%d_refines_one_of_the_other_side" % (side, i), z3.Implies(rr, z3.Or(*found) if found else z3.BoolVal(False)))
    back = h.call(h.method(Bn, "__eq__"), [A])
    if back.kind == "return":
        r2 = back.value if isinstance(back.value, z3.BoolRef) else z3.BoolVal(bool(back.value))
        h.ensure("C19.nested_eq.symmetric", rr == r2)
    else:
        h.check("C14.nested_eq.no_exception_reversed", False, "raised %s" % back.exc_name)
    h.check("C13.operands_unchanged", A.attrs["nested_termlist"].items == a_items and Bn.attrs["nested_termlist"].items == b_items, "operand modified")
    h.frame_ok(out, "C13.frame")


@contract("NestedTermList.__eq__[foreign]", ["C14"], [CMP + ":NestedTermList.__eq__"], "U", bound="comparison with an object of another class")
def c_nested_eq_foreign(h):
    u = UC(h)
    A = u.nested("A", 1)
    out = h.call(h.method(A, "__eq__"), [u.termlist("t")])
    h.check("C14.nested_eq.foreign_is_valueerror", out.kind == "raise" and out.exc_is(h.I, ValueError), "%r" % (out,))


@contract("IoContractCompound.__eq__", ["C19", "C14", "C13"], [CMP + ":IoContractCompound.__eq__", "pacti.iocontract.iocontract:Var.__eq__"], "U", bound="interface lists over {x,y} / {z,w} in every order (concrete); assumptions and guarantees are nested lists compared by the contract of NestedTermList.__eq__ (its answer is a free boolean per pair)", assumes=["contract of NestedTermList.__eq__ (proved above): a function of the two nested lists"], covers=["return"])
def c_compound_eq(h):
    u = UC(h)
    INS = [["x"], ["x", "y"], ["y", "x"]]
    OUTS = [["z"], ["w", "z"], ["z", "w"]]

    def var(nm):
        v = Obj(u.VarC, h.ctx)
        v.attrs["_name"] = nm
        return v

    def compound(name):
        ins = INS[h.ctx.choose(len(INS), name + ".in")]
        outs = OUTS[h.ctx.choose(len(OUTS), name + ".out")]
        c = Obj(u.Compound, h.ctx)
        c.attrs["a"] = u.nested(name + "_a", 1)
        c.attrs["g"] = u.nested(name + "_g", 1)
        c.attrs["inputvars"] = PList([var(v) for v in ins], h.ctx)
        c.attrs["outputvars"] = PList([var(v) for v in outs], h.ctx)
        return c, ins, outs

    c, ci, co = compound("c")
    d, di, do = compound("d")
    answers = {}
    asked = []

    def nested_eq(I, args, kwargs):
        me, other = args[0], args[1]
        key = frozenset((id(me), id(other)))
        if key not in answers:
            answers[key] = h.ctx.fresh_bool("nested_eq")
        asked.append((me, other))
        return answers[key]

    h.I.stubs[CMP + ":NestedTermList.__eq__"] = nested_eq
    out = h.call(h.method(c, "__eq__"), [d])
    h.check("C14.compound_eq.no_exception", out.kind == "return", "raised %s at %s" % (out.exc_name, out.where))
    if out.kind != "return":
        return
    h.cover("return")
    rr = out.value if isinstance(out.value, z3.BoolRef) else z3.BoolVal(bool(out.value))
    same_io = ci == di and co == do
    ea = answers.get(frozenset((id(c.attrs["a"]), id(d.attrs["a"]))))
    eg = answers.get(frozenset((id(c.attrs["g"]), id(d.attrs["g"]))))
    # equal only if all four fields are equal: a True answer needs both nested comparisons to have been made and answered True
    h.ensure("C19.compound_eq.true_only_if_interfaces_equal", z3.Implies(rr, z3.BoolVal(same_io)))
    h.ensure("C19.compound_eq.true_only_if_assumptions_equal", z3.Implies(rr, ea if ea is not None else z3.BoolVal(False)))
    h.ensure("C19.compound_eq.true_only_if_guarantees_equal", z3.Implies(rr, eg if eg is not None else z3.BoolVal(False)))
    if same_io and ea is not None and eg is not None:
        h.ensure("C19.compound_eq.true_if_all_four_equal", z3.Implies(z3.And(ea, eg), rr))
    for me, other in asked:
        ok = (me is c.attrs["a"] and other is d.attrs["a"]) or (me is c.attrs["g"] and other is d.attrs["g"]) or (me is d.attrs["a"] and other is c.attrs["a"]) or (me is d.attrs["g"] and other is c.attrs["g"])
        h.check("C19.compound_eq.compares_like_with_like", ok, "a nested list was compared with a field of another kind")
    back = h.call(h.method(d, "__eq__"), [c])
    if back.kind == "return":
        r2 = back.value if isinstance(back.value, z3.BoolRef) else z3.BoolVal(bool(back.value))
        ea2 = answers.get(frozenset((id(c.attrs["a"]), id(d.attrs["a"]))))
        eg2 = answers.get(frozenset((id(c.attrs["g"]), id(d.attrs["g"]))))
        h.ensure("C19.compound_eq.symmetric", rr == r2)
    h.frame_ok(out, "C13.frame")


@contract("IoContractCompound.__eq__[foreign]", ["C14"], [CMP + ":IoContractCompound.__eq__"], "U", bound="comparison with an object of another class")
def c_compound_eq_foreign(h):
    u = UC(h)
    c = Obj(u.Compound, h.ctx)
    c.attrs["a"], c.attrs["g"] = u.nested("a", 1), u.nested("g", 1)
    c.attrs["inputvars"], c.attrs["outputvars"] = PList([], h.ctx), PList([], h.ctx)
    out = h.call(h.method(c, "__eq__"), [u.nested("n", 1)])
    h.check("C14.compound_eq.foreign_is_valueerror", out.kind == "raise" and out.exc_is(h.I, ValueError), "%r" % (out,))


@contract("NestedPolyhedra.__init__", ["C17", "C14"], ["pacti.contracts.polyhedral_iocontract:NestedPolyhedra.__init__"], "U", bound="delegation to NestedTermList.__init__ (its contract: above), 1-2 alternatives, both values of the flag", assumes=["contract of NestedTermList.__init__ (proved above)"], covers=["return"])
def c_nested_polyhedra_init(h):
    u = UC(h)
    NP = h.I.load_module("pacti.contracts.polyhedral_iocontract").ns["NestedPolyhedra"]
    n = _n(h, "n", 1, 2)
    force = h.ctx.choose(2, "force") == 0
    alts = u.alts("A", n)
    pl = PList(list(alts), h.ctx)
    seen = []

    def base_init(I, args, kwargs):
        seen.append((args, kwargs))
        args[0].attrs["nested_termlist"] = PList(list(args[1].items), h.ctx)
        return None

    h.I.stubs[CMP + ":NestedTermList.__init__"] = base_init
    out = h.call(NP, [pl, force])
    h.check("C14.nested_polyhedra_init.no_exception", out.kind == "return", "raised %s at %s" % (out.exc_name, out.where))
    if out.kind != "return":
        return
    h.cover("return")
    ok = len(seen) == 1 and len(seen[0][0]) + len(seen[0][1]) == 3
    h.check("C17.nested_polyhedra_init.delegates_once", ok, "%d calls of the base constructor" % len(seen))
    if ok:
        args, kwargs = seen[0]
        lst = args[1] if len(args) > 1 else kwargs.get("nested_termlist")
        flg = args[2] if len(args) > 2 else kwargs.get("force_empty_intersection")
        h.check("C17.nested_polyhedra_init.same_alternatives", lst is pl or (isinstance(lst, PList) and lst.items == alts), "another list is handed to the base constructor")
        h.check("C17.nested_polyhedra_init.same_disjointness_flag", flg is force, "the disjointness flag is not passed on unchanged (%r for %r)" % (flg, force))
    h.frame_ok(out, "C13.frame")
