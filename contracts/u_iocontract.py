"""Contracts of pacti.iocontract.iocontract (algebra layer) over abstract term lists (domain U, no bound).

Every postcondition below is transcribed from the property statements (C01, C02, C05, C06, C08, C03, C13,
C14, C15, C16); preconditions (well-formed operands, duplicate-free vars_to_keep / additional_inputs)
are the ones the properties quantify over.
"""
import z3

from contracts.registry import contract
from contracts.ulib import U, IOC
from pyvc.absdom import AList, Opaque, holds, holds2, ren, tvars, _b, NameS, TermS
from pyvc.core import Obj, PList

INCOMPAT = None


def _incompat(h):
    return h.I.load_module("pacti.utils.errors").ns["IncompatibleArgsError"]


def _or(f, g):
    return lambda v: z3.Or(_b(f(v)), _b(g(v)))


def _and(f, g):
    return lambda v: z3.And(_b(f(v)), _b(g(v)))


def _minus(f, g):
    return lambda v: z3.And(_b(f(v)), z3.Not(_b(g(v))))


def _is_contract(u, v):
    return isinstance(v, Obj) and v.cls.is_subclass_of(u.IoContractC) and all(k in v.attrs for k in ("a", "g", "inputvars", "outputvars"))


def _classify(h, u, out, allowed_value_error=True):
    """exceptional postcondition shared by all algebra operations (C14): only documented classes escape."""
    if out.kind == "return":
        h.cover("return")
        return "return"
    inc = _incompat(h)
    if out.exc_is(h.I, inc):
        h.cover("IncompatibleArgsError")
        return "incompat"
    if out.exc_is(h.I, ValueError):
        h.cover("ValueError")
        h.check(
            "C14.valueerror_only_from_primitive",
            allowed_value_error and getattr(out.exc, "from_primitive", False),
            "ValueError raised by the algebra layer itself at line %s" % out.where,
        )
        return "valueerror"
    h.check("C14.raises_only_documented", False, "undocumented exception %s escaped (line %s)" % (out.exc_name, out.where))
    return "other"


def _fresh_contract_fields(h, u, c, operands, clause="C13.fresh_result"):
    """result shares no mutable state with the operands"""
    old = set()
    for o in operands:
        if isinstance(o, Obj):
            old.add(id(o))
            for k in ("a", "g", "inputvars", "outputvars"):
                if k in o.attrs:
                    old.add(id(o.attrs[k]))
                    if isinstance(o.attrs[k], Obj) and "terms" in o.attrs[k].attrs:
                        old.add(id(o.attrs[k].attrs["terms"]))
        else:
            old.add(id(o))
    bad = []
    for k in ("a", "g", "inputvars", "outputvars"):
        x = c.attrs[k]
        if id(x) in old:
            bad.append(k)
        if isinstance(x, Obj) and "terms" in x.attrs and id(x.attrs["terms"]) in old:
            bad.append(k + ".terms")
    h.check(clause, not bad, "result fields alias operand state: %s" % bad)


# ------------------------------------------------------------------------------------------------
# constructor
# ------------------------------------------------------------------------------------------------
def _init_contract(simplify):
    def c(h):
        u = U(h)
        A, G = u.termlist("A"), u.termlist("G")
        ins, outs = u.varlist("I", nodup=False), u.varlist("O", nodup=False)
        cls = u.IoContractC
        out = h.call(cls, [A, G, ins, outs], {"simplify": simplify})
        wfargs = u.wf_parts(A, G, ins, outs)
        kind = _classify(h, u, out, allowed_value_error=simplify)
        if kind == "incompat":
            h.ensure("C06.init.rejects_only_illformed", z3.Not(wfargs))
        elif kind in ("return", "valueerror"):
            # required raise: an ill-formed argument tuple must have been rejected with IncompatibleArgsError
            h.ensure("C06.init.illformed_rejected", wfargs)
        if kind == "return":
            c_ = out.value
            h.check("C06.init.returns_contract", _is_contract(u, c_), "constructor returned %r" % (c_,))
            if not _is_contract(u, c_):
                return
            h.ensure("C06.init.wf", u.wf(c_))
            h.ensure("C06.init.inputs", u.seteq(u.mem(c_.attrs["inputvars"]), u.mem(ins)))
            h.ensure("C06.init.outputs", u.seteq(u.mem(c_.attrs["outputvars"]), u.mem(outs)))
            h.ensure("C07.init.assumptions_same", u.sat(c_.attrs["a"]) == u.sat(A))
            h.ensure("C07.init.guarantees_same_under_assumptions", z3.Implies(u.sat(A), u.sat(c_.attrs["g"]) == u.sat(G)))
            gm, Gm = u.mem(u.terms_of(c_.attrs["g"])), u.mem(u.terms_of(G))
            h.ensure("C07.init.guarantees_selection", u.forall_t(lambda t: z3.Implies(_b(gm(t)), _b(Gm(t)))))
            _fresh_contract_fields(h, u, c_, [A, G, ins, outs])
        h.frame_ok(out, "C13.frame")

    return c


contract("IoContract.__init__[simplify=True]", ["C06", "C07", "C13", "C14"], [IOC + ":IoContract.__init__"], "U", assumes=["P-simplify"])(
    _init_contract(True)
)
contract("IoContract.__init__[simplify=False]", ["C06", "C07", "C13", "C14"], [IOC + ":IoContract.__init__"], "U")(_init_contract(False))


# ------------------------------------------------------------------------------------------------
# compose
# ------------------------------------------------------------------------------------------------
def _compose_contract(simplify, via):
    def c(h):
        u = U(h)
        u.relax_eliminates = False
        c1, c2 = u.contract("c1"), u.contract("c2")
        keep = u.varlist("keep")
        order = Opaque("tactics_order")
        u.record_op("compose", c1, c2, keep, simplify)
        I1, O1, I2, O2 = (u.mem(c1.attrs["inputvars"]), u.mem(c1.attrs["outputvars"]), u.mem(c2.attrs["inputvars"]), u.mem(c2.attrs["outputvars"]))
        K = u.mem(keep)
        if via == "compose_tactics":
            out = h.call(h.method(c1, "compose_tactics"), [c2, keep, simplify, order])
        else:
            out = h.call(h.method(c1, "compose"), [c2, keep, simplify])
        kind = _classify(h, u, out)
        # requests without meaning must be rejected with IncompatibleArgsError (C06)
        shared_out = z3.Not(u.disjoint(O1, O2))
        keep_nonout = z3.Not(u.subset(K, _or(O1, O2)))
        fb12 = z3.Not(u.disjoint(I1, O2))
        fb21 = z3.Not(u.disjoint(I2, O1))
        drives = z3.Or(z3.Not(u.disjoint(O2, u.tl_vars(c1.attrs["a"]))), z3.Not(u.disjoint(O1, u.tl_vars(c2.attrs["a"]))))
        feedback_on_constrained = z3.And(fb12, fb21, drives)
        if kind != "incompat":
            h.ensure("C06.compose.shared_outputs_rejected", z3.Not(shared_out))
            h.ensure("C06.compose.keep_non_output_rejected", z3.Not(keep_nonout))
            h.ensure("C06.compose.feedback_on_constrained_input_rejected", z3.Not(feedback_on_constrained))
        if kind == "return":
            res = out.value
            if via == "compose_tactics":
                h.check("compose.returns_pair", isinstance(res, tuple) and len(res) == 2, "returned %r" % (res,))
                if not (isinstance(res, tuple) and len(res) == 2):
                    return
                res = res[0]
            h.check("C06.compose.returns_contract", _is_contract(u, res), "returned %r" % (res,))
            if not _is_contract(u, res):
                return
            Ic, Oc = u.mem(res.attrs["inputvars"]), u.mem(res.attrs["outputvars"])
            h.ensure("C06.compose.wf", u.wf(res))
            h.ensure("C06.compose.inputs", u.seteq(Ic, _or(_minus(I1, O2), _minus(I2, O1))))
            h.ensure("C06.compose.outputs", u.seteq(Oc, _or(_or(_minus(O1, I2), _minus(O2, I1)), K)))
            A1, G1, A2, G2 = u.sat(c1.attrs["a"]), u.sat(c1.attrs["g"]), u.sat(c2.attrs["a"]), u.sat(c2.attrs["g"])
            Ac, Gc = u.sat(res.attrs["a"]), u.sat(res.attrs["g"])
            hyp = z3.And(Ac, z3.Implies(A1, G1), z3.Implies(A2, G2))
            h.ensure("C05.compose.sound.assumptions_self", z3.Implies(hyp, A1))
            h.ensure("C05.compose.sound.assumptions_other", z3.Implies(hyp, A2))
            h.ensure("C05.compose.sound.guarantees", z3.Implies(hyp, Gc))
            if not simplify:
                # C15, second sentence: no connection between the contracts (no output of one is an input of the other) and no
                # simplification asked for - the composition is exact.  (With simplify=True the pinned tree drops a guarantee
                # present on both sides: known finding, decided by the monitor.)
                unconnected = z3.And(u.disjoint(O1, I2), u.disjoint(O2, I1))
                h.ensure("C15.compose.unconnected_assumptions_are_the_conjunction", z3.Implies(unconnected, Ac == z3.And(A1, A2)))
                # (the constructor simplifies the guarantees with respect to the assumptions: exact wherever those hold)
                h.ensure("C15.compose.unconnected_guarantees_are_the_conjunction", z3.Implies(z3.And(unconnected, Ac), Gc == z3.And(G1, G2)))
            _fresh_contract_fields(h, u, res, [c1, c2, keep])
            # tactics_order is only ever handed to the primitives, never stored
            for rec in u.calls:
                if rec["op"] in ("refine", "relax") and via == "compose_tactics":
                    h.check("C13.tactics_order_passed_through", rec["order"] is order, "primitive got tactics_order %r" % (rec["order"],))
        h.frame_ok(out, "C13.frame")

    return c


for _s in (True, False):
    contract(
        "IoContract.compose_tactics[simplify=%s]" % _s,
        ["C05", "C01", "C06", "C13", "C14", "C15"],
        [IOC + ":IoContract.compose_tactics", IOC + ":IoContract.__init__", IOC + ":IoContract.can_compose_with", IOC + ":TermList.__or__", IOC + ":TermList.__sub__", IOC + ":TermList.get_terms_with_vars", IOC + ":TermList.vars", IOC + ":TermList.copy", IOC + ":TermList.__init__", "pacti.utils.lists:list_union", "pacti.utils.lists:list_diff", "pacti.utils.lists:list_intersection"],
        "U",
        assumes=["P-refine", "P-relax", "P-simplify"],
    )(_compose_contract(_s, "compose_tactics"))
contract(
    "IoContract.compose[simplify=True]",
    ["C05", "C01", "C06"],
    [IOC + ":IoContract.compose", IOC + ":IoContract.compose_tactics"],
    "U",
    assumes=["P-refine", "P-relax", "P-simplify"],
)(_compose_contract(True, "compose"))


# ------------------------------------------------------------------------------------------------
# quotient
# ------------------------------------------------------------------------------------------------
def _quotient_contract(simplify, via):
    def c(h):
        u = U(h)
        c, c1 = u.contract("c"), u.contract("c1")
        add = u.varlist("add")
        order = Opaque("tactics_order")
        u.record_op("quotient", c, c1, add, simplify)
        I, O, I1, O1 = (u.mem(c.attrs["inputvars"]), u.mem(c.attrs["outputvars"]), u.mem(c1.attrs["inputvars"]), u.mem(c1.attrs["outputvars"]))
        K = u.mem(add)
        if via == "quotient_tactics":
            out = h.call(h.method(c, "quotient_tactics"), [c1, add, simplify, order])
        else:
            out = h.call(h.method(c, "quotient"), [c1, add, simplify])
        kind = _classify(h, u, out)
        bad_out = z3.Not(u.disjoint(_minus(O, O1), I1))
        bad_add = z3.Not(u.subset(K, _or(O1, I)))
        if kind != "incompat":
            h.ensure("C06.quotient.output_read_by_divisor_rejected", z3.Not(bad_out))
            h.ensure("C06.quotient.bad_additional_inputs_rejected", z3.Not(bad_add))
        if kind == "return":
            res = out.value
            if via == "quotient_tactics":
                h.check("quotient.returns_pair", isinstance(res, tuple) and len(res) == 2, "returned %r" % (res,))
                if not (isinstance(res, tuple) and len(res) == 2):
                    return
                res = res[0]
            h.check("C06.quotient.returns_contract", _is_contract(u, res), "returned %r" % (res,))
            if not _is_contract(u, res):
                return
            Iq, Oq = u.mem(res.attrs["inputvars"]), u.mem(res.attrs["outputvars"])
            h.ensure("C06.quotient.wf", u.wf(res))
            h.ensure("C06.quotient.inputs", u.seteq(Iq, _or(_or(_minus(I, I1), _minus(O1, O)), K)))
            h.ensure("C06.quotient.outputs", u.seteq(Oq, _or(_minus(O, O1), _minus(I1, I))))
            A, G, A1, G1 = u.sat(c.attrs["a"]), u.sat(c.attrs["g"]), u.sat(c1.attrs["a"]), u.sat(c1.attrs["g"])
            Aq, Gq = u.sat(res.attrs["a"]), u.sat(res.attrs["g"])
            hyp = z3.And(A, z3.Implies(A1, G1), z3.Implies(Aq, Gq))
            h.ensure("C05.quotient.sound.divisor_assumptions", z3.Implies(hyp, A1))
            h.ensure("C05.quotient.sound.quotient_assumptions", z3.Implies(hyp, Aq))
            h.ensure("C05.quotient.sound.guarantees", z3.Implies(hyp, G))
            _fresh_contract_fields(h, u, res, [c, c1, add])
            for rec in u.calls:
                if rec["op"] in ("refine", "relax") and via == "quotient_tactics":
                    h.check("C13.tactics_order_passed_through", rec["order"] is order, "primitive got tactics_order %r" % (rec["order"],))
        h.frame_ok(out, "C13.frame")

    return c


for _s in (True, False):
    contract(
        "IoContract.quotient_tactics[simplify=%s]" % _s,
        ["C05", "C02", "C06", "C13", "C14"],
        [IOC + ":IoContract.quotient_tactics", IOC + ":IoContract.__init__", IOC + ":IoContract.can_quotient_by", IOC + ":TermList.__or__", IOC + ":TermList.get_terms_with_vars", IOC + ":TermList.vars"],
        "U",
        assumes=["P-refine", "P-relax", "P-simplify", "P-refines"],
    )(_quotient_contract(_s, "quotient_tactics"))
contract(
    "IoContract.quotient[simplify=True]",
    ["C05", "C02", "C06"],
    [IOC + ":IoContract.quotient", IOC + ":IoContract.quotient_tactics"],
    "U",
    assumes=["P-refine", "P-relax", "P-simplify", "P-refines"],
)(_quotient_contract(True, "quotient"))


# ------------------------------------------------------------------------------------------------
# merge
# ------------------------------------------------------------------------------------------------
@contract(
    "IoContract.merge",
    ["C05", "C08", "C06", "C15", "C13", "C14"],
    [IOC + ":IoContract.merge", IOC + ":IoContract.__init__", IOC + ":TermList.__or__"],
    "U",
    assumes=["P-simplify"],
)
def c_merge(h):
    u = U(h)
    c1, c2 = u.contract("c1"), u.contract("c2")
    u.record_op("merge", c1, c2)
    I1, O1, I2, O2 = (u.mem(c1.attrs["inputvars"]), u.mem(c1.attrs["outputvars"]), u.mem(c2.attrs["inputvars"]), u.mem(c2.attrs["outputvars"]))
    out = h.call(h.method(c1, "merge"), [c2])
    kind = _classify(h, u, out)
    union_wf = z3.And(u.disjoint(_or(I1, I2), _or(O1, O2)))
    if kind == "incompat":
        # both operands have the same type here, so the only meaningful rejection is an ill-formed union interface
        h.ensure("C06.merge.rejects_only_illformed_union", z3.Not(union_wf))
    if kind == "return":
        res = out.value
        h.check("C06.merge.returns_contract", _is_contract(u, res), "returned %r" % (res,))
        if not _is_contract(u, res):
            return
        h.ensure("C06.merge.wf", u.wf(res))
        h.ensure("C06.merge.inputs", u.seteq(u.mem(res.attrs["inputvars"]), _or(I1, I2)))
        h.ensure("C06.merge.outputs", u.seteq(u.mem(res.attrs["outputvars"]), _or(O1, O2)))
        A1, G1, A2, G2 = u.sat(c1.attrs["a"]), u.sat(c1.attrs["g"]), u.sat(c2.attrs["a"]), u.sat(c2.attrs["g"])
        Am, Gm = u.sat(res.attrs["a"]), u.sat(res.attrs["g"])
        h.ensure("C08.merge.assumptions_exact", Am == z3.And(A1, A2))
        h.ensure("C08.merge.guarantees_exact_under_assumptions", z3.Implies(Am, Gm == z3.And(G1, G2)))
        # C15 for merge: every operand guarantee is still enforced
        h.ensure("C15.merge.no_guarantee_forgotten", z3.Implies(z3.And(Am, Gm), z3.And(G1, G2)))
        _fresh_contract_fields(h, u, res, [c1, c2])
    h.frame_ok(out, "C13.frame")


# ------------------------------------------------------------------------------------------------
# refinement and membership tests
# ------------------------------------------------------------------------------------------------
def _refines_calls(u):
    return [r for r in u.calls if r["op"] == "refines"]


def _containment_body(u, rec):
    return z3.Implies(u.sat(rec["self"]), u.sat(rec["other"]))


@contract(
    "IoContract.refines",
    ["C03", "C06", "C13", "C14"],
    [IOC + ":IoContract.refines", IOC + ":IoContract.shares_io_with", IOC + ":TermList.__le__", IOC + ":TermList.__or__", "pacti.utils.lists:lists_equal"],
    "U",
    assumes=["P-refines(exact)"],
)
def c_refines(h):
    u = U(h)
    c, d = u.contract("c"), u.contract("d")
    I, O, I2, O2 = (u.mem(c.attrs["inputvars"]), u.mem(c.attrs["outputvars"]), u.mem(d.attrs["inputvars"]), u.mem(d.attrs["outputvars"]))
    via = h.method(c, "refines")
    out = h.call(via, [d])
    kind = _classify(h, u, out, allowed_value_error=False)
    same_io = z3.And(u.seteq(I, I2), u.seteq(O, O2))
    if kind == "incompat":
        h.ensure("C06.refines.rejects_only_different_interfaces", z3.Not(same_io))
    if kind == "return":
        h.ensure("C06.refines.different_interfaces_rejected", same_io)
        r = out.value
        calls = _refines_calls(u)
        # The result must be the conjunction of exactly two list-level containment tests whose operands mean:
        #  (1) other's assumptions are contained in self's;  (2) self's guarantees, where other's assumptions hold,
        #  are contained in other's guarantees.   Bodies are compared pointwise (at the skolem behaviour) and the
        #  list-level test is exact by P-refines, so equality of bodies lifts to equality of the answers.
        A, G, A2, G2 = u.sat(c.attrs["a"]), u.sat(c.attrs["g"]), u.sat(d.attrs["a"]), u.sat(d.attrs["g"])
        spec1 = z3.Implies(A2, A)
        spec2 = z3.Implies(z3.And(G, A2), G2)
        h.check("C03.refines.two_containment_tests", len(calls) == 2, "%d list-level refinement tests were made" % len(calls))
        if len(calls) == 2:
            b1, b2 = _containment_body(u, calls[0]), _containment_body(u, calls[1])
            h.ensure("C03.refines.tests_mean_spec", z3.Or(z3.And(b1 == spec1, b2 == spec2), z3.And(b1 == spec2, b2 == spec1)))
            rr = r if isinstance(r, z3.BoolRef) else z3.BoolVal(bool(r))
            h.ensure("C03.refines.result_is_conjunction", rr == z3.And(calls[0]["result"], calls[1]["result"]))
    h.frame_ok(out, "C13.frame")


@contract("IoContract.__le__", ["C03"], [IOC + ":IoContract.__le__", IOC + ":IoContract.refines"], "U", assumes=["P-refines(exact)"])
def c_le(h):
    u = U(h)
    c, d = u.contract("c"), u.contract("d")
    out = h.call(h.method(c, "__le__"), [d])
    kind = _classify(h, u, out, allowed_value_error=False)
    if kind == "return":
        calls = _refines_calls(u)
        h.check("C03.le.delegates_to_refines", len(calls) == 2, "%d list-level tests" % len(calls))
        if len(calls) == 2:
            rr = out.value if isinstance(out.value, z3.BoolRef) else z3.BoolVal(bool(out.value))
            h.ensure("C03.le.result_is_conjunction", rr == z3.And(calls[0]["result"], calls[1]["result"]))
            A, G, A2, G2 = u.sat(c.attrs["a"]), u.sat(c.attrs["g"]), u.sat(d.attrs["a"]), u.sat(d.attrs["g"])
            b1, b2 = _containment_body(u, calls[0]), _containment_body(u, calls[1])
            spec1, spec2 = z3.Implies(A2, A), z3.Implies(z3.And(G, A2), G2)
            h.ensure("C03.le.tests_mean_spec", z3.Or(z3.And(b1 == spec1, b2 == spec2), z3.And(b1 == spec2, b2 == spec1)))
    h.frame_ok(out, "C13.frame")


@contract("IoContract.contains_environment", ["C03"], [IOC + ":IoContract.contains_environment", IOC + ":TermList.__le__"], "U", assumes=["P-refines(exact)"])
def c_contains_env(h):
    u = U(h)
    c = u.contract("c")
    comp = u.termlist("E")
    out = h.call(h.method(c, "contains_environment"), [comp])
    kind = _classify(h, u, out, allowed_value_error=False)
    if kind == "return":
        calls = _refines_calls(u)
        h.check("C03.env.one_containment_test", len(calls) == 1, "%d tests" % len(calls))
        if len(calls) == 1:
            h.ensure("C03.env.test_means_spec", _containment_body(u, calls[0]) == z3.Implies(u.sat(comp), u.sat(c.attrs["a"])))
            rr = out.value if isinstance(out.value, z3.BoolRef) else z3.BoolVal(bool(out.value))
            h.ensure("C03.env.result_is_test", rr == calls[0]["result"])
    h.frame_ok(out, "C13.frame")


@contract("IoContract.contains_implementation", ["C03"], [IOC + ":IoContract.contains_implementation", IOC + ":TermList.__le__", IOC + ":TermList.__or__"], "U", assumes=["P-refines(exact)"])
def c_contains_impl(h):
    u = U(h)
    c = u.contract("c")
    comp = u.termlist("M")
    out = h.call(h.method(c, "contains_implementation"), [comp])
    kind = _classify(h, u, out, allowed_value_error=False)
    if kind == "return":
        calls = _refines_calls(u)
        h.check("C03.impl.one_containment_test", len(calls) == 1, "%d tests" % len(calls))
        if len(calls) == 1:
            A, G = u.sat(c.attrs["a"]), u.sat(c.attrs["g"])
            h.ensure("C03.impl.test_means_spec", _containment_body(u, calls[0]) == z3.Implies(z3.And(u.sat(comp), A), G))
            rr = out.value if isinstance(out.value, z3.BoolRef) else z3.BoolVal(bool(out.value))
            h.ensure("C03.impl.result_is_test", rr == calls[0]["result"])
    h.frame_ok(out, "C13.frame")


# ------------------------------------------------------------------------------------------------
# rename / copy
# ------------------------------------------------------------------------------------------------
@contract(
    "IoContract.rename_variable",
    ["C16", "C06", "C13", "C14"],
    [IOC + ":IoContract.rename_variable", IOC + ":TermList.rename_variable", IOC + ":TermList.copy", IOC + ":IoContract.__init__"],
    "U",
    assumes=["P-simplify", "Term.rename_variable contract (proved in S for PolyhedralTerm)"],
)
def c_rename(h):
    u = U(h)
    c = u.contract("c")
    s, t = u.fresh_var("s"), u.fresh_var("t")
    sn, tn = s.attrs["_name"], t.attrs["_name"]
    I, O = u.mem(c.attrs["inputvars"]), u.mem(c.attrs["outputvars"])
    # contract of Term.rename_variable (proved for PolyhedralTerm in contracts/s_term.py):
    #   holds(ren(x,s,t)) at b  <=>  holds(x) at b[s := b(t)]  (=: holds2),  and syntactic variables move from s to t
    x = z3.Const("x_ren", TermS)
    v = z3.Const("v_ren", NameS)
    h.assume(z3.ForAll([x], z3.Implies(sn != tn, holds(ren(x, sn, tn)) == holds2(x))), "Term.rename.meaning")
    h.assume(
        z3.ForAll([x, v], z3.Implies(sn != tn, tvars(ren(x, sn, tn), v) == z3.Or(z3.And(tvars(x, v), v != sn), z3.And(v == tn, tvars(x, sn))))),
        "Term.rename.vars",
    )
    out = h.call(h.method(c, "rename_variable"), [s, t])
    kind = _classify(h, u, out)
    clash = z3.And(sn != tn, z3.Or(z3.And(I(sn), O(tn)), z3.And(O(sn), I(tn))))
    if kind == "incompat":
        h.ensure("C16.rename.rejects_only_io_clash", clash)
    if kind in ("return", "valueerror"):
        h.ensure("C16.rename.io_clash_rejected", z3.Not(clash))
    if kind == "return":
        res = out.value
        h.check("C16.rename.returns_contract", _is_contract(u, res), "returned %r" % (res,))
        if not _is_contract(u, res):
            return
        Ir, Or_ = u.mem(res.attrs["inputvars"]), u.mem(res.attrs["outputvars"])
        active = z3.And(sn != tn, z3.Or(I(sn), O(sn)))
        exp_I = lambda w: z3.If(z3.And(active, I(sn)), z3.Or(z3.And(I(w), w != sn), w == tn), I(w))
        exp_O = lambda w: z3.If(z3.And(active, O(sn)), z3.Or(z3.And(O(w), w != sn), w == tn), O(w))
        h.ensure("C16.rename.inputs", u.seteq(Ir, exp_I))
        h.ensure("C16.rename.outputs", u.seteq(Or_, exp_O))
        h.ensure("C06.rename.wf", u.wf(res))
        A, G = c.attrs["a"], c.attrs["g"]
        Ar, Gr = res.attrs["a"], res.attrs["g"]
        # active: renamed behaviour; inactive (absent or equal source): nothing changes
        h.ensure("C16.rename.assumptions_meaning", u.sat(Ar) == z3.If(active, u.sat(A, holds2), u.sat(A)))
        h.ensure(
            "C16.rename.guarantees_meaning_under_assumptions",
            z3.Implies(u.sat(Ar), u.sat(Gr) == z3.If(active, u.sat(G, holds2), u.sat(G))),
        )
        # renaming is substitution, nothing else: the constraints are not simplified again (a second simplification can drop a
        # guarantee the original keeps, or reject a contract whose guarantees contradict its assumptions - both seen on the
        # pinned tree for an ABSENT source variable)
        h.check("C16.rename.nothing_is_simplified_again", not [r for r in u.calls if r["op"] == "simplify"], "rename_variable called simplify")
        _fresh_contract_fields(h, u, res, [c])
    h.frame_ok(out, "C13.frame")


@contract("IoContract.copy", ["C06", "C19", "C13"], [IOC + ":IoContract.copy", IOC + ":TermList.copy", IOC + ":IoContract.__init__"], "U", assumes=["P-simplify"])
def c_copy(h):
    u = U(h)
    c = u.contract("c")
    out = h.call(h.method(c, "copy"), [])
    kind = _classify(h, u, out)
    if kind == "return":
        res = out.value
        h.check("C06.copy.returns_contract", _is_contract(u, res), "returned %r" % (res,))
        if not _is_contract(u, res):
            return
        h.ensure("C06.copy.wf", u.wf(res))
        h.ensure("C06.copy.inputs", u.seteq(u.mem(res.attrs["inputvars"]), u.mem(c.attrs["inputvars"])))
        h.ensure("C06.copy.outputs", u.seteq(u.mem(res.attrs["outputvars"]), u.mem(c.attrs["outputvars"])))
        h.ensure("C06.copy.assumptions_same", u.sat(res.attrs["a"]) == u.sat(c.attrs["a"]))
        h.ensure("C06.copy.guarantees_same_under_assumptions", z3.Implies(u.sat(c.attrs["a"]), u.sat(res.attrs["g"]) == u.sat(c.attrs["g"])))
        # C19: a copy is EQUAL to its original - the same constraints, not merely equivalent ones: nothing is simplified again
        # (simplification is not idempotent under LP round-off: the pinned tree's copy() could drop a guarantee its original kept)
        ra, rg = u.mem(u.terms_of(res.attrs["a"])), u.mem(u.terms_of(res.attrs["g"]))
        ca, cg = u.mem(u.terms_of(c.attrs["a"])), u.mem(u.terms_of(c.attrs["g"]))
        h.ensure("C19.copy.same_assumption_terms", u.forall_t(lambda t: _b(ra(t)) == _b(ca(t))))
        h.ensure("C19.copy.same_guarantee_terms", u.forall_t(lambda t: _b(rg(t)) == _b(cg(t))))
        h.check("C19.copy.nothing_is_simplified_again", not [r for r in u.calls if r["op"] == "simplify"], "copy() called simplify")
        _fresh_contract_fields(h, u, res, [c])
    h.frame_ok(out, "C13.frame")


@contract("IoContract.simplify", ["C07", "C13"], [IOC + ":IoContract.simplify"], "U", assumes=["P-simplify"])
def c_simplify(h):
    u = U(h)
    c = u.contract("c")
    A0, G0 = u.sat(c.attrs["a"]), u.sat(c.attrs["g"])
    a_obj, g_obj, i_obj, o_obj = c.attrs["a"], c.attrs["g"], c.attrs["inputvars"], c.attrs["outputvars"]
    out = h.call(h.method(c, "simplify"), [])
    kind = _classify(h, u, out)
    if kind == "return":
        h.ensure("C07.simplify.behaviours_unchanged", z3.Implies(A0, u.sat(c.attrs["g"]) == G0))
        h.ensure("C06.simplify.wf", u.wf(c))
        # the only permitted write is the documented in-place replacement of self.g
        bad = [w[1] for w in out.writes if w[1] != "IoContract.g ="]
        h.check("C13.simplify.frame", not bad and c.attrs["a"] is a_obj and c.attrs["inputvars"] is i_obj and c.attrs["outputvars"] is o_obj, "unexpected writes %s" % bad)
    else:
        h.frame_ok(out, "C13.frame_on_error")


# ------------------------------------------------------------------------------------------------
# TermList base class operators
# ------------------------------------------------------------------------------------------------
def _tl_binary(name, spec):
    def c(h):
        u = U(h)
        s, o = u.termlist("S"), u.termlist("T")
        sm, om = u.mem(u.terms_of(s)), u.mem(u.terms_of(o))
        out = h.call(h.method(s, name), [o])
        h.check("no_exception", out.kind == "return", "raised %s" % out.exc_name)
        if out.kind == "return":
            r = out.value
            ok = isinstance(r, Obj) and r.cls is s.cls and "terms" in r.attrs
            h.check("returns_termlist_of_same_type", ok, "returned %r" % (r,))
            if ok:
                rm = u.mem(u.terms_of(r))
                h.ensure("members", u.forall_t(lambda t: _b(rm(t)) == spec(_b(sm(t)), _b(om(t)))))
                h.check("C13.fresh_result", r is not s and r is not o and u.terms_of(r) is not u.terms_of(s) and u.terms_of(r) is not u.terms_of(o), "aliases operand")
        h.frame_ok(out, "C13.frame")

    return c


contract("TermList.__or__", ["C05", "C13"], [IOC + ":TermList.__or__", IOC + ":TermList.copy", IOC + ":TermList.__init__"], "U")(_tl_binary("__or__", lambda a, b: z3.Or(a, b)))
contract("TermList.__sub__", ["C05", "C13"], [IOC + ":TermList.__sub__", IOC + ":TermList.copy", IOC + ":TermList.__init__"], "U")(_tl_binary("__sub__", lambda a, b: z3.And(a, z3.Not(b))))
contract("TermList.__and__", ["C05", "C13"], [IOC + ":TermList.__and__", IOC + ":TermList.copy", IOC + ":TermList.__init__"], "U")(_tl_binary("__and__", lambda a, b: z3.And(a, b)))


@contract("TermList.vars", ["C06"], [IOC + ":TermList.vars", "pacti.utils.lists:list_union"], "U", assumes=["Term.vars is duplicate-free", "contract of list_union (lists.list_union)"])
def c_tl_vars(h):
    u = U(h)
    s = u.termlist("S")
    out = h.call(lambda *a: h.I.getattr(s, "vars"), []) if False else None
    # property access: evaluate through the interpreter
    h.ctx.epoch += 1
    h.I.call_epoch = h.ctx.epoch
    r = h.I.getattr(s, "vars")
    h.I.call_epoch = None
    sm = u.mem(u.terms_of(s))
    if isinstance(r, PList):
        h.ensure("vars.members", u.forall_t(lambda t: z3.Not(_b(sm(t)))) if not r.items else z3.BoolVal(False))
    else:
        h.ensure("vars.members", u.seteq(r.mem, u.tl_vars(s)))
        h.ensure("vars.nodup", u.nodup(r))
    h.check("C13.frame", not h.ctx.writes, "writes %s" % [w[1] for w in h.ctx.writes])


@contract("TermList.get_terms_with_vars", ["C05", "C06"], [IOC + ":TermList.get_terms_with_vars", "pacti.utils.lists:list_intersection"], "U")
def c_tl_get_terms(h):
    u = U(h)
    s = u.termlist("S")
    vs = u.varlist("V", nodup=False)
    out = h.call(h.method(s, "get_terms_with_vars"), [vs])
    h.check("no_exception", out.kind == "return", "raised %s" % out.exc_name)
    if out.kind == "return":
        r = out.value
        ok = isinstance(r, Obj) and r.cls is s.cls
        h.check("returns_termlist_of_same_type", ok, "returned %r" % (r,))
        if ok:
            sm, rm, vm = u.mem(u.terms_of(s)), u.mem(u.terms_of(r)), vs.mem

            def spec(t):
                v = z3.Const(h.ctx.fresh_name("v"), NameS)
                return z3.And(_b(sm(t)), z3.Exists([v], z3.And(tvars(t, v), _b(vm(v)))))

            h.ensure("members", u.forall_t(lambda t: _b(rm(t)) == spec(t)))
            h.check("C13.fresh_result", r is not s and u.terms_of(r) is not u.terms_of(s), "aliases operand")
    h.frame_ok(out, "C13.frame")


@contract("TermList.__init__", ["C05", "C13"], [IOC + ":TermList.__init__"], "U")
def c_tl_init(h):
    """The contract that every caller above uses in place of the constructor body."""
    u = U(h, stub_termlist_init=False)
    which = h.ctx.choose(3, "arg")
    o = Obj(u.AbsTL, h.ctx)
    if which == 0:
        arg = None
        out = h.call(h.method(o, "__init__"), [])
    elif which == 1:
        arg = u.termset("T")
        out = h.call(h.method(o, "__init__"), [arg])
    else:
        arg = h.I.new_list([])
        out = h.call(h.method(o, "__init__"), [arg])
    h.check("no_exception", out.kind == "return", "raised %s" % out.exc_name)
    if out.kind == "return":
        t = o.attrs.get("terms")
        h.check("sets_terms", isinstance(t, (AList, PList)), "terms = %r" % (t,))
        if isinstance(t, (AList, PList)):
            tm = u.mem(t)
            if isinstance(arg, AList):
                h.ensure("members", u.forall_t(lambda x: _b(tm(x)) == _b(arg.mem(x))))
            else:
                h.ensure("members", u.forall_t(lambda x: z3.Not(_b(tm(x)))))
            h.check("C13.fresh_list", t is not arg, "terms aliases the argument list")
    bad = [w[1] for w in out.writes if w[0] is not o]
    h.check("C13.frame", not bad, "writes %s" % bad)


@contract("TermList.copy", ["C13", "C19"], [IOC + ":TermList.copy", IOC + ":TermList.__init__"], "U")
def c_tl_copy(h):
    u = U(h)
    s = u.termlist("S")
    out = h.call(h.method(s, "copy"), [])
    h.check("no_exception", out.kind == "return", "raised %s" % out.exc_name)
    if out.kind == "return":
        r = out.value
        ok = isinstance(r, Obj) and r.cls is s.cls
        h.check("returns_termlist_of_same_type", ok, "returned %r" % (r,))
        if ok:
            sm, rm = u.mem(u.terms_of(s)), u.mem(u.terms_of(r))
            h.ensure("members", u.forall_t(lambda t: _b(rm(t)) == _b(sm(t))))
            h.check("C13.fresh_result", r is not s and u.terms_of(r) is not u.terms_of(s), "aliases operand")
    h.frame_ok(out, "C13.frame")


@contract("TermList.rename_variable", ["C16"], [IOC + ":TermList.rename_variable"], "U", assumes=["Term.rename_variable contract"])
def c_tl_rename(h):
    u = U(h)
    s = u.termlist("S")
    a, b = u.fresh_var("s"), u.fresh_var("t")
    an, bn = a.attrs["_name"], b.attrs["_name"]
    x = z3.Const("x_ren", TermS)
    h.assume(z3.ForAll([x], holds(ren(x, an, bn)) == holds2(x)), "Term.rename.meaning")
    out = h.call(h.method(s, "rename_variable"), [a, b])
    h.check("no_exception", out.kind == "return", "raised %s" % out.exc_name)
    if out.kind == "return":
        r = out.value
        ok = isinstance(r, Obj) and r.cls is s.cls
        h.check("returns_termlist_of_same_type", ok, "returned %r" % (r,))
        if ok:
            h.ensure("C16.termlist.rename_meaning", u.sat(r) == u.sat(s, holds2))
            sm, rm = u.mem(u.terms_of(s)), u.mem(u.terms_of(r))
            y = z3.Const("y_ren", TermS)
            h.ensure("C16.termlist.rename_is_map", u.forall_t(lambda t: _b(rm(t)) == z3.Exists([y], z3.And(_b(sm(y)), t == ren(y, an, bn)))))
    h.frame_ok(out, "C13.frame")


# ------------------------------------------------------------------------------------------------
# admissibility predicates
# ------------------------------------------------------------------------------------------------
def _pred_contract(name, spec):
    def c(h):
        u = U(h)
        c1, c2 = u.contract("c1"), u.contract("c2")
        I1, O1, I2, O2 = (u.mem(c1.attrs["inputvars"]), u.mem(c1.attrs["outputvars"]), u.mem(c2.attrs["inputvars"]), u.mem(c2.attrs["outputvars"]))
        out = h.call(h.method(c1, name), [c2])
        h.check("no_exception", out.kind == "return", "raised %s" % out.exc_name)
        if out.kind == "return":
            r = out.value
            sp = spec(u, I1, O1, I2, O2)
            if isinstance(r, bool):
                h.ensure("iff", sp if r else z3.Not(sp))
                h.cover("returns_%s" % r)
            else:
                h.ensure("iff", r == sp)
        h.frame_ok(out, "C13.frame")

    return c


contract("IoContract.can_compose_with", ["C06"], [IOC + ":IoContract.can_compose_with"], "U")(
    _pred_contract("can_compose_with", lambda u, I1, O1, I2, O2: u.disjoint(O1, O2))
)
contract("IoContract.can_quotient_by", ["C06"], [IOC + ":IoContract.can_quotient_by"], "U")(
    _pred_contract("can_quotient_by", lambda u, I1, O1, I2, O2: u.disjoint(_minus(O1, O2), I2))
)
contract("IoContract.shares_io_with", ["C06", "C03"], [IOC + ":IoContract.shares_io_with"], "U")(
    _pred_contract("shares_io_with", lambda u, I1, O1, I2, O2: z3.And(u.seteq(I1, I2), u.seteq(O1, O2)))
)
