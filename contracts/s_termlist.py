"""Contracts of PolyhedralTermList list-level functions (domain S), using the *contracts* of the LP-level
functions (proved in h_lp.py for any dimension) at the call sites."""
import z3

from contracts.registry import contract
from contracts.slib import S, POLY
from pyvc.core import ExcObj, NativeFn, Obj, PDict, PList, PyRaise, Unsupported, to_real
from pyvc.ext import NArr
from pyvc.hdom import LP, ExplicitSpace

PTL = POLY + ":PolyhedralTermList."
V2 = ["x", "y"]
B2 = "lists of <=2 terms over the variable names {x,y} (every support), arbitrary real coefficients"


class LPStubs:
    """Call-site contracts of is_polytope_empty / verify_polytope_containment / reduce_polytope over explicit matrices,
    and a spy on termlist_to_polytope that records the column order."""

    def __init__(self, h, s):
        self.h, self.s = h, s
        self.log = []
        self.orders = []
        I = h.I
        I.stubs[PTL + "is_polytope_empty"] = self.is_empty
        I.stubs[PTL + "verify_polytope_containment"] = self.containment
        I.stubs[PTL + "reduce_polytope"] = self.reduce
        real = I.get_func(PTL + "termlist_to_polytope")
        self._real_t2p = real

        def spy(I2, args, kwargs):
            del I2.stubs[PTL + "termlist_to_polytope"]
            try:
                r = I2.call_func(real, args, kwargs)
            finally:
                I2.stubs[PTL + "termlist_to_polytope"] = spy
            if isinstance(r, tuple) and r and isinstance(r[0], PList):
                self.orders.append([v.attrs.get("_name") for v in r[0].items])
            return r

        I.stubs[PTL + "termlist_to_polytope"] = spy

    @staticmethod
    def rows(a):
        if isinstance(a, NArr) and a.ndim == 2:
            return [list(r) for r in a.data]
        if isinstance(a, NArr) and a.ndim == 1 and a.shape[0] == 0:
            return []
        raise Unsupported("matrix argument %r" % (a,))

    @staticmethod
    def vec(b):
        if isinstance(b, NArr) and b.ndim == 1:
            return list(b.data)
        raise Unsupported("vector argument %r" % (b,))

    @staticmethod
    def poly(rows, bs):
        def f(x):
            cs = []
            for r, b in zip(rows, bs):
                if len(r) != len(x):
                    raise Unsupported("dimension mismatch in contract instance")
                cs.append(z3.Sum([to_real(c) * xi for c, xi in zip(r, x)]) <= to_real(b)) if r else cs.append(z3.RealVal(0) <= to_real(b))
            return z3.And(*cs) if cs else z3.BoolVal(True)

        return f

    def is_empty(self, I, args, kwargs):
        a, b = args
        rows, bs = self.rows(a), self.vec(b)
        rec = {"op": "is_empty", "set": self.poly(rows, bs), "n": len(rows)}
        self.log.append(rec)
        if not rows or not rows[0]:
            rec["result"] = False  # contract: no rows (or no columns) -> not empty
            return False
        r = self.h.ctx.fresh_bool("empty")
        rec["result"] = r
        return r

    def containment(self, I, args, kwargs):
        al, bl, ar, br = args
        L, R = self.poly(self.rows(al), self.vec(bl)), self.poly(self.rows(ar), self.vec(br))
        r = self.h.ctx.fresh_bool("contained")
        self.log.append({"op": "containment", "L": L, "R": R, "result": r})
        return r

    def reduce(self, I, args, kwargs):
        a, b = args[0], args[1]
        ah = args[2] if len(args) > 2 else kwargs.get("a_help")
        bh = args[3] if len(args) > 3 else kwargs.get("b_help")
        rows, bs = self.rows(a), self.vec(b)
        hrows = self.rows(ah) if isinstance(ah, NArr) and ah.shape != (1, 0) else []
        hbs = self.vec(bh) if hrows else []
        A, H = self.poly(rows, bs), self.poly(hrows, hbs)
        ctx = self.h.ctx
        rec = {"op": "reduce", "A": A, "H": H, "n": len(rows)}
        self.log.append(rec)
        if rows and ctx.choose(2, "reduce#%d.outcome" % len(self.log)) == 0:
            rec["outcome"] = "ValueError"
            e = ExcObj(ValueError, ("The constraints are unsatisfiable",))
            raise PyRaise(e)
        keep = [i for i in range(len(rows)) if ctx.choose(2, "reduce#%d.keep%d" % (len(self.log), i)) == 0]
        rec["outcome"], rec["keep"] = "return", keep
        krows, kbs = [rows[i] for i in keep], [bs[i] for i in keep]
        rec["Ared"] = self.poly(krows, kbs)
        m = len(rows[0]) if rows else 0
        # irredundancy witnesses (one point per kept row), as promised by the contract
        rec["witnesses"] = []
        if not (len(rows) == 1 and not hrows):
            for k, i in enumerate(keep):
                w = [ctx.fresh_real("w%d_%d" % (i, j)) for j in range(m)]
                others = self.poly([krows[q] for q in range(len(keep)) if q != k], [kbs[q] for q in range(len(keep)) if q != k])
                bk = to_real(kbs[k])
                margin = z3.RealVal("1/10000") * (1 + z3.If(bk >= 0, bk, -bk))
                self.h.assume(z3.And(others(w), H(w), z3.Sum([to_real(c) * xi for c, xi in zip(krows[k], w)]) > bk - margin), "reduce_polytope.kept_row_not_redundant")
                rec["witnesses"].append(w)
        if len(rows) == 0:
            return (a, b)
        ra = NArr([list(r) for r in krows], (len(krows), m))
        rb = NArr(list(kbs), (len(kbs),))
        return (ra, rb)


def _lists(h, s, na, nb, names=V2, vf=False):
    # the properties' quantifiers speak of constraints that mention at least one variable; vf=True adds to each list one
    # constraint WITHOUT variables (0 <= c, what cancelling coefficients leave), first or last
    ta = [s.term("a%d" % i, names, allow_empty=False) for i in range(na)]
    tb = [s.term("b%d" % i, names, allow_empty=False) for i in range(nb)]
    if vf:
        fa, fb = s.term("fa", names, support=[]), s.term("fb", names, support=[])
        ta = [fa] + ta if h.ctx.choose(2, "vf_first_a") == 0 else ta + [fa]
        tb = [fb] + tb if h.ctx.choose(2, "vf_first_b") == 0 else tb + [fb]
        if vf == 2:
            # a second one at the other end or next to the first (their constants are independent: a failing one before a
            # holding one, and the converse, are both among the cases)
            fa2, fb2 = s.term("fa2", names, support=[]), s.term("fb2", names, support=[])
            ta = ta + [fa2] if h.ctx.choose(2, "vf2_last_a") == 0 else [fa2] + ta
            tb = tb + [fb2] if h.ctx.choose(2, "vf2_last_b") == 0 else [fb2] + tb
    return s.termlist(ta), s.termlist(tb)


def _vf_false(s, tl, beyond=False):
    """is a constraint without variables of this list violated (0 <= c with c < 0)?  beyond=True: by more than the
    property's tolerance 1e-4 (1 + |c|).  The code may call such a constraint violated only if it is (exactly), and has to
    if it is beyond the tolerance; in between (what cancelling floating-point coefficients leave: 0 <= -1.1e-16) either
    answer is within the property's numerical reading."""
    cs = [s.const(t) for t in tl.attrs["terms"].items if not s.coefs(t)]
    fs = [(c < -z3.RealVal("1/10000") * (1 - c)) if beyond else (c < 0) for c in cs]
    return z3.Or(*fs) if fs else z3.BoolVal(False)


def _with_vars(s, tl):
    return [t for t in tl.attrs["terms"].items if s.coefs(t)]


def _vec(s, order):
    return [s.pval(n) for n in order]


def _bool(r):
    return r if isinstance(r, z3.BoolRef) else z3.BoolVal(bool(r))


# ------------------------------------------------------------------------------------------------
def _refines(na, nb):
    def c(h):
        s = S(h)
        st = LPStubs(h, s)
        A, B = _lists(h, s, na, nb)
        out = h.call(h.method(A, "refines"), [B])
        h.check("C14.refines.no_exception", out.kind == "return", "raised %s at %s" % (out.exc_name, out.where))
        if out.kind != "return":
            return
        r = out.value
        cont = [x for x in st.log if x["op"] == "containment"]
        if nb == 0:
            h.check("C03.list_refines.everything_refines_no_constraints", r is True, "returned %r" % (r,))
        elif na == 0:
            # no constraint on the left, at least one (non-trivial) constraint on the right: some point violates it
            h.check("C03.list_refines.unconstrained_does_not_refine_constrained", r is False, "returned %r" % (r,))
            u = B.attrs["terms"].items[0]
            co = s.coefs(u)
            n0 = sorted(co)[0] if co else None
            if n0 is not None:
                wit = {n: z3.RealVal(0) for n in V2}
                wit[n0] = (s.const(u) + 1) / co[n0]
                h.ensure("C03.list_refines.witness_outside_right_side", z3.Not(s.holds(u, wit)))
        elif not cont:
            # decided without the containment test (a shortcut is no defect by itself): the answer is held against the
            # meaning of the two lists directly - True at most if contained (valid at the skolem point), False at most if
            # some point separates them (an existential statement: discharged or left undecided, never assumed)
            pt = {n_: z3.Real("sep_%s" % n_) for n_ in V2}
            h.ensure("C03.list_refines.true_only_if_contained", z3.Implies(_bool(r), z3.Implies(s.sat(A), s.sat(B))))
            h.ensure("C03.list_refines.false_only_if_not_contained", z3.Implies(z3.Not(_bool(r)), z3.Exists(list(pt.values()), z3.And(s.sat(A, pt), z3.Not(s.sat(B, pt))))))
        else:
            h.check("C03.list_refines.one_containment_test", len(cont) == 1 and len(st.orders) >= 1, "%d tests" % len(cont))
            if len(cont) == 1 and st.orders:
                x = _vec(s, st.orders[-1])
                h.ensure("C03.list_refines.left_matrix_means_left_list", cont[0]["L"](x) == s.sat(A))
                h.ensure("C03.list_refines.right_matrix_means_right_list", cont[0]["R"](x) == s.sat(B))
                h.ensure("C03.list_refines.result_is_test", _bool(r) == cont[0]["result"])
                h.check("C03.list_refines.all_variables_are_columns", set(st.orders[-1]) >= set().union(*[set(s.coefs(t)) for t in A.attrs["terms"].items + B.attrs["terms"].items]), "column order %s" % st.orders[-1])
        h.frame_ok(out, "C13.frame")

    return c


for _na, _nb in [(0, 0), (0, 1), (1, 0), (1, 1), (2, 1), (1, 2)]:
    contract(
        "PolyhedralTermList.refines[%d,%d]" % (_na, _nb),
        ["C03", "C13", "C14"],
        [PTL + "refines", PTL + "termlist_to_polytope", PTL + "lacks_constraints", POLY + ":PolyhedralTerm.term_to_polytope"],
        "S",
        bound=B2 + " (%d left terms, %d right terms)" % (_na, _nb),
        assumes=["contract of verify_polytope_containment (h_lp)", "A5"],
    )(_refines(_na, _nb))


# ------------------------------------------------------------------------------------------------
def _is_empty(n):
    def c(h):
        s = S(h)
        st = LPStubs(h, s)
        A, _ = _lists(h, s, n, 0)
        out = h.call(h.method(A, "is_empty"), [])
        h.check("C14.is_empty.no_exception", out.kind == "return", "raised %s at %s" % (out.exc_name, out.where))
        if out.kind != "return":
            return
        tests = [x for x in st.log if x["op"] == "is_empty"]
        if not tests:
            # decided without the emptiness test: held against the meaning of the list directly (see refines)
            pt = {n_: z3.Real("in_%s" % n_) for n_ in V2}
            h.ensure("C11.is_empty.true_only_if_empty", z3.Implies(_bool(out.value), z3.Not(s.sat(A))))
            h.ensure("C11.is_empty.false_only_if_some_point_is_inside", z3.Implies(z3.Not(_bool(out.value)), z3.Exists(list(pt.values()), s.sat(A, pt)) if n else z3.BoolVal(True)))
            h.frame_ok(out, "C13.frame")
            return
        h.check("C11.is_empty.one_emptiness_test", len(tests) == 1 and st.orders, "%d tests" % len(tests))
        if len(tests) == 1 and st.orders:
            x = _vec(s, st.orders[-1])
            h.ensure("C11.is_empty.matrix_means_list", tests[0]["set"](x) == s.sat(A))
            h.ensure("C11.is_empty.result_is_test", _bool(out.value) == _bool(tests[0]["result"]))
        h.frame_ok(out, "C13.frame")

    return c


for _n in (0, 1, 2, 3):
    contract(
        "PolyhedralTermList.is_empty[%d]" % _n,
        ["C11", "C13", "C14"],
        [PTL + "is_empty", PTL + "termlist_to_polytope"],
        "S",
        bound="%d terms over {x,y}, every support" % _n,
        assumes=["contract of is_polytope_empty (h_lp)", "A5"],
    )(_is_empty(_n))


# ------------------------------------------------------------------------------------------------
def _simplify(n, nc):
    def c(h):
        s = S(h)
        st = LPStubs(h, s)
        A, G = _lists(h, s, n, nc if nc is not None else 0)
        a_terms = list(A.attrs["terms"].items)
        snaps = [s.snapshot(t) for t in a_terms]
        args = [] if nc is None else [G]
        out = h.call(h.method(A, "simplify"), args)
        ctx_sat = s.sat(G) if nc is not None else z3.BoolVal(True)
        red = [x for x in st.log if x["op"] == "reduce"]
        if not red and out.kind == "return" and s.is_termlist(out.value):
            # a shortcut that asks for no reduction is no defect by itself (a single constraint without context cannot be
            # redundant): the postconditions are then stated on the result alone, without the callee's contract
            h.cover("return")
            R = out.value
            rts = R.attrs["terms"].items
            h.ensure("C07.simplify.equivalent_in_context", z3.Implies(ctx_sat, s.sat(R) == s.sat(A)))
            for k, t in enumerate(rts):
                h.ensure("C07.simplify.term_%d_is_an_original_term" % k, z3.Or(*[s.same_term(t, o) for o in a_terms]) if a_terms else False)
                h.ensure("C07.simplify.term_%d_invariant" % k, s.invariant(t))
                # not redundant: some point meets the other kept terms and the context and violates this one
                pt = {n_: z3.Real("nr%d_%s" % (k, n_)) for n_ in V2}
                others = z3.And(*[s.holds(rts[q], pt) for q in range(len(rts)) if q != k]) if len(rts) > 1 else z3.BoolVal(True)
                bk = s.const(t)
                margin = z3.RealVal("1/10000") * (1 + z3.If(bk >= 0, bk, -bk))
                cs = s.sat(G, pt) if nc is not None else z3.BoolVal(True)
                if len(rts) == 1 and not (nc and G.attrs["terms"].items):
                    # alone and without context: violated somewhere iff some coefficient is not zero
                    h.ensure("C07.simplify.kept_term_%d_not_redundant" % k, z3.Or(*[c != 0 for c in s.coefs(t).values()]) if s.coefs(t) else z3.BoolVal(False))
                else:
                    h.ensure("C07.simplify.kept_term_%d_not_redundant" % k, z3.Exists(list(pt.values()), z3.And(others, cs, s.lhs(t, pt) > bk - margin)))
            h.check("C13.simplify.fresh_terms", all(t is not o for t in rts for o in a_terms) and R is not A, "result shares term objects with self")
            h.check("C13.operands_unchanged", all(s.unchanged(t, sn) for t, sn in zip(a_terms, snaps)) and A.attrs["terms"].items == a_terms, "self modified")
            h.frame_ok(out, "C13.frame")
            return
        h.check("C07.simplify.one_reduction", len(red) == 1 and st.orders, "%d reductions" % len(red))
        if not (len(red) == 1 and st.orders):
            return
        rec = red[0]
        x = _vec(s, st.orders[-1])
        # what is handed to the reduction: self minus the terms that are literally in the context, and the context
        if out.kind == "raise":
            ok = out.exc_is(h.I, ValueError)
            h.check("C14.simplify.only_valueerror", ok, "raised %s" % out.exc_name)
            if ok:
                h.cover("ValueError")
                # contract of reduce_polytope: ValueError only if infeasible in context
                h.ensure("C07.simplify.valueerror_only_if_infeasible", z3.Not(z3.And(ctx_sat, s.sat(A))), hints=[z3.Not(z3.And(rec["A"](x), rec["H"](x)))])
            return
        h.cover("return")
        R = out.value
        h.check("C07.simplify.returns_termlist", s.is_termlist(R), "%r" % (R,))
        if not s.is_termlist(R):
            return
        h.ensure("C07.simplify.context_matrix_means_context", rec["H"](x) == ctx_sat)
        hint = z3.Implies(rec["H"](x), rec["Ared"](x) == rec["A"](x))  # contract of reduce_polytope at this point
        h.ensure("C07.simplify.equivalent_in_context", z3.Implies(ctx_sat, s.sat(R) == s.sat(A)), hints=[hint])
        # selection: every result term is one of the original terms (same coefficients, same constant)
        for k, t in enumerate(R.attrs["terms"].items):
            h.ensure("C07.simplify.term_%d_is_an_original_term" % k, z3.Or(*[s.same_term(t, o) for o in a_terms]) if a_terms else False)
            h.ensure("C07.simplify.term_%d_invariant" % k, s.invariant(t))
        # nothing redundant is left (witness points come from the contract of reduce_polytope)
        rts = R.attrs["terms"].items
        if len(rec.get("witnesses", [])) == len(rts):
            for k, w in enumerate(rec["witnesses"]):
                sub = dict(zip(st.orders[-1], w))
                for n_ in V2:
                    sub.setdefault(n_, z3.RealVal(0))
                others = z3.And(*[s.holds(rts[q], sub) for q in range(len(rts)) if q != k]) if len(rts) > 1 else z3.BoolVal(True)
                bk = s.const(rts[k])
                margin = z3.RealVal("1/10000") * (1 + z3.If(bk >= 0, bk, -bk))
                cs = s.sat(G, sub) if nc is not None else z3.BoolVal(True)
                h.ensure("C07.simplify.kept_term_%d_not_redundant" % k, z3.And(others, cs, s.lhs(rts[k], sub) > bk - margin))
        h.check("C13.simplify.fresh_terms", all(t is not o for t in rts for o in a_terms) and R is not A, "result shares term objects with self")
        h.check("C13.operands_unchanged", all(s.unchanged(t, sn) for t, sn in zip(a_terms, snaps)) and A.attrs["terms"].items == a_terms, "self modified")
        h.frame_ok(out, "C13.frame")

    return c


for _n, _nc in [(0, None), (1, None), (2, None), (1, 1), (2, 1), (1, 0)]:
    contract(
        "PolyhedralTermList.simplify[%d terms,%s]" % (_n, "no context" if _nc is None else "%d-term context" % _nc),
        ["C07", "C13", "C14"],
        [PTL + "simplify", PTL + "termlist_to_polytope", PTL + "polytope_to_termlist", POLY + ":PolyhedralTerm.polytope_to_term", "pacti.iocontract.iocontract:TermList.__sub__"],
        "S",
        bound=B2,
        assumes=["contract of reduce_polytope (h_lp)", "A5"],
        covers=["return"],
        shards=4 if (_n == 2 and _nc == 1) else 1,
        weight=4 if (_n == 2 and _nc == 1) else 1,
    )(_simplify(_n, _nc))


# ------------------------------------------------------------------------------------------------
# behaviours: evaluate / contains_behavior   (C11)
# ------------------------------------------------------------------------------------------------
def _behaviour(h, s, names):
    pairs = []
    for n in names:
        if h.ctx.choose(2, "assigns_" + n) == 0:
            pairs.append((n, s.real("val_" + n)))
    return s.dict_of(pairs), dict(pairs)


def _evaluate(n):
    def c(h):
        s = S(h)
        A, _ = _lists(h, s, n, 0)
        terms = list(A.attrs["terms"].items)
        snaps = [s.snapshot(t) for t in terms]
        beh, vals = _behaviour(h, s, V2 + ["w"])
        bkeys = list(beh.keys)
        out = h.call(h.method(A, "evaluate"), [beh])
        sub = {k: to_real(v) for k, v in vals.items()}
        fully = [t for t in terms if set(s.coefs(t)) <= set(vals)]
        violated = z3.Or(*[s.e(t, sub) > 0 for t in fully]) if fully else z3.BoolVal(False)
        if out.kind == "raise":
            ok = out.exc_is(h.I, ValueError)
            h.check("C14.evaluate.only_valueerror", ok, "raised %s at %s" % (out.exc_name, out.where))
            if ok:
                h.cover("ValueError")
                h.ensure("C11.evaluate.rejects_only_violated_constraints", violated)
        else:
            h.cover("return")
            h.ensure("C11.evaluate.violated_constraint_rejected", z3.Not(violated))
            R = out.value
            h.check("C11.evaluate.returns_termlist", s.is_termlist(R), "%r" % (R,))
            if s.is_termlist(R):
                # the residual list holds at b iff the original holds at b with the assigned values
                h.ensure("C11.evaluate.residual_meaning", s.sat(R) == s.sat(A, sub))
                for k, t in enumerate(R.attrs["terms"].items):
                    h.check("C11.evaluate.residual_%d_mentions_no_assigned_variable" % k, not (set(s.coefs(t)) & set(vals)), "residual term mentions %s" % sorted(set(s.coefs(t)) & set(vals)))
                h.check("C13.evaluate.fresh_terms", all(t is not o for t in R.attrs["terms"].items for o in terms), "residual shares term objects")
        h.check("C13.operands_unchanged", all(s.unchanged(t, sn) for t, sn in zip(terms, snaps)) and list(beh.keys) == bkeys, "operand modified")
        h.frame_ok(out, "C13.frame")

    return c


for _n in (0, 1, 2):
    contract(
        "PolyhedralTermList.evaluate[%d]" % _n,
        ["C11", "C13", "C14"],
        [PTL + "evaluate", POLY + ":PolyhedralTerm.substitute_variable"],
        "S",
        bound="%d terms over {x,y}; behaviours assign any subset of {x,y,w}" % _n,
        covers=["return"],
    )(_evaluate(_n))


def _contains(n):
    def c(h):
        s = S(h)
        A, _ = _lists(h, s, n, 0)
        terms = list(A.attrs["terms"].items)
        snaps = [s.snapshot(t) for t in terms]
        beh, vals = _behaviour(h, s, V2 + ["w"])
        out = h.call(h.method(A, "contains_behavior"), [beh])
        sub = {k: to_real(v) for k, v in vals.items()}
        used = set().union(*[set(s.coefs(t)) for t in terms]) if terms else set()
        unassigned = used - set(vals)
        if out.kind == "raise":
            ok = out.exc_is(h.I, ValueError)
            h.check("C14.contains_behavior.only_valueerror", ok, "raised %s at %s" % (out.exc_name, out.where))
            h.check("C11.contains_behavior.raises_only_if_unassigned", bool(unassigned), "raised although every constrained variable is assigned")
            h.cover("ValueError")
        else:
            h.cover("return")
            h.check("C11.contains_behavior.unassigned_variable_rejected", not unassigned, "returned although %s unassigned" % sorted(unassigned))
            if not unassigned:
                r = out.value
                h.ensure("C11.contains_behavior.iff_every_inequality_holds", _bool(r) == s.sat(A, sub))
        h.check("C13.operands_unchanged", all(s.unchanged(t, sn) for t, sn in zip(terms, snaps)), "operand modified")
        h.frame_ok(out, "C13.frame")

    return c


for _n in (0, 1, 2):
    contract(
        "PolyhedralTermList.contains_behavior[%d]" % _n,
        ["C11", "C13", "C14"],
        [PTL + "contains_behavior", PTL + "evaluate", POLY + ":PolyhedralTerm.substitute_variable", "pacti.iocontract.iocontract:TermList.vars"],
        "S",
        bound="%d terms over {x,y}; behaviours assign any subset of {x,y,w}" % _n,
        covers=["return"],
    )(_contains(_n))


# ------------------------------------------------------------------------------------------------
# optimisation (C12): status mapping under the ideal LP contract
# ------------------------------------------------------------------------------------------------
def _optimize(n):
    def c(h):
        s = S(h)
        A, _ = _lists(h, s, n, 0)
        terms = list(A.attrs["terms"].items)
        obj_pairs = [(nm, s.real("o_" + nm)) for nm in V2 if h.ctx.choose(2, "obj_" + nm) == 0]
        obj = s.dict_of(obj_pairs)
        maximize = h.ctx.choose(2, "maximize") == 0
        order = []
        space = {}

        def space_for(c_, A_):
            m = len(c_.data) if isinstance(c_, NArr) else len(c_.items)
            return space.setdefault(m, ExplicitSpace(h.ctx, m))

        lp = LP(h, space_for)
        lp.install()
        st_orders = []
        real = h.I.get_func(PTL + "termlist_to_polytope")

        def spy(I2, args, kwargs):
            del I2.stubs[PTL + "termlist_to_polytope"]
            try:
                r = I2.call_func(real, args, kwargs)
            finally:
                I2.stubs[PTL + "termlist_to_polytope"] = spy
            st_orders.append([v.attrs.get("_name") for v in r[0].items])
            return r

        h.I.stubs[PTL + "termlist_to_polytope"] = spy
        out = h.call(h.method(A, "optimize"), [obj, maximize])
        if n == 0:
            # no constraint at all: every valuation is a behaviour - the contract is satisfiable (never ValueError), a
            # non-zero objective is unbounded (None) and the zero objective has the value 0
            h.check("C12.optimize.no_constraints_is_not_infeasible", out.kind == "return", "raised %s at %s for a list without constraints" % (out.exc_name, out.where))
            if out.kind == "return":
                nonzero = z3.Or(*[to_real(cf) != 0 for _, cf in obj_pairs]) if obj_pairs else z3.BoolVal(False)
                if out.value is None:
                    h.cover("None")
                    h.ensure("C12.optimize.no_constraints_none_only_for_a_nonzero_objective", nonzero)
                else:
                    h.cover("value")
                    h.ensure("C12.optimize.no_constraints_value_only_for_the_zero_objective", z3.And(z3.Not(nonzero), to_real(out.value) == 0))
            h.frame_ok(out, "C13.frame")
            return
        if not lp.calls or not st_orders:
            h.check("C12.optimize.uses_one_lp", False, "no LP solved")
            return
        call = lp.calls[-1]
        names = st_orders[-1]
        odict = dict(obj_pairs)

        def objective(x):
            return z3.Sum([to_real(odict[nm]) * xi for nm, xi in zip(names, x) if nm in odict] + [z3.RealVal(0)])

        def feasible(x):
            return s.sat(A, dict(zip(names, x)))

        # every variable the objective really mentions must be a column of the LP, otherwise part of the objective is lost
        for nm, cf in odict.items():
            h.ensure("C12.optimize.objective_variable_%s_is_an_lp_column" % nm, z3.BoolVal(True) if nm in names else (to_real(cf) == 0))

        q = call.space.new_point("q")
        hints = [call.inst(q)]
        sign = -1 if maximize else 1
        if out.kind == "raise":
            ok = out.exc_is(h.I, ValueError)
            h.check("C14.optimize.only_valueerror", ok, "raised %s at %s" % (out.exc_name, out.where))
            if ok:
                h.cover("ValueError")
                h.ensure("C12.optimize.valueerror_only_if_infeasible", z3.Not(feasible(q)), hints=hints)
            return
        r = out.value
        # the LP that was solved is the right one: same feasible set, objective = +-(requested objective)
        h.ensure("C12.optimize.lp_feasible_set_is_the_list", call.feasible(q) == feasible(q))
        h.ensure("C12.optimize.lp_objective_is_requested", call.obj(q) == sign * objective(q))
        if r is None:
            h.cover("None")
            bound = s.real("M")
            y, fact = call.inst_unbounded(sign * bound) if sign == 1 else call.inst_unbounded(-bound)
            # unbounded in the requested direction over a non-empty set: beyond any bound M there is a feasible point
            better = objective(y) < bound if not maximize else objective(y) > bound
            h.ensure("C12.optimize.none_only_if_unbounded", z3.And(feasible(y), better), hints=[fact])
            h.ensure("C12.optimize.none_only_if_nonempty", feasible(call.witness))
        else:
            h.cover("value")
            x = call.witness
            val = to_real(r)
            h.ensure("C12.optimize.value_attained", z3.And(feasible(x), objective(x) == val))
            h.ensure("C12.optimize.value_is_optimal", z3.Implies(feasible(q), (objective(q) <= val) if maximize else (objective(q) >= val)), hints=hints)
        h.frame_ok(out, "C13.frame")

    return c


for _n in (0, 1, 2):
    contract(
        "PolyhedralTermList.optimize[%d]" % _n,
        ["C12", "C13", "C14"],
        [PTL + "optimize", PTL + "termlist_to_polytope"],
        "S",
        bound="%d terms over {x,y}, objective over any subset of {x,y}, both directions" % _n,
        assumes=["A4", "A5"],
        # (one constraint that mentions a variable is always satisfiable: the infeasible answer needs two)
        covers=["value", "None"] + (["ValueError"] if _n >= 2 else []),
        shards=max(1, 2 * _n),
        weight=max(1, 2 * _n),
    )(_optimize(_n))


# ------------------------------------------------------------------------------------------------
# constraints without variables (0 <= c: cancelling coefficients): set aside before any matrix is built
# ------------------------------------------------------------------------------------------------
def _refines_vf(na, nb, k=1):
    def c(h):
        s = S(h)
        st = LPStubs(h, s)
        A, B = _lists(h, s, na, nb, vf=k)
        out = h.call(h.method(A, "refines"), [B])
        h.check("C14.refines.no_exception", out.kind == "return", "raised %s at %s" % (out.exc_name, out.where))
        if out.kind != "return":
            return
        r = out.value
        cont = [x for x in st.log if x["op"] == "containment"]
        empt = [x for x in st.log if x["op"] == "is_empty"]
        p = {n: s.pval(n) for n in V2}
        fa, fb = _vf_false(s, A), _vf_false(s, B)
        fa_far, fb_far = _vf_false(s, A, beyond=True), _vf_false(s, B, beyond=True)
        # semantics at the skolem point, whatever route was taken
        if cont and st.orders:
            x = _vec(s, st.orders[-1])
            h.cover("containment_test")
            # the constant constraints are not violated beyond the tolerance (else the answer is decided by them), and the
            # matrices handed to the containment test MEAN the constraints that mention a variable
            h.ensure("C03.list_refines_vf.containment_test_only_if_no_constant_constraint_fails", z3.Not(z3.Or(fa_far, fb_far)))
            h.ensure("C03.list_refines_vf.left_matrix_means_left_list", z3.Implies(z3.Not(fa), cont[0]["L"](x) == s.sat(A)))
            h.ensure("C03.list_refines_vf.left_matrix_means_left_list_but_for_a_residue", cont[0]["L"](x) == s.sat(_with_vars(s, A)))
            h.ensure("C03.list_refines_vf.right_matrix_means_right_list", z3.Implies(z3.Not(fb), cont[0]["R"](x) == s.sat(B)))
            h.ensure("C03.list_refines_vf.right_matrix_means_right_list_but_for_a_residue", cont[0]["R"](x) == s.sat(_with_vars(s, B)))
            h.ensure("C03.list_refines_vf.result_is_test", _bool(r) == cont[0]["result"])
        else:
            h.cover("decided_without_containment_test")
            # an unsatisfiable left side refines everything; against an unsatisfiable right side only an empty left side does;
            # a right side that only has constant constraints which hold is no constraint at all
            h.ensure("C03.list_refines_vf.true_without_test_only_if_trivially_so", z3.Implies(_bool(r), z3.Or(fa, z3.And(fb, z3.Or(*[_bool(e["result"]) for e in empt]) if empt else z3.BoolVal(False)), z3.And(z3.Not(fb_far), z3.BoolVal(nb == 0)))))
            h.ensure("C03.list_refines_vf.false_without_test_only_if_right_side_constrains", z3.Implies(z3.Not(_bool(r)), z3.And(z3.Not(fa_far), z3.Or(fb, z3.BoolVal(nb > 0)))))
        h.frame_ok(out, "C13.frame")

    return c


for _na, _nb in [(0, 0), (1, 0), (0, 1), (1, 1)]:
    contract(
        "PolyhedralTermList.refines[%d,%d,plus a constraint without variables on each side]" % (_na, _nb),
        ["C03", "C13", "C14"],
        [PTL + "refines", PTL + "_split_variable_free_terms", PTL + "termlist_to_polytope", PTL + "lacks_constraints"],
        "S",
        bound=B2 + " (%d left terms, %d right terms, and one constraint 0 <= c on each side, first or last)" % (_na, _nb),
        assumes=["contract of verify_polytope_containment / is_polytope_empty (h_lp)", "A5"],
        covers=["decided_without_containment_test"] + (["containment_test"] if _na and _nb else []),
    )(_refines_vf(_na, _nb))


def _is_empty_vf(n, k=1):
    def c(h):
        s = S(h)
        st = LPStubs(h, s)
        A, _ = _lists(h, s, n, 0, vf=k)
        out = h.call(h.method(A, "is_empty"), [])
        h.check("C14.is_empty.no_exception", out.kind == "return", "raised %s at %s" % (out.exc_name, out.where))
        if out.kind != "return":
            return
        tests = [x for x in st.log if x["op"] == "is_empty"]
        fa, fa_far = _vf_false(s, A), _vf_false(s, A, beyond=True)
        if tests and st.orders:
            x = _vec(s, st.orders[-1])
            h.ensure("C11.is_empty_vf.test_only_if_no_constant_constraint_fails", z3.Not(fa_far))
            h.ensure("C11.is_empty_vf.matrix_means_list", z3.Implies(z3.Not(fa), tests[0]["set"](x) == s.sat(A)))
            h.ensure("C11.is_empty_vf.matrix_means_list_but_for_a_residue", tests[0]["set"](x) == s.sat(_with_vars(s, A)))
            h.ensure("C11.is_empty_vf.result_is_test", _bool(out.value) == _bool(tests[0]["result"]))
        else:
            # no LP: empty only if a constant constraint fails (0 <= c with c < 0), and certainly if one fails beyond the
            # tolerance; with no other term the list is the whole space
            h.ensure("C11.is_empty_vf.without_test_empty_only_if_a_constant_constraint_fails", z3.Implies(_bool(out.value), fa))
            h.ensure("C11.is_empty_vf.without_test_empty_if_a_constant_constraint_fails_beyond_tolerance", z3.Implies(fa_far, _bool(out.value)))
        h.frame_ok(out, "C13.frame")

    return c


for _n in (0, 1, 2):
    contract(
        "PolyhedralTermList.is_empty[%d,plus a constraint without variables]" % _n,
        ["C11", "C13", "C14"],
        [PTL + "is_empty", PTL + "_split_variable_free_terms", PTL + "termlist_to_polytope"],
        "S",
        bound="%d terms over {x,y}, every support, and one constraint 0 <= c, first or last" % _n,
        assumes=["contract of is_polytope_empty (h_lp)", "A5"],
    )(_is_empty_vf(_n))


contract(
    "PolyhedralTermList.refines[1,1,plus two constraints without variables on each side]",
    ["C03", "C13", "C14"],
    [PTL + "refines", PTL + "_split_variable_free_terms", PTL + "termlist_to_polytope", PTL + "lacks_constraints"],
    "S",
    bound=B2 + " (1 left term, 1 right term, and two constraints 0 <= c on each side, at either end)",
    assumes=["contract of verify_polytope_containment / is_polytope_empty (h_lp)", "A5"],
    covers=["decided_without_containment_test", "containment_test"],
)(_refines_vf(1, 1, 2))

for _n in (0, 1):
    contract(
        "PolyhedralTermList.is_empty[%d,plus two constraints without variables]" % _n,
        ["C11", "C13", "C14"],
        [PTL + "is_empty", PTL + "_split_variable_free_terms", PTL + "termlist_to_polytope"],
        "S",
        bound="%d terms over {x,y}, every support, and two constraints 0 <= c, at either end" % _n,
        assumes=["contract of is_polytope_empty (h_lp)", "A5"],
    )(_is_empty_vf(_n, 2))


# the helper itself: which terms are set aside, and what they say together
def _split_vf(n):
    def c(h):
        s = S(h)
        ts = [s.term("a%d" % i, V2) for i in range(n)]
        A = s.termlist(ts)
        snaps = [s.snapshot(t) for t in ts]
        out = h.call(h.method(A, "_split_variable_free_terms"), [])
        h.check("C14.split_variable_free.no_exception", out.kind == "return", "raised %s at %s" % (out.exc_name, out.where))
        if out.kind != "return":
            return
        h.cover("return")
        v = out.value
        items = list(v) if isinstance(v, (tuple, list)) else getattr(v, "items", None)
        ok = items is not None and len(items) == 2 and s.is_termlist(items[0])
        h.check("C07.split_variable_free.returns_list_and_flag", ok, "%r" % (v,))
        if not ok:
            return
        kept, flag = items
        want = [t for t in ts if s.coefs(t)]
        got = kept.attrs["terms"].items
        h.check("C07.split_variable_free.keeps_exactly_the_terms_with_variables_in_order", len(got) == len(want) and all(a is b or s.snapshot(a) == s.snapshot(b) for a, b in zip(got, want)), "%d kept of %d with variables" % (len(got), len(want)))
        h.ensure("C07.split_variable_free.flag_only_if_some_constant_constraint_fails", z3.Implies(_bool(flag), _vf_false(s, A)))
        h.ensure("C07.split_variable_free.flag_if_some_constant_constraint_fails_beyond_tolerance", z3.Implies(_vf_false(s, A, beyond=True), _bool(flag)))
        h.check("C13.operands_unchanged", all(s.unchanged(t, sn) for t, sn in zip(ts, snaps)) and A.attrs["terms"].items == ts, "self modified")
        h.frame_ok(out, "C13.frame")

    return c


for _n in (0, 1, 2, 3):
    contract(
        "PolyhedralTermList._split_variable_free_terms[%d]" % _n,
        ["C07", "C03", "C11", "C12", "C13", "C14"],
        [PTL + "_split_variable_free_terms"],
        "S",
        bound="%d terms over {x,y}, every support (the empty one included), arbitrary real constants" % _n,
        covers=["return"],
    )(_split_vf(_n))
