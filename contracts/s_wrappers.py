"""Contracts of the string-level constructors in pacti.contracts.polyhedral_iocontract (domain S with the parser and
the contract constructors replaced by recording stubs): `from_strings` of the plain and of the compound contract hand
over exactly the parsed constraints, in order, with the interface names turned into Vars - C09/C10 (what is parsed is
what the contract holds), C17 (assumption alternatives must be disjoint, guarantee alternatives need not be)."""
import z3

from contracts.registry import contract
from contracts.slib import S, POLY
from pyvc.core import NativeFn, Obj, PList

PIC = "pacti.contracts.polyhedral_iocontract"
SER = "pacti.terms.polyhedra.serializer:polyhedral_termlist_from_string"
NAMES = ["x", "y"]


class Parser:
    """contract of the parser at its call site: a string yields its constraints (0-2 of them here), as fresh terms"""

    def __init__(self, h, s, vary_first_only=False):
        self.h, self.s = h, s
        self.calls = []  # (string, [terms])
        self.vary_first_only = vary_first_only
        h.I.stubs[SER] = self

    def __call__(self, I, args, kwargs):
        text = args[0] if args else kwargs.get("str_rep")
        k = len(self.calls)
        n = 1 if (self.vary_first_only and k > 0) else self.h.ctx.choose(3, "parse%d.terms" % k)
        terms = [self.s.term("p%d_%d" % (k, i), NAMES, support=["x"] if i == 0 else ["x", "y"]) for i in range(n)]
        self.calls.append((text, terms))
        return PList(list(terms), self.h.ctx)


def _strings(h, name, n):
    return PList(["%s%d" % (name, i) for i in range(n)], h.ctx)


def _var_names(h, v):
    if not isinstance(v, PList):
        return None
    out = []
    for x in v.items:
        if not (isinstance(x, Obj) and x.cls.name == "Var"):
            return None
        out.append(x.attrs.get("_name"))
    return out


def _same_terms(h, s, clause, got, expected):
    """got: a PolyhedralTermList object; expected: python list of term objects"""
    ok = s.is_termlist(got)
    h.check(clause + ".is_a_constraint_list", ok, "%r" % (got,))
    if not ok:
        return
    items = got.attrs["terms"].items
    h.check(clause + ".as_many_constraints_as_parsed", len(items) == len(expected), "%d constraints for %d parsed ones" % (len(items), len(expected)))
    for i, (a, b) in enumerate(zip(items, expected)):
        h.ensure("%s.constraint_%d_is_the_parsed_one" % (clause, i), s.same_term(a, b))


@contract(
    "PolyhedralIoContract.from_strings",
    ["C09", "C10", "C14", "C13"],
    [PIC + ":PolyhedralIoContract.from_strings"],
    "S",
    bound="0-2 assumption strings and 0-2 guarantee strings, each parsed into 0-2 constraints; interface names concrete",
    assumes=["contract of the parser (C09 obligations of s_syntax / s_grammar) at its call site", "contract of IoContract.__init__ (C06)"],
    covers=["return"],
)
def c_from_strings(h):
    s = S(h)
    mod = h.I.load_module(PIC)
    cls = mod.ns["PolyhedralIoContract"]
    parser = Parser(h, s)
    na, ng = h.ctx.choose(3, "n_assumptions"), h.ctx.choose(3, "n_guarantees")
    A, G = _strings(h, "A", na), _strings(h, "G", ng)
    ins, outs = PList(["i", "j"], h.ctx), PList(["o"], h.ctx)
    simplify = h.ctx.choose(2, "simplify") == 0
    rec = {}

    def init_stub(I, args, kwargs):
        rec["args"], rec["kwargs"] = args, kwargs
        return None

    h.I.stubs[PIC + ":PolyhedralIoContract.__init__"] = init_stub
    h.I.stubs["pacti.iocontract.iocontract:IoContract.__init__"] = init_stub
    out = h.call(cls.lookup("from_strings")[0], [A, G, ins, outs, simplify])
    h.check("C14.from_strings.no_exception", out.kind == "return", "raised %s at %s" % (out.exc_name, out.where))
    if out.kind != "return":
        return
    h.cover("return")
    h.check("C10.from_strings.returns_a_contract", isinstance(out.value, Obj) and out.value.cls is cls, "%r" % (out.value,))
    h.check("C09.from_strings.every_string_parsed_once_in_order", [t for t, _ in parser.calls] == list(A.items) + list(G.items), "parsed %r" % ([t for t, _ in parser.calls],))
    kw = dict(rec.get("kwargs") or {})
    pos = list(rec.get("args") or [])[1:]
    for k, v in zip(["assumptions", "guarantees", "input_vars", "output_vars", "simplify"], pos):
        kw.setdefault(k, v)
    exp_a = [t for _, ts in parser.calls[:na] for t in ts]
    exp_g = [t for _, ts in parser.calls[na:] for t in ts]
    _same_terms(h, s, "C09.from_strings.assumptions", kw.get("assumptions"), exp_a)
    _same_terms(h, s, "C09.from_strings.guarantees", kw.get("guarantees"), exp_g)
    h.check("C10.from_strings.input_names_become_vars_in_order", _var_names(h, kw.get("input_vars")) == ["i", "j"], "%r" % (kw.get("input_vars"),))
    h.check("C10.from_strings.output_names_become_vars_in_order", _var_names(h, kw.get("output_vars")) == ["o"], "%r" % (kw.get("output_vars"),))
    h.check("C10.from_strings.simplify_flag_passed", kw.get("simplify") is simplify, "%r" % (kw.get("simplify"),))
    h.check("C13.from_strings.arguments_unchanged", A.items == ["A%d" % i for i in range(na)] and G.items == ["G%d" % i for i in range(ng)] and ins.items == ["i", "j"] and outs.items == ["o"], "argument list modified")
    h.frame_ok(out, "C13.frame")


@contract(
    "PolyhedralIoContractCompound.from_strings",
    ["C17", "C09", "C10", "C14", "C13"],
    [PIC + ":PolyhedralIoContractCompound.from_strings"],
    "S",
    bound="0-2 alternatives per side, the first of 1-2 strings, the first string parsed into 0-2 constraints (the others into one); interface names concrete",
    assumes=["contract of the parser at its call site", "contracts of NestedTermList.__init__ and IoContractCompound.__init__ (C17, domain U)"],
    covers=["return"],
)
def c_compound_from_strings(h):
    s = S(h)
    mod = h.I.load_module(PIC)
    cls = mod.ns["PolyhedralIoContractCompound"]
    nested_cls = mod.ns["NestedPolyhedra"]
    parser = Parser(h, s, vary_first_only=True)

    def side(name):
        n = h.ctx.choose(3, "n_%s" % name)
        alts = []
        for i in range(n):
            k = 1 + (h.ctx.choose(2, "%s%d.strings" % (name, i)) if i == 0 else 0)
            alts.append(_strings(h, "%s%d_" % (name, i), k))
        return PList(alts, h.ctx), [list(a.items) for a in alts]

    A, a_txt = side("A")
    G, g_txt = side("G")
    ins, outs = PList(["i"], h.ctx), PList(["o", "p"], h.ctx)
    nested, rec = [], {}

    def nested_init(I, args, kwargs):
        me = args[0]
        lst = args[1] if len(args) > 1 else kwargs.get("nested_termlist")
        force = args[2] if len(args) > 2 else kwargs.get("force_empty_intersection")
        nested.append((me, lst, force))
        return None

    def init_stub(I, args, kwargs):
        rec["args"], rec["kwargs"] = args, kwargs
        return None

    h.I.stubs[PIC + ":NestedPolyhedra.__init__"] = nested_init
    h.I.stubs[PIC + ":PolyhedralIoContractCompound.__init__"] = init_stub
    h.I.stubs["pacti.iocontract.compundiocontract:IoContractCompound.__init__"] = init_stub
    out = h.call(cls.lookup("from_strings")[0], [A, G, ins, outs])
    h.check("C14.compound_from_strings.no_exception", out.kind == "return", "raised %s at %s" % (out.exc_name, out.where))
    if out.kind != "return":
        return
    h.cover("return")
    flat = [t for alt in a_txt + g_txt for t in alt]
    h.check("C09.compound_from_strings.every_string_parsed_once_in_order", [t for t, _ in parser.calls] == flat, "parsed %r" % ([t for t, _ in parser.calls],))
    kw = dict(rec.get("kwargs") or {})
    pos = list(rec.get("args") or [])[1:]
    for k, v in zip(["assumptions", "guarantees", "input_vars", "output_vars"], pos):
        kw.setdefault(k, v)
    by_obj = {id(me): (lst, force) for me, lst, force in nested}
    k = 0
    for label, texts, must_force in (("assumptions", a_txt, True), ("guarantees", g_txt, False)):
        obj = kw.get(label)
        ok = isinstance(obj, Obj) and obj.cls is nested_cls and id(obj) in by_obj
        h.check("C17.compound_from_strings.%s_are_a_nested_list" % label, ok, "%r" % (obj,))
        if not ok:
            k += sum(len(t) for t in texts)
            continue
        lst, force = by_obj[id(obj)]
        # disjointness is demanded of assumption alternatives and only of them
        h.check("C17.compound_from_strings.%s_disjointness_%s" % (label, "demanded" if must_force else "not_demanded"), force is must_force, "force_empty_intersection=%r" % (force,))
        alts = lst.items if isinstance(lst, PList) else None
        h.check("C17.compound_from_strings.%s_one_alternative_per_group" % label, alts is not None and len(alts) == len(texts), "%r" % (lst,))
        for i, group in enumerate(texts):
            exp = [t for _, ts in parser.calls[k : k + len(group)] for t in ts]
            k += len(group)
            if alts is not None and i < len(alts):
                _same_terms(h, s, "C17.compound_from_strings.%s_alternative_%d" % (label, i), alts[i], exp)
    h.check("C10.compound_from_strings.input_names_become_vars_in_order", _var_names(h, kw.get("input_vars")) == ["i"], "%r" % (kw.get("input_vars"),))
    h.check("C10.compound_from_strings.output_names_become_vars_in_order", _var_names(h, kw.get("output_vars")) == ["o", "p"], "%r" % (kw.get("output_vars"),))
    h.frame_ok(out, "C13.frame")
