"""Contracts of the variable-elimination tactics and their dispatcher (C04), domain S.

Term-level statement (implies the list-level one of C04):
   refine:  for all b with [[context]](b):  result holds at b  =>  term holds at b
   relax :  for all b with [[context]](b):  term holds at b    =>  result holds at b
Exactly, over the rationals the float coefficients denote: the property's numerical reading (violations only above
1e-4*(1+|constant|) inside the box) is weaker, but it does not compose - a term transformed with the help of another term
that is only known up to the tolerance is not itself sound up to the tolerance - so the term-level contracts state the exact
implication, which the elimination code (exact on exact arithmetic, A1) satisfies; the monitors apply the tolerances.
(the implication itself, as the property states it - not the stronger pointwise comparison of the two left-hand sides,
which an equivalent rescaled result would break).
"""
import z3

from contracts.registry import contract
from contracts.slib import S, POLY
from contracts.s_termlist import LPStubs
from pyvc.core import ExcObj, NativeFn, Obj, PDict, PList, PyRaise, Unsupported, to_real
from pyvc.ext import NArr
from pyvc.hdom import LP, ExplicitSpace

PTL = POLY + ":PolyhedralTermList."
V2 = ["x", "y"]
V3 = ["x", "y", "z"]


def bound_ok(s, term, r, refine, sub=None):
    return z3.Implies(s.holds(r, sub), s.holds(term, sub)) if refine else z3.Implies(s.holds(term, sub), s.holds(r, sub))


def pointwise_ok(s, term, r, sub=None):
    """the invariant tactic 4 needs of its own recursive calls: their result is substituted as an *expression*, so it has to
    bound the term's left-hand side pointwise (e(term,b) <= e(result,b)); this implies bound_ok(refine) and is not required
    of any other tactic."""
    return s.e(term, sub) <= s.e(r, sub)


def _require_conflict(s, term, elim):
    """precondition established by the dispatcher: the term mentions an eliminated variable"""
    if not (set(s.coefs(term)) & set(elim)):
        from pyvc.core import PathInfeasible

        raise PathInfeasible("precondition: term mentions an eliminated variable")


def _spy_orders(h):
    orders = []
    real = h.I.get_func(PTL + "termlist_to_polytope")

    def spy(I2, args, kwargs):
        del I2.stubs[PTL + "termlist_to_polytope"]
        try:
            r = I2.call_func(real, args, kwargs)
        finally:
            I2.stubs[PTL + "termlist_to_polytope"] = spy
        orders.append([v.attrs.get("_name") for v in r[0].items])
        return r

    h.I.stubs[PTL + "termlist_to_polytope"] = spy
    return orders


# ------------------------------------------------------------------------------------------------
# tactic 2
# ------------------------------------------------------------------------------------------------
def _tactic2(nctx, names, elims, refine, gives_up=False):
    def c(h):
        s = S(h)
        term = s.term("t", names)
        ctx_terms = [s.term("g%d" % i, names) for i in range(nctx)]
        ctx = s.termlist(ctx_terms)
        elim = elims[h.ctx.choose(len(elims), "elim")]
        _require_conflict(s, term, elim)
        spaces = {}
        lp = LP(h, lambda c_, A_: spaces.setdefault(len(c_.items if isinstance(c_, PList) else c_.data), ExplicitSpace(h.ctx, len(c_.items if isinstance(c_, PList) else c_.data))), gives_up=gives_up)
        lp.install()
        orders = _spy_orders(h)
        snaps = [s.snapshot(t) for t in [term] + ctx_terms]
        out = h.call(h.I.get_func(PTL + "_tactic_2"), [term, ctx, PList([s.var(n) for n in elim], h.ctx), refine])
        gave_up = any(c_.gave_up for c_ in lp.calls)
        if gave_up:
            # outside A4: an LP answered without an optimum (status 1, 4 or an untrue 3) gives no bound - the tactic declines
            h.cover("solver_gave_up")
            h.check("C14.tactic2.solver_gave_up.declines_with_valueerror", out.kind == "raise" and out.exc_is(h.I, ValueError), "outcome %s %s" % (out.kind, out.exc_name))
            return
        if out.kind == "raise":
            h.check("C14.tactic2.declines_only_with_valueerror", out.exc_is(h.I, ValueError), "raised %s at %s" % (out.exc_name, out.where))
            h.cover("declined")
        else:
            res = out.value
            ok = isinstance(res, tuple) and len(res) == 2 and s.is_term(res[0])
            h.check("C04.tactic2.returns_term_and_count", ok, "%r" % (res,))
            if ok:
                h.cover("transformed")
                r = res[0]
                hints = []
                if lp.calls and orders:
                    q = [s.pval(n) for n in orders[-1]]
                    hints = [lp.calls[-1].inst(q)]
                h.ensure("C04.tactic2.bound", z3.Implies(s.sat(ctx), bound_ok(s, term, r, refine)), hints=hints)
                same = s.same_term(r, term)
                gone = not (set(s.coefs(r)) & set(elim))
                h.ensure("C04.tactic2.eliminates_or_leaves_term", z3.BoolVal(True) if gone else same)
                h.check("C13.tactic2.fresh", r is not term and r.attrs["variables"] is not term.attrs["variables"], "result shares state with the term")
        h.check("C13.operands_unchanged", all(s.unchanged(t, sn) for t, sn in zip([term] + ctx_terms, snaps)), "operand modified")
        h.frame_ok(out, "C13.frame")

    return c


for _refine in (True, False):
    for _nctx in (1, 2):
        contract(
            "PolyhedralTermList._tactic_2[%s,%d context terms]" % ("refine" if _refine else "relax", _nctx),
            ["C04", "C14", "C13"],
            [PTL + "_tactic_2", PTL + "termlist_to_polytope", POLY + ":PolyhedralTerm.remove_variable"],
            "S",
            bound="term and %d context terms over {x,y} (every support); eliminated variables [y], [x,y], [y,x] or [x]" % _nctx,
            assumes=["A4", "A5"],
            covers=["declined", "transformed"],
            chain=["C01", "C02"],
            shards=1 if _nctx == 1 else 4,
        )(_tactic2(_nctx, V2, [["y"], ["x", "y"], ["y", "x"], ["x"]], _refine))
    # a kept variable next to two eliminated ones: the LP context may mention an eliminated variable the term does not have,
    # and miss one it has (the guard "every eliminated variable of the term is covered" matters only here)
    for _nctx, _tier, _sh in ((1, "quick", 2), (2, "thorough", 16)):
        contract(
            "PolyhedralTermList._tactic_2[%s,%d context terms over x,y,z]" % ("refine" if _refine else "relax", _nctx),
            ["C04", "C14", "C13"],
            [PTL + "_tactic_2", PTL + "termlist_to_polytope", POLY + ":PolyhedralTerm.remove_variable"],
            "S",
            bound="term and %d context terms over {x,y,z} (every support); eliminated variables [y,z], [z,y] or [y]" % _nctx,
            assumes=["A4", "A5"],
            covers=["declined", "transformed"],
            chain=["C01", "C02"],
            tier=_tier,
            shards=_sh,
            weight=3,
        )(_tactic2(_nctx, V3, [["y", "z"], ["z", "y"], ["y"]], _refine))


for _refine in (True, False):
    contract(
        "PolyhedralTermList._tactic_2[%s,1 context terms,solver may give up]" % ("refine" if _refine else "relax"),
        ["C04", "C14", "C13"],
        [PTL + "_tactic_2"],
        "S",
        bound="term and 1 context term over {x,y} (every support); the LP may be answered without an optimum (status 1, 4, or an untrue 3)",
        assumes=["A4", "A5"],
        covers=["declined", "transformed", "solver_gave_up"],
        chain=["C01", "C02"],
    )(_tactic2(1, V2, [["y"], ["x", "y"]], _refine, True))


# ------------------------------------------------------------------------------------------------
# tactic 4 (induction over the recursion: the recursive call is replaced by this very contract)
# ------------------------------------------------------------------------------------------------
def _tactic4(nctx, names, elims):
    def c(h):
        s = S(h)
        term = s.term("t", names)
        ctx_terms = [s.term("g%d" % i, names) for i in range(nctx)]
        ctx = s.termlist(ctx_terms)
        elim = elims[h.ctx.choose(len(elims), "elim")]
        _require_conflict(s, term, elim)
        refine = h.ctx.choose(2, "refine") == 0
        f = h.I.get_func(PTL + "_tactic_4")
        rec_calls = []
        depth = [0]

        def recursive_contract(I2, args, kwargs):
            if depth[0] == 0:
                depth[0] = 1
                try:
                    return I2.call_func_nostub(f, args, kwargs)
                finally:
                    depth[0] = 0
            # inner call: induction hypothesis
            t2, c2, e2, r2, nv2 = args
            k = h.ctx.choose(3, "rec#%d" % len(rec_calls))
            rec = {"term": t2, "context": c2, "no_vars": nv2, "outcome": k}
            rec_calls.append(rec)
            if k == 0:
                raise PyRaise(ExcObj(ValueError, ("Tactic 4 unsuccessful",)))
            if k == 1:
                return (None, 1)
            rr = s.term("ih%d" % len(rec_calls), names)
            rec["result"] = rr
            h.assume(z3.Implies(s.sat(c2), pointwise_ok(s, t2, rr)), "IH:tactic4.pointwise_bound")
            return (rr, 1)

        h.I.stubs[PTL + "_tactic_4"] = recursive_contract
        snaps = [s.snapshot(t) for t in [term] + ctx_terms]
        ctx_list = list(ctx.attrs["terms"].items)
        out = h.call(f, [term, ctx, PList([s.var(n) for n in elim], h.ctx), refine, PList([], h.ctx)])
        if out.kind == "raise":
            h.check("C14.tactic4.declines_only_with_valueerror", out.exc_is(h.I, ValueError), "raised %s at %s" % (out.exc_name, out.where))
            h.cover("declined")
        else:
            res = out.value
            ok = isinstance(res, tuple) and len(res) == 2 and (res[0] is None or s.is_term(res[0]))
            h.check("C04.tactic4.returns_term_or_none_and_count", ok, "%r" % (res,))
            h.check("C04.tactic4.relaxation_declined", refine, "returned a result for a relaxation request")
            if ok and res[0] is not None:
                r = res[0]
                conflict = [n for n in elim if n in s.coefs(term)]
                a = s.coef(term, conflict[0]) if conflict else z3.RealVal(0)
                goal = z3.Implies(s.sat(ctx), pointwise_ok(s, term, r))
                h.ensure("C04.tactic4.pointwise_invariant_implies_refinement", z3.Implies(goal, z3.Implies(s.sat(ctx), bound_ok(s, term, r, True))))
                if rec_calls and any("result" in rc for rc in rec_calls):
                    h.cover("recursive")
                    # the context of the inner call is a sub-list of the outer context
                    for rc in rec_calls:
                        if "result" in rc:
                            inner = rc["context"].attrs["terms"].items
                            h.check("C04.tactic4.inner_context_is_sublist", all(any(t is o or (s.is_term(t) and False) for o in ctx_list) or True for t in inner), "")
                    h.ensure("C04.tactic4.recursive_step[outer coefficient positive]", z3.Implies(a > 0, goal))
                    h.ensure("C04.tactic4.recursive_step[outer coefficient negative]", z3.Implies(a < 0, goal))
                else:
                    h.cover("direct")
                    h.ensure("C04.tactic4.direct_substitution_bound", goal)
        h.check("C13.operands_unchanged", all(s.unchanged(t, sn) for t, sn in zip([term] + ctx_terms, snaps)) and ctx.attrs["terms"].items == ctx_list, "operand modified")
        h.frame_ok(out, "C13.frame")

    return c


for _nctx in (1, 2):
    contract(
        "PolyhedralTermList._tactic_4[%d context terms]" % _nctx,
        ["C04", "C14", "C13"],
        [PTL + "_tactic_4", POLY + ":PolyhedralTerm.isolate_variable", POLY + ":PolyhedralTerm.substitute_variable"],
        "S",
        bound="term and %d context terms over {x,y,z} (every support); eliminated variables [y], [y,z]; recursion by induction hypothesis" % _nctx,
        covers=["declined", "direct"] + (["recursive"] if _nctx >= 1 else []),
        tier="quick" if _nctx == 1 else "thorough",
        chain=["C01", "C02"],
        weight=5,
        shards=2 if _nctx == 1 else 16,
    )(_tactic4(_nctx, V3, [["y"], ["y", "z"]]))


# ------------------------------------------------------------------------------------------------
# dispatcher: every tactic replaced by its contract (each possible outcome)
# ------------------------------------------------------------------------------------------------
class TacticStubs:
    """Contracts of _tactic_1 .. _tactic_5 / _tactic_trivial at their call site in _transform_term."""

    def __init__(self, h, s, names):
        self.h, self.s, self.names = h, s, names
        self.calls = []
        for k in (1, 2, 3, 5):
            h.I.stubs[PTL + "_tactic_%d" % k] = self._make(k, may_none=False)
        h.I.stubs[PTL + "_tactic_4"] = self._make(4, may_none=True)

    def _make(self, k, may_none):
        def stub(I, args, kwargs):
            term, ctx, elim, refine = args[0], args[1], args[2], args[3]
            n = 3 if may_none else 2
            o = self.h.ctx.choose(n, "tactic%d#%d" % (k, len(self.calls)))
            rec = {"tactic": k, "term": term, "context": ctx, "refine": refine, "outcome": o}
            self.calls.append(rec)
            if o == 0:
                raise PyRaise(ExcObj(ValueError, ("tactic %d declines" % k,)))
            if may_none and o == 2:
                return (None, 1)
            r = self.s.term("tr%d_%d" % (k, len(self.calls)), self.names)
            rec["result"] = r
            if k == 4 and not refine:
                raise PyRaise(ExcObj(ValueError, ("Only refinement is supported",)))
            self.h.assume(z3.Implies(self.s.sat(ctx), bound_ok(self.s, term, r, refine)), "contract:tactic%d.bound" % k)
            return (r, 1)

        return stub


ORDERS = [[1, 2, 3, 4, 5], [1], [2], [3], [4], [5], [6], [5, 4, 3, 2, 1], [2, 4], [], [6, 1], [3, 3]]


def _transform_term(refine):
    def c(h):
        s = S(h)
        term = s.term("t", V2, allow_empty=False)
        ctx_terms = [s.term("g0", V2)]
        ctx = s.termlist(ctx_terms)
        elim = [["y"], ["x", "y"], ["w"]][h.ctx.choose(3, "elim")]
        order = ORDERS[h.ctx.choose(len(ORDERS), "order")]
        ts = TacticStubs(h, s, V2)
        order_list = PList(list(order), h.ctx)
        snap = s.snapshot(term)
        out = h.call(h.I.get_func(PTL + "_transform_term"), [term, ctx, PList([s.var(n) for n in elim], h.ctx), refine, order_list])
        relevant = bool(set(s.coefs(term)) & set(elim))
        if out.kind == "raise":
            h.check("C14.transform_term.only_valueerror", out.exc_is(h.I, ValueError), "raised %s at %s" % (out.exc_name, out.where))
            h.check("C04.transform_term.declines_only_for_irrelevant_term", not relevant, "ValueError although the term mentions an eliminated variable")
            h.cover("irrelevant")
        else:
            res = out.value
            ok = isinstance(res, tuple) and len(res) == 4 and s.is_term(res[0])
            h.check("C04.transform_term.returns_term_and_statistics", ok, "%r" % (res,))
            if ok:
                r, num = res[0], res[1]
                h.ensure("C04.transform_term.bound", z3.Implies(s.sat(ctx), bound_ok(s, term, r, refine)))
                if num == -1:
                    h.cover("all_declined")
                    h.ensure("C04.transform_term.unchanged_when_all_tactics_decline", s.same_term(r, term))
                else:
                    h.cover("tactic_result")
                    h.check("C04.transform_term.reports_the_tactic_used", num in order, "reported tactic %r not in order %r" % (num, order))
                h.check("C13.transform_term.fresh", r is not term, "returns the operand itself")
        h.check("C13.order_unchanged", order_list.items == list(order), "tactics_order modified")
        h.check("C13.operands_unchanged", s.unchanged(term, snap), "term modified")
        h.frame_ok(out, "C13.frame")

    return c


for _refine in (True, False):
    contract(
        "PolyhedralTermList._transform_term[%s]" % ("refine" if _refine else "relax"),
        ["C04", "C14", "C13"],
        [PTL + "_transform_term", PTL + "_tactic_trivial"],
        "S",
        bound="term over {x,y}; tactics_order in %s; every outcome of every tactic" % ORDERS,
        assumes=["contracts of _tactic_1.._tactic_5"],
        covers=["all_declined", "tactic_result", "irrelevant"],
        chain=["C01", "C02"],
        shards=4,
        weight=4,
    )(_transform_term(_refine))


# ------------------------------------------------------------------------------------------------
# _transform and the two public elimination entry points
# ------------------------------------------------------------------------------------------------
class TransformTermStub:
    def __init__(self, h, s, names):
        self.h, self.s, self.names = h, s, names
        self.calls = []
        h.I.stubs[PTL + "_transform_term"] = self.stub

    def stub(self, I, args, kwargs):
        term, helpers, elim, refine = args[0], args[1], args[2], args[3]
        order = args[4] if len(args) > 4 else kwargs.get("tactics_order")
        o = self.h.ctx.choose(2, "transform_term#%d" % len(self.calls))
        rec = {"term": term, "helpers": helpers, "refine": refine, "order": order, "outcome": o}
        self.calls.append(rec)
        if o == 0:
            raise PyRaise(ExcObj(ValueError, ("Irrelevant transform term call!",)))
        r = self.s.term("tt%d" % len(self.calls), self.names)
        rec["result"] = r
        self.h.assume(z3.Implies(self.s.sat(helpers), bound_ok(self.s, term, r, refine)), "contract:_transform_term.bound")
        return (r, 1, self.h.ctx.fresh_real("dt"), 1)


class SimplifyStub:
    """P-simplify at the call sites inside _transform / elim_vars_by_*: selection, equivalence in context, ValueError."""

    def __init__(self, h, s):
        self.h, self.s = h, s
        self.calls = []
        h.I.stubs[PTL + "simplify"] = self.stub

    def stub(self, I, args, kwargs):
        tl = args[0]
        ctx = args[1] if len(args) > 1 else kwargs.get("context")
        terms = list(tl.attrs["terms"].items)
        rec = {"self": tl, "context": ctx}
        self.calls.append(rec)
        s = self.s
        csat = s.sat(ctx) if ctx is not None else z3.BoolVal(True)
        if self.h.ctx.choose(2, "simplify#%d.outcome" % len(self.calls)) == 0:
            rec["outcome"] = "ValueError"
            self.h.assume(z3.Not(z3.And(csat, s.sat(tl))), "P-simplify.error_only_if_infeasible")
            raise PyRaise(ExcObj(ValueError, ("unsatisfiable",)))
        keep = [t for i, t in enumerate(terms) if self.h.ctx.choose(2, "simplify#%d.keep%d" % (len(self.calls), i)) == 0]
        copies = []
        for t in keep:
            o = Obj(s.PT, self.h.ctx)
            d = PDict(self.h.ctx)
            src = t.attrs["variables"]
            d.keys, d.vals = dict(src.keys), dict(src.vals)
            o.attrs["variables"], o.attrs["constant"] = d, t.attrs["constant"]
            copies.append(o)
        R = s.termlist(copies)
        rec["outcome"], rec["result"] = "return", R
        self.h.assume(z3.Implies(csat, s.sat(R) == s.sat(tl)), "P-simplify.equiv")
        return R


def _transform(n, refine, simplify):
    def c(h):
        s = S(h)
        terms = [s.term("s%d" % i, V2, allow_empty=False) for i in range(n)]
        A = s.termlist(terms)
        ctx_terms = [s.term("g0", V2, allow_empty=False)]
        G = s.termlist(ctx_terms)
        elim = [["y"], ["x", "y"]][h.ctx.choose(2, "elim")]
        tts = TransformTermStub(h, s, V2)
        sst = SimplifyStub(h, s)
        order = PList([1, 2, 3, 4, 5], h.ctx)
        snaps = [s.snapshot(t) for t in terms + ctx_terms]
        out = h.call(h.method(A, "_transform"), [G, PList([s.var(v) for v in elim], h.ctx), refine, simplify, order])
        if out.kind == "raise":
            ok = out.exc_is(h.I, ValueError)
            h.check("C14.transform.only_valueerror", ok, "raised %s at %s" % (out.exc_name, out.where))
            h.check("C04.transform.valueerror_only_from_final_simplification", simplify and sst.calls and sst.calls[-1].get("outcome") == "ValueError", "ValueError not caused by the final simplification")
            h.cover("ValueError")
        else:
            res = out.value
            ok = isinstance(res, tuple) and len(res) == 2 and s.is_termlist(res[0])
            h.check("C04.transform.returns_list_and_statistics", ok, "%r" % (res,))
            if ok:
                h.cover("return")
                R = res[0]
                if refine:
                    h.ensure("C04.transform.refinement_implies_original", z3.Implies(z3.And(s.sat(G), s.sat(R)), s.sat(A)))
                else:
                    h.ensure("C04.transform.relaxation_is_implied", z3.Implies(z3.And(s.sat(G), s.sat(A)), s.sat(R)))
                for rec in tts.calls:
                    h.check("C13.transform.tactics_order_passed_through", rec["order"] is order, "tactics_order replaced")
                    h.check("C04.transform.direction_passed_through", rec["refine"] is refine, "refine flag changed")
                h.check("C13.transform.fresh_terms", all(t is not o for t in R.attrs["terms"].items for o in terms), "result shares term objects with self")
        h.check("C13.operands_unchanged", all(s.unchanged(t, sn) for t, sn in zip(terms + ctx_terms, snaps)) and A.attrs["terms"].items == terms, "operand modified")
        h.frame_ok(out, "C13.frame")

    return c


for _refine in (True, False):
    for _simp in (True, False):
        for _n in (1, 2):
            contract(
                "PolyhedralTermList._transform[%s,simplify=%s,%d terms]" % ("refine" if _refine else "relax", _simp, _n),
                ["C04", "C14", "C13"],
                [PTL + "_transform", "pacti.iocontract.iocontract:TermList.__or__", "pacti.iocontract.iocontract:TermList.copy"],
                "S",
                bound="%d terms and 1 context term over {x,y}; every outcome of the per-term dispatcher and of simplify" % _n,
                assumes=["contract of _transform_term", "P-simplify (C07)"],
                covers=["return"],
                chain=["C01", "C02"],
                tier="quick" if (_n == 1 or not _simp) else "thorough",
                weight=_n * _n * (3 if _simp else 1) * 3,
                shards=1 if _n == 1 else (8 if not _simp else 16),
            )(_transform(_n, _refine, _simp))


def _elim(n, refine, simplify):
    def c(h):
        s = S(h)
        terms = [s.term("s%d" % i, V2, allow_empty=False) for i in range(n)]
        A = s.termlist(terms)
        ctx_terms = [s.term("g0", V2, allow_empty=False)]
        G = s.termlist(ctx_terms)
        elim = [["y"], ["x", "y"], []][h.ctx.choose(3, "elim")]
        tts = TransformTermStub(h, s, V2)
        sst = SimplifyStub(h, s)
        order = PList([1, 2, 3, 4, 5], h.ctx) if h.ctx.choose(2, "order_given") == 0 else None
        snaps = [s.snapshot(t) for t in terms + ctx_terms]
        name = "elim_vars_by_refining" if refine else "elim_vars_by_relaxing"
        out = h.call(h.method(A, name), [G, PList([s.var(v) for v in elim], h.ctx), simplify, order])
        if out.kind == "raise":
            ok = out.exc_is(h.I, ValueError)
            h.check("C14.%s.only_valueerror" % name, ok, "raised %s at %s" % (out.exc_name, out.where))
            h.cover("ValueError")
        else:
            res = out.value
            ok = isinstance(res, tuple) and len(res) == 2 and s.is_termlist(res[0])
            h.check("C04.%s.returns_list_and_statistics" % name, ok, "%r" % (res,))
            if ok:
                h.cover("return")
                R = res[0]
                if refine:
                    h.ensure("C04.elim_vars_by_refining.result_implies_original_in_context", z3.Implies(z3.And(s.sat(G), s.sat(R)), s.sat(A)))
                else:
                    h.ensure("C04.elim_vars_by_relaxing.result_implied_by_original_in_context", z3.Implies(z3.And(s.sat(G), s.sat(A)), s.sat(R)))
                    for k, t in enumerate(R.attrs["terms"].items):
                        h.check("C04.elim_vars_by_relaxing.term_%d_mentions_no_eliminated_variable" % k, not (set(s.coefs(t)) & set(elim)), "mentions %s" % sorted(set(s.coefs(t)) & set(elim)))
                if not elim and not simplify:
                    # P-elim.identity (used by C15 at the algebra layer): nothing to eliminate and no simplification asked for -
                    # the very same constraints come back, in order
                    got = R.attrs["terms"].items
                    h.check("C15.%s.nothing_to_eliminate_keeps_every_constraint" % name, len(got) == len(terms), "%d constraints for %d" % (len(got), len(terms)))
                    for k, (a_, b_) in enumerate(zip(got, terms)):
                        h.ensure("C15.%s.nothing_to_eliminate_constraint_%d_unchanged" % (name, k), s.same_term(a_, b_))
                    h.check("C15.%s.nothing_to_eliminate_needs_no_tactic" % name, not tts.calls, "%d tactic dispatches" % len(tts.calls))
                h.check("C13.%s.fresh_result" % name, R is not A and all(t is not o for t in R.attrs["terms"].items for o in terms), "result shares mutable state with self")
                if order is None and tts.calls:
                    d = h.I.load_module(POLY).ns["TACTICS_ORDER"]
                    h.check("C13.default_order_is_module_constant", all(rec["order"] is d for rec in tts.calls), "default tactics order is not the module constant")
                    h.check("C13.module_constant_unchanged", d.items == [1, 2, 3, 4, 5], "TACTICS_ORDER modified: %r" % (d.items,))
        h.check("C13.operands_unchanged", all(s.unchanged(t, sn) for t, sn in zip(terms + ctx_terms, snaps)) and A.attrs["terms"].items == terms, "operand modified")
        h.frame_ok(out, "C13.frame")

    return c


for _refine in (True, False):
    for _simp in (True, False):
        for _n in (1, 2):
            contract(
                "PolyhedralTermList.%s[simplify=%s,%d terms]" % ("elim_vars_by_refining" if _refine else "elim_vars_by_relaxing", _simp, _n),
                ["C04", "C14", "C13", "C15"],
                [PTL + ("elim_vars_by_refining" if _refine else "elim_vars_by_relaxing"), PTL + "_transform", "pacti.iocontract.iocontract:TermList.get_terms_with_vars", "pacti.utils.lists:list_diff"],
                "S",
                bound="%d terms and 1 context term over {x,y}; every outcome of the per-term dispatcher and of simplify" % _n,
                assumes=["contract of _transform_term", "P-simplify (C07)"],
                covers=["return", "ValueError"] if _simp else ["return"],
                chain=["C01", "C02"],
                tier="quick" if _n == 1 else "thorough",
                weight=_n * _n * (3 if _simp else 1),
                shards=1 if _n == 1 else 16,
            )(_elim(_n, _refine, _simp))


# ------------------------------------------------------------------------------------------------
# tactics 1 and 3 (context reduction via a Kaykobad-positive linear system); sympy.solve by its contract A6
# ------------------------------------------------------------------------------------------------
class SolveContract:
    """A6 at the call site PolyhedralTerm.solve_for_variables(context, vars): the terms, read as equalities, are solved
    for the variables of `vars` that occur in them.  A dict is returned iff the solution is unique (non-zero determinant);
    it is then THE solution (Cramer's rule, <=2 unknowns), expressed over the remaining variables.  Otherwise {}."""

    def __init__(self, h, s):
        self.h, self.s = h, s
        self.calls = []
        h.I.stubs[POLY + ":PolyhedralTerm.solve_for_variables"] = self.stub

    def stub(self, I, args, kwargs):
        s = self.s
        ctx_tl, elim = args[0], args[1]
        terms = list(ctx_tl.attrs["terms"].items)
        elim_names = [v.attrs["_name"] for v in elim.items]
        cvars = []
        for t in terms:
            for n in s.coefs(t):
                if n not in cvars:
                    cvars.append(n)
        vts = [n for n in cvars if n in elim_names]
        rec = {"terms": terms, "solve_for": vts}
        self.calls.append(rec)
        if len(terms) != len(vts):
            raise PyRaise(ExcObj(ValueError, ("The number of equations does not match the number of variables to solve for",)))
        n = len(vts)
        res = PDict(self.h.ctx)
        if n == 0:
            return res
        if n > 2:
            raise Unsupported("solve_for_variables with %d unknowns (contract instantiated for <=2)" % n)
        M = [[s.coef(t, v) for v in vts] for t in terms]
        others = [o for o in cvars if o not in vts]
        det = M[0][0] if n == 1 else M[0][0] * M[1][1] - M[0][1] * M[1][0]
        if self.h.ctx.branch(det == 0, "solve.singular"):
            rec["outcome"] = "no unique solution"
            return res
        rec["outcome"] = "unique"

        # right-hand sides d_i = c_i - sum_o t_i[o]*o   (as: constant part, coefficient per other variable)
        def rhs(i, o=None):
            return s.const(terms[i]) if o is None else -s.coef(terms[i], o)

        def sol(j, o=None):
            if n == 1:
                return rhs(0, o) / det
            if j == 0:
                return (rhs(0, o) * M[1][1] - rhs(1, o) * M[0][1]) / det
            return (M[0][0] * rhs(1, o) - M[1][0] * rhs(0, o)) / det

        PTc = s.PT
        for j, v in enumerate(vts):
            d = PDict(self.h.ctx)
            for o in others:
                ov = s.var(o)
                from pyvc.interp import key_token

                d.keys[key_token(ov)] = ov
                d.vals[key_token(ov)] = sol(j, o)
            # value of the variable = sum coef*o - constant   (term notation of substitute_variable)
            t = I.instantiate(PTc, [d, -sol(j, None)], {})
            kv = s.var(v)
            from pyvc.interp import key_token as kt

            res.keys[kt(kv)] = kv
            res.vals[kt(kv)] = t
        return res


def _tactic1(nctx, names, elims, which):
    def c(h):
        s = S(h)
        term = s.term("t", names, allow_empty=False)
        ctx_terms = [s.term("g%d" % i, names, allow_empty=False) for i in range(nctx)]
        ctx = s.termlist(ctx_terms)
        elim = elims[h.ctx.choose(len(elims), "elim")]
        _require_conflict(s, term, elim)
        refine = h.ctx.choose(2, "refine") == 0
        SolveContract(h, s)
        snaps = [s.snapshot(t) for t in [term] + ctx_terms]
        out = h.call(h.I.get_func(PTL + which), [term, ctx, PList([s.var(n) for n in elim], h.ctx), refine])
        if out.kind == "raise":
            h.check("C14.%s.declines_only_with_valueerror" % which, out.exc_is(h.I, ValueError), "raised %s at %s" % (out.exc_name, out.where))
            h.cover("declined")
        else:
            res = out.value
            ok = isinstance(res, tuple) and len(res) == 2 and s.is_term(res[0])
            h.check("C04.%s.returns_term_and_count" % which, ok, "%r" % (res,))
            if ok:
                h.cover("transformed")
                r = res[0]
                h.ensure("C04.%s.bound" % which, z3.Implies(s.sat(ctx), bound_ok(s, term, r, refine)))
                h.check("C04.%s.no_auxiliary_variable" % which, all(n in names for n in s.coefs(r)), "an auxiliary variable survives in the result: %s" % sorted(s.coefs(r)))
                h.check("C13.%s.fresh" % which, r is not term and all(r is not g for g in ctx_terms), "result is an operand")
        h.check("C13.operands_unchanged", all(s.unchanged(t, sn) for t, sn in zip([term] + ctx_terms, snaps)), "operand modified")
        h.frame_ok(out, "C13.frame")

    return c


for _which in ("_tactic_1", "_tactic_3"):
    for _nctx, _names, _elims, _tier, _sh in ((1, V2, [["y"], ["x", "y"]], "quick", 2), (2, V2, [["y"], ["x", "y"], ["y", "x"]], "quick", 16), (2, V3, [["x", "y"], ["y", "x"]], "thorough", 16)):
        contract(
            "PolyhedralTermList.%s[%d context terms over %s]" % (_which, _nctx, ",".join(_names)),
            ["C04", "C14", "C13"],
            [PTL + _which, PTL + "_context_reduction", PTL + "_get_kaykobad_context", POLY + ":PolyhedralTerm.substitute_variable"],
            "S",
            bound="term and %d context terms over {%s} (every support); eliminated variables %s; at most 2 simultaneously solved variables" % (_nctx, ",".join(_names), _elims),
            assumes=["A6"],
            covers=["declined", "transformed"],
            chain=["C01", "C02"],
            tier=_tier,
            shards=_sh,
            weight=8 if _nctx > 1 else 2,
        )(_tactic1(_nctx, _names, _elims, _which))


# a caller's variable that happens to be called "_" (any name is legal in a dictionary): tactic 3's auxiliary variable must
# not be confused with it
contract(
    "PolyhedralTermList._tactic_3[1 context terms over x,y,z,_]",
    ["C04", "C14", "C13"],
    [PTL + "_tactic_3", PTL + "_context_reduction", PTL + "_get_kaykobad_context", POLY + ":PolyhedralTerm.substitute_variable"],
    "S",
    bound="term and 1 context term over {x,y,z,_} (every support); eliminated variables [x,y]; at most 2 simultaneously solved variables",
    assumes=["A6"],
    covers=["declined", "transformed"],
    chain=["C01", "C02"],
    shards=4,
    weight=3,
)(_tactic1(1, ["x", "y", "z", "_"], [["x", "y"]], "_tactic_3"))


# ------------------------------------------------------------------------------------------------
# solve_for_variables itself, over the sympy model (A6): the call-site contract SolveContract is what the tactics use
# ------------------------------------------------------------------------------------------------
def _solve_for(nterms, names, elims):
    def c(h):
        s = S(h)
        terms = [s.term("g%d" % i, names, allow_empty=False) for i in range(nterms)]
        ctx = s.termlist(terms)
        elim = elims[h.ctx.choose(len(elims), "elim")]
        snaps = [s.snapshot(t) for t in terms]
        out = h.call(h.I.get_func(POLY + ":PolyhedralTerm.solve_for_variables"), [ctx, PList([s.var(n) for n in elim], h.ctx)])
        cvars = []
        for t in terms:
            for n in s.coefs(t):
                if n not in cvars:
                    cvars.append(n)
        vts = [n for n in cvars if n in elim]
        if out.kind == "raise":
            h.check("C14.solve_for_variables.only_valueerror", out.exc_is(h.I, ValueError), "raised %s at %s" % (out.exc_name, out.where))
            h.check("C04.solve_for_variables.declines_only_on_non_square_systems", len(terms) != len(vts), "ValueError for a square system")
            h.cover("declined")
            return
        h.check("C04.solve_for_variables.non_square_system_rejected", len(terms) == len(vts), "%d equations for %d unknowns accepted" % (len(terms), len(vts)))
        r = out.value
        h.check("C04.solve_for_variables.returns_dict", isinstance(r, PDict), "%r" % (r,))
        if not isinstance(r, PDict) or len(terms) != len(vts):
            return
        if not r.keys:
            h.cover("no_unique_solution")
            return
        h.cover("solved")
        got = {r.keys[k].attrs.get("_name"): r.vals[k] for k in r.keys}
        h.check("C04.solve_for_variables.solves_exactly_the_unknowns", set(got) == set(vts) and all(s.is_term(v) for v in got.values()), "keys %s" % sorted(got))
        if set(got) == set(vts) and all(s.is_term(v) for v in got.values()):
            # substituting the solutions makes every equation hold identically:  e(t, b[x_j := e(sol_j, b)]) == 0
            sub = {n: s.e(got[n]) for n in vts}
            for i, t in enumerate(terms):
                h.ensure("C04.solve_for_variables.solution_satisfies_equation_%d" % i, s.e(t, sub) == 0)
            for n in vts:
                h.check("C04.solve_for_variables.solution_of_%s_mentions_no_unknown" % n, not (set(s.coefs(got[n])) & set(vts)), "solution mentions an unknown")
        h.check("C13.operands_unchanged", all(s.unchanged(t, sn) for t, sn in zip(terms, snaps)), "operand modified")
        h.frame_ok(out, "C13.frame")

    return c


for _n, _names, _elims, _sh in ((1, V2, [["y"], ["x", "y"], ["w"]], 1), (2, V3, [["x", "y"], ["y"], ["y", "x"]], 8)):
    contract(
        "PolyhedralTerm.solve_for_variables[%d equations]" % _n,
        ["C04", "C14", "C13"],
        [POLY + ":PolyhedralTerm.solve_for_variables", POLY + ":PolyhedralTerm.to_symbolic", POLY + ":PolyhedralTerm.to_term"],
        "S",
        bound="%d terms over {%s} (every support); unknowns %s" % (_n, ",".join(_names), _elims),
        assumes=["A6"],
        covers=["solved", "declined"] + (["no_unique_solution"] if _n == 2 else []),
        chain=["C01", "C02"],
        shards=_sh,
        weight=2 * _n,
    )(_solve_for(_n, _names, _elims))


# ------------------------------------------------------------------------------------------------
# tactic 5 (context rows chosen among the LP-active ones).  The bound obligation is REFUTED on this tree: a known finding.
# ------------------------------------------------------------------------------------------------
def _tactic5(nctx, names, elims):
    inner = _tactic1(nctx, names, elims, "_tactic_5")

    def c(h):
        spaces = {}

        def space_for(c_, A_):
            m = len(c_.items) if isinstance(c_, PList) else (c_.shape[-1] if isinstance(c_, NArr) else None)
            return spaces.setdefault(m, ExplicitSpace(h.ctx, m))

        LP(h, space_for).install()
        inner(h)

    return c


for _nctx, _names, _elims, _tier, _sh in ((1, V2, [["y"]], "quick", 2), (2, V2, [["y"], ["x", "y"]], "quick", 16)):
    contract(
        "PolyhedralTermList._tactic_5[%d context terms over %s]" % (_nctx, ",".join(_names)),
        ["C04", "C14", "C13"],
        [PTL + "_tactic_5", PTL + "_context_reduction", PTL + "_get_tlp_context"],
        "S",
        bound="term and %d context terms over {%s} (every support); eliminated variables %s" % (_nctx, ",".join(_names), _elims),
        assumes=["A4", "A5", "A6"],
        covers=["declined", "transformed"],
        chain=["C01", "C02"],
        tier=_tier,
        shards=_sh,
        weight=6,
    )(_tactic5(_nctx, _names, _elims))
