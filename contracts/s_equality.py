"""Contracts of ==, hash and copy on lists and contracts (C19), domain S: concrete interface lists, symbolic terms."""
import z3

from contracts.registry import contract
from contracts.slib import S, POLY, IOC
from pyvc.core import Obj, PList, Unsupported

INS = [["x"], ["x", "y"], ["y", "x"]]
OUTS = [["z"], ["w", "z"], ["z", "w"], ["y", "z"]]  # ([x,y],[z]) and ([x],[y,z]): the same variables in the same overall order, split differently
B = "interfaces from %s x %s; assumptions 0-1 terms over {x}, guarantees 1 term over {x,z} (every support)" % (INS, OUTS)


def _b(r):
    return r if isinstance(r, z3.BoolRef) else z3.BoolVal(bool(r))


def _contract(h, s, name, cls, reverse=False, allow_empty=False):
    ins = INS[h.ctx.choose(len(INS), name + ".in")]
    outs = OUTS[h.ctx.choose(len(OUTS), name + ".out")]
    if set(ins) & set(outs):
        return None, ins, outs  # not a well-formed interface: outside the precondition
    na = h.ctx.choose(2, name + ".na")
    c = Obj(cls, h.ctx)
    c.attrs["inputvars"] = PList([s.var(v) for v in ins], h.ctx)
    c.attrs["outputvars"] = PList([s.var(v) for v in outs], h.ctx)
    # (allow_empty: an assumption may be a constraint without variables, 0 <= c - legal, and written as an empty coefficient map)
    c.attrs["a"] = s.termlist([s.term(name + "_a%d" % i, ["x"], allow_empty=allow_empty) for i in range(na)])
    c.attrs["g"] = s.termlist([s.term(name + "_g0", ["x", "z"], allow_empty=False, reverse=reverse)])
    return c, ins, outs


def _same_lists(s, A, B_):
    a, b = A.attrs["terms"].items, B_.attrs["terms"].items
    if len(a) != len(b):
        return z3.BoolVal(False)
    return z3.And(*[s.same_term(x, y) for x, y in zip(a, b)]) if a else z3.BoolVal(True)


@contract("IoContract.__eq__/__hash__", ["C19", "C14"], [IOC + ":IoContract.__eq__", IOC + ":IoContract.__hash__", IOC + ":TermList.__eq__", IOC + ":Var.__eq__", IOC + ":Var.__hash__", POLY + ":PolyhedralTermList.__hash__", POLY + ":PolyhedralTerm.__eq__", POLY + ":PolyhedralTerm.__hash__"], "S", bound=B, assumes=["A1", "A9-repr", "A9-fmt"], shards=8, weight=4)
def c_contract_eq(h):
    s = S(h)
    cls = h.I.load_module("pacti.contracts.polyhedral_iocontract").ns["PolyhedralIoContract"]
    c, ci, co = _contract(h, s, "c", cls)
    d, di, do = _contract(h, s, "d", cls, reverse=True)
    if c is None or d is None:
        return
    out = h.call(h.method(c, "__eq__"), [d])
    h.check("C14.eq.no_exception", out.kind == "return", "raised %s" % out.exc_name)
    if out.kind != "return":
        return
    spec = z3.And(z3.BoolVal(ci == di and co == do), _same_lists(s, c.attrs["a"], d.attrs["a"]), _same_lists(s, c.attrs["g"], d.attrs["g"]))
    h.ensure("C19.contract_eq.iff_all_four_fields_equal", _b(out.value) == spec)
    out2 = h.call(h.method(d, "__eq__"), [c])
    if out2.kind == "return":
        h.ensure("C19.contract_eq.symmetric", _b(out.value) == _b(out2.value))
    h1 = h.call(h.method(c, "__hash__"), [])
    h2 = h.call(h.method(d, "__hash__"), [])
    if h1.kind == "return" and h2.kind == "return":
        try:
            heq = h.I.py_eq(h1.value, h2.value)
        except Unsupported:
            heq = None
        if heq is None:
            h.ensure("C19.contract_hash.congruent", z3.Not(spec))
        else:
            h.ensure("C19.contract_hash.congruent", z3.Implies(spec, _b(heq)))
    else:
        h.check("C14.hash.no_exception", False, "hash raised")


@contract("IoContract.__eq__[foreign]", ["C14"], [IOC + ":IoContract.__eq__"], "S", bound="comparison with a non-contract")
def c_contract_eq_foreign(h):
    s = S(h)
    cls = h.I.load_module("pacti.contracts.polyhedral_iocontract").ns["PolyhedralIoContract"]
    c, _, _ = _contract(h, s, "c", cls)
    if c is None:
        return
    out = h.call(h.method(c, "__eq__"), [s.var("x")])
    h.check("C14.contract_eq.foreign_is_valueerror", out.kind == "raise" and out.exc_is(h.I, ValueError), "%r" % (out,))


@contract("PolyhedralTermList.__eq__/__hash__/copy", ["C19", "C13"], [IOC + ":TermList.__eq__", IOC + ":TermList.copy", POLY + ":PolyhedralTermList.__hash__", POLY + ":PolyhedralTermList.__init__"], "S", bound="lists of 0-2 terms over {x,y}", assumes=["A1", "A9-repr", "A9-fmt"], shards=4, weight=2)
def c_list_eq(h):
    s = S(h)
    na, nb = h.ctx.choose(3, "na"), h.ctx.choose(3, "nb")
    A = s.termlist([s.term("a%d" % i, ["x", "y"], allow_empty=False) for i in range(na)])
    Bl = s.termlist([s.term("b%d" % i, ["x", "y"], allow_empty=False, reverse=True) for i in range(nb)])
    out = h.call(h.method(A, "__eq__"), [Bl])
    if out.kind == "return":
        spec = _same_lists(s, A, Bl)
        h.ensure("C19.list_eq.iff_same_terms_in_order", _b(out.value) == spec)
        h1, h2 = h.call(h.method(A, "__hash__"), []), h.call(h.method(Bl, "__hash__"), [])
        if h1.kind == "return" and h2.kind == "return":
            try:
                heq = h.I.py_eq(h1.value, h2.value)
            except Unsupported:
                heq = None
            h.ensure("C19.list_hash.congruent", z3.Not(spec) if heq is None else z3.Implies(spec, _b(heq)))
    else:
        h.check("C14.list_eq.no_exception", False, "raised %s" % out.exc_name)
    k = h.call(h.method(A, "copy"), [])
    if k.kind == "return" and s.is_termlist(k.value):
        h.ensure("C19.list_copy.equal", _same_lists(s, k.value, A))
        h.check("C13.list_copy.fresh", k.value is not A and all(t is not o for t, o in zip(k.value.attrs["terms"].items, A.attrs["terms"].items)), "copy shares term objects")
    else:
        h.check("C19.list_copy.returns_list", False, "%r" % (k,))


PIC = "pacti.contracts.polyhedral_iocontract"


@contract(
    "PolyhedralIoContract.machine_dict_roundtrip",
    ["C10", "C13", "C14"],
    [PIC + ":PolyhedralIoContract.to_machine_dict", PIC + ":PolyhedralIoContract.from_dict", "pacti.terms.polyhedra.serializer:validate_contract_dict", "pacti.terms.polyhedra.serializer:_check_clause", "pacti.terms.polyhedra.serializer:_is_number", IOC + ":IoContract.__init__"],
    "S",
    bound=B,
    assumes=["A1"],
    shards=2,
)
def c_machine_dict(h):
    s = S(h)
    mod = h.I.load_module(PIC)
    cls = mod.ns["PolyhedralIoContract"]
    c, ci, co = _contract(h, s, "c", cls, allow_empty=True)
    if c is None:
        return
    out = h.call(h.method(c, "to_machine_dict"), [])
    h.check("C14.to_machine_dict.no_exception", out.kind == "return", "raised %s at %s" % (out.exc_name, out.where))
    if out.kind != "return":
        return
    d = out.value
    from pyvc.core import PDict

    h.check("C10.to_machine_dict.returns_dict", isinstance(d, PDict), "%r" % (d,))
    if not isinstance(d, PDict):
        return
    h.frame_ok(out, "C13.frame")
    back = h.call(h.I.getattr(cls, "from_dict"), [d], {"simplify": False})
    h.check("C10.machine_dict.from_dict_accepts_own_output", back.kind == "return", "from_dict(to_machine_dict(c)) raised %s at %s" % (back.exc_name, back.where))
    if back.kind != "return":
        return
    r = back.value
    ok = isinstance(r, Obj) and r.cls is cls and s.is_termlist(r.attrs.get("a")) and s.is_termlist(r.attrs.get("g"))
    h.check("C10.from_dict.returns_contract", ok, "%r" % (r,))
    if ok:
        names = lambda lst: [v.attrs.get("_name") for v in lst.items]
        h.check("C10.machine_dict.inputs_exact", names(r.attrs["inputvars"]) == ci, "%s" % names(r.attrs["inputvars"]))
        h.check("C10.machine_dict.outputs_exact", names(r.attrs["outputvars"]) == co, "%s" % names(r.attrs["outputvars"]))
        h.ensure("C10.machine_dict.assumptions_exact", _same_lists(s, r.attrs["a"], c.attrs["a"]))
        h.ensure("C10.machine_dict.guarantees_exact", _same_lists(s, r.attrs["g"], c.attrs["g"]))
        for k, (t, o) in enumerate(zip(r.attrs["g"].attrs["terms"].items + r.attrs["a"].attrs["terms"].items, c.attrs["g"].attrs["terms"].items + c.attrs["a"].attrs["terms"].items)):
            h.check("C10.machine_dict.same_variables_%d" % k, set(s.coefs(t)) == set(s.coefs(o)), "key sets differ")
        h.check("C13.from_dict.fresh", r.attrs["a"] is not c.attrs["a"] and r.attrs["inputvars"] is not c.attrs["inputvars"], "shares state with the original")
    h.frame_ok(back, "C13.frame_from_dict")


# ------------------------------------------------------------------------------------------------
# history: the hash of a contract after it was simplified in place
# ------------------------------------------------------------------------------------------------
@contract(
    "IoContract.__hash__[after in-place simplify]",
    ["C19", "C13", "C14"],
    [IOC + ":IoContract.__hash__", IOC + ":IoContract.simplify", IOC + ":IoContract.__init__", IOC + ":IoContract.__eq__"],
    "S",
    bound="contract built by its constructor with simplify=False: 1 assumption over {x}, 2 guarantees over {x,z}; hashed, simplified in place (every selection the simplification may return), hashed again",
    assumes=["A1", "A9-repr", "A9-fmt", "P-simplify.selection: simplification returns some of the constraints"],
    covers=["dropped", "kept"],
)
def c_hash_after_simplify(h):
    s = S(h)
    cls = h.I.load_module("pacti.contracts.polyhedral_iocontract").ns["PolyhedralIoContract"]
    a_terms = [s.term("a0", ["x"], allow_empty=False)]
    g_terms = [s.term("g0", ["x", "z"], support=["x", "z"]), s.term("g1", ["x", "z"], support=["z"])]
    ins, outs = PList([s.var("x")], h.ctx), PList([s.var("z")], h.ctx)
    made = h.call(cls, [], {"assumptions": s.termlist(a_terms), "guarantees": s.termlist(g_terms), "input_vars": ins, "output_vars": outs, "simplify": False})
    h.check("C14.constructor.no_exception", made.kind == "return", "raised %s at %s" % (made.exc_name, made.where))
    if made.kind != "return":
        return
    c = made.value
    keep = [[0, 1], [0], [1]][h.ctx.choose(3, "simplify_keeps")]

    def simplify_stub(I, args, kwargs):
        me = args[0]
        items = me.attrs["terms"].items
        return s.termlist([items[i].copy() if hasattr(items[i], "copy") else items[i] for i in keep if i < len(items)])

    h.I.stubs[POLY + ":PolyhedralTermList.simplify"] = simplify_stub
    h0 = h.call(h.method(c, "__hash__"), [])
    h.check("C14.hash.no_exception", h0.kind == "return", "hash raised %s" % h0.exc_name)
    out = h.call(h.method(c, "simplify"), [])
    h.check("C14.simplify.no_exception", out.kind == "return", "simplify raised %s at %s" % (out.exc_name, out.where))
    if out.kind != "return" or h0.kind != "return":
        return
    h.cover("kept" if len(keep) == 2 else "dropped")
    h1 = h.call(h.method(c, "__hash__"), [])
    # an equal contract that has no history: same four fields, never hashed before
    d = h.call(cls, [], {"assumptions": s.termlist([t for t in c.attrs["a"].attrs["terms"].items]), "guarantees": s.termlist([t for t in c.attrs["g"].attrs["terms"].items]), "input_vars": PList([s.var("x")], h.ctx), "output_vars": PList([s.var("z")], h.ctx), "simplify": False})
    if d.kind != "return" or h1.kind != "return":
        h.check("C14.hash.no_exception_after_simplify", False, "raised")
        return
    eq = h.call(h.method(c, "__eq__"), [d.value])
    if eq.kind == "return":
        h.ensure("C19.history.simplified_contract_equals_its_fresh_twin", _b(eq.value))
    h2 = h.call(h.method(d.value, "__hash__"), [])
    if h2.kind == "return":
        try:
            heq = h.I.py_eq(h1.value, h2.value)
        except Unsupported:
            heq = None
        h.check("C19.history.hashes_comparable", heq is not None, "hash values of unknown structure")
        if heq is not None:
            # equal objects hash equal whatever was done to them before
            h.ensure("C19.history.hash_recomputed_after_in_place_simplification", _b(heq))
