"""Contracts of the polyhedral wrappers in pacti.contracts.polyhedral_iocontract (domain U): they delegate to the
generic algebra with variable names converted to Vars and the module's default tactic order, and change nothing else."""
import z3

from contracts.registry import contract
from contracts.ulib import U, IOC
from pyvc.absdom import AList, NameS, Opaque, _b
from pyvc.core import Obj, PList

PIC = "pacti.contracts.polyhedral_iocontract"


def _setup(h):
    u = U(h)
    mod = h.I.load_module(PIC)
    cls = mod.ns["PolyhedralIoContract"]
    return u, mod, cls


def _names_list(u, name):
    """a list of variable NAMES (strings) of unknown length"""
    mem = z3.Function(u.ctx.fresh_name("in_" + name), NameS, z3.BoolSort())
    return AList(u.I, NameS, lambda e: mem(e), lambda e: z3.BoolVal(False), lambda e: e)


def _delegation(method, generic, takes_names):
    def c(h):
        u, mod, cls = _setup(h)
        c1, c2 = u.contract("c1", cls), u.contract("c2", cls)
        arg_kind = h.ctx.choose(2, "arg_none")
        order_kind = h.ctx.choose(2, "order_none") if method.endswith("_tactics") else 0
        lst = None if arg_kind == 0 else (_names_list(u, "names") if takes_names else u.varlist("vars"))
        order = None if order_kind == 0 else Opaque("tactics_order")
        simplify = h.ctx.choose(2, "simplify") == 0
        rec = {}
        sentinel = Opaque("generic-result")

        def stub(I, args, kwargs):
            rec["args"], rec["kwargs"] = args, kwargs
            return sentinel

        h.I.stubs[IOC + ":IoContract." + generic] = stub
        args = [c2, lst, simplify] + ([order] if method.endswith("_tactics") else [])
        out = h.call(h.method(c1, method), args)
        h.check("C14.%s.no_exception" % method, out.kind == "return", "raised %s at %s" % (out.exc_name, out.where))
        if out.kind != "return":
            return
        h.check("C01.%s.returns_generic_result" % method, out.value is sentinel, "returned %r" % (out.value,))
        a = rec.get("args")
        h.check("C01.%s.delegates_once" % method, a is not None, "generic operation not called")
        if a is None:
            return
        h.check("C01.%s.operands_passed_through" % method, a[0] is c1 and a[1] is c2, "operands changed")
        got_list = a[2] if len(a) > 2 else rec["kwargs"].get("vars_to_keep", rec["kwargs"].get("additional_inputs"))
        if lst is None:
            empty = got_list is None or (isinstance(got_list, PList) and not got_list.items)
            h.check("C06.%s.none_means_no_variables" % method, empty, "None was turned into %r" % (got_list,))
        else:
            ok = isinstance(got_list, (AList, PList))
            h.check("C06.%s.variable_list_is_a_list" % method, ok, "%r" % (got_list,))
            if ok:
                h.ensure("C06.%s.same_variables" % method, u.seteq(u.mem(got_list), lst.mem))
        got_simplify = a[3] if len(a) > 3 else rec["kwargs"].get("simplify")
        h.check("C01.%s.simplify_passed_through" % method, got_simplify is simplify, "simplify=%r" % (got_simplify,))
        if method.endswith("_tactics"):
            got_order = a[4] if len(a) > 4 else rec["kwargs"].get("tactics_order")
            default = mod.ns["TACTICS_ORDER"]
            if order is None:
                h.check("C13.%s.default_order_is_module_constant" % method, got_order is default, "default tactic order is %r" % (got_order,))
                h.check("C13.%s.module_constant_unchanged" % method, isinstance(default, PList) and default.items == [1, 2, 3, 4, 5], "TACTICS_ORDER = %r" % (getattr(default, "items", default),))
            else:
                h.check("C13.%s.order_passed_through" % method, got_order is order, "tactic order replaced")
        h.frame_ok(out, "C13.frame")

    return c


for _m, _g, _names in (("compose", "compose", True), ("compose_tactics", "compose_tactics", True), ("quotient", "quotient", False), ("quotient_tactics", "quotient_tactics", False)):
    contract(
        "PolyhedralIoContract.%s[delegation]" % _m,
        ["C01" if "compose" in _m else "C02", "C06", "C13", "C14"],
        [PIC + ":PolyhedralIoContract." + _m],
        "U",
        assumes=["contract of IoContract.%s (proved by the algebra-layer obligations)" % _g],
    )(_delegation(_m, _g, _names))


@contract("PolyhedralIoContract.rename_variables", ["C16", "C13", "C14"], [PIC + ":PolyhedralIoContract.rename_variables"], "U", bound="0-3 mappings", assumes=["contract of IoContract.rename_variable / copy (proved in domain U)"])
def c_rename_variables(h):
    u, mod, cls = _setup(h)
    c = u.contract("c", cls)
    n = h.ctx.choose(4, "n")
    maps = [(u.ctx.fresh(NameS, "s%d" % i), u.ctx.fresh(NameS, "t%d" % i)) for i in range(n)]
    pl = PList([(a, b) for a, b in maps], h.ctx)
    log = []

    def copy_stub(I, args, kwargs):
        r = Obj(cls, h.ctx)  # an opaque contract object: only its identity matters here
        log.append(("copy", args[0], r))
        return r

    def ren_stub(I, args, kwargs):
        r = Obj(cls, h.ctx)
        log.append(("rename", args[0], args[1], args[2], r))
        return r

    h.I.stubs[IOC + ":IoContract.copy"] = copy_stub
    h.I.stubs[IOC + ":IoContract.rename_variable"] = ren_stub
    out = h.call(h.method(c, "rename_variables"), [pl])
    h.check("C14.rename_variables.no_exception", out.kind == "return", "raised %s at %s" % (out.exc_name, out.where))
    if out.kind != "return":
        return
    # mappings are applied in order, each to the result of the previous one, starting from a copy
    ok = len(log) == n + 1 and log[0][0] == "copy" and log[0][1] is c
    h.check("C16.rename_variables.starts_from_a_copy_and_applies_each_mapping_once", ok, "calls: %s" % [x[0] for x in log])
    if ok:
        cur = log[0][2]
        for i, (a, b) in enumerate(maps):
            e = log[i + 1]
            good = e[0] == "rename" and e[1] is cur and isinstance(e[2], Obj) and isinstance(e[3], Obj)
            h.check("C16.rename_variables.mapping_%d_applied_to_previous_result" % i, good, "%r" % (e[:2],))
            if good:
                h.ensure("C16.rename_variables.mapping_%d_source_and_target" % i, z3.And(e[2].attrs["_name"] == a, e[3].attrs["_name"] == b))
                cur = e[4]
        h.check("C16.rename_variables.returns_last_result", out.value is cur, "returned %r" % (out.value,))
    h.check("C13.rename_variables.result_is_not_the_operand", out.value is not c, "the operand itself is returned")
    h.check("C13.mapping_list_unchanged", len(pl.items) == n, "mapping list modified")
    h.frame_ok(out, "C13.frame")


# ------------------------------------------------------------------------------------------------
# optimisation wrappers (C12): objective parsed from "<expr> <= 0", optimised over assumptions AND guarantees
# ------------------------------------------------------------------------------------------------
@contract("PolyhedralIoContract.optimize[delegation]", ["C12", "C13", "C14"], [PIC + ":PolyhedralIoContract.optimize"], "U", assumes=["contract of the parser (C09) and of PolyhedralTermList.optimize (C12, domain S)"])
def c_optimize_wrapper(h):
    u, mod, cls = _setup(h)
    c = u.contract("c", cls)
    maximize = h.ctx.choose(2, "maximize") == 0
    rec = {}
    parsed_vars = u.varlist("objective_variables")  # the parsed objective, as the collection of its variables
    result = Opaque("optimum")

    def parse_stub(I, args, kwargs):
        rec["parsed"] = args[0]
        t = Obj(mod.ns["PolyhedralTerm"], h.ctx)
        t.attrs["variables"] = parsed_vars
        t.attrs["constant"] = 0.0
        return PList([t], h.ctx)

    def opt_stub(I, args, kwargs):
        rec["opt_self"] = args[0]
        rec["objective"] = kwargs.get("objective", args[1] if len(args) > 1 else None)
        rec["maximize"] = kwargs.get("maximize", args[2] if len(args) > 2 else None)
        return result

    h.I.stubs["pacti.terms.polyhedra.serializer:polyhedral_termlist_from_string"] = parse_stub
    u.AbsTL.ns["optimize"] = NativeFn_opt(opt_stub)
    out = h.call(h.method(c, "optimize"), ["EXPR", maximize])
    h.check("C14.optimize_wrapper.no_exception", out.kind == "return", "raised %s at %s" % (out.exc_name, out.where))
    if out.kind != "return":
        return
    h.check("C12.optimize_wrapper.objective_is_parsed_as_expr_leq_0", rec.get("parsed") == "EXPR <= 0", "parsed %r" % (rec.get("parsed"),))
    h.check("C12.optimize_wrapper.objective_coefficients_passed", rec.get("objective") is parsed_vars, "objective %r" % (rec.get("objective"),))
    h.check("C12.optimize_wrapper.direction_passed", rec.get("maximize") is maximize, "maximize=%r" % (rec.get("maximize"),))
    h.check("C12.optimize_wrapper.returns_list_optimum", out.value is result, "returned %r" % (out.value,))
    s_ = rec.get("opt_self")
    ok = isinstance(s_, Obj) and "terms" in s_.attrs
    h.check("C12.optimize_wrapper.optimises_a_constraint_list", ok, "%r" % (s_,))
    if ok:
        # over all behaviours satisfying assumptions AND guarantees
        h.ensure("C12.optimize_wrapper.feasible_set_is_assumptions_and_guarantees", u.sat(s_) == z3.And(u.sat(c.attrs["a"]), u.sat(c.attrs["g"])))
    h.frame_ok(out, "C13.frame")


def NativeFn_opt(fn):
    from pyvc.core import NativeFn

    return NativeFn("optimize", fn)


@contract("PolyhedralIoContract.get_variable_bounds", ["C12"], [PIC + ":PolyhedralIoContract.get_variable_bounds"], "U", assumes=["contract of PolyhedralIoContract.optimize"])
def c_bounds(h):
    u, mod, cls = _setup(h)
    c = u.contract("c", cls)
    calls = []

    def stub(I, args, kwargs):
        mx = kwargs.get("maximize", args[2] if len(args) > 2 else True)
        r = Opaque("max" if mx else "min")
        calls.append((args[1], mx, r))
        return r

    h.I.stubs[PIC + ":PolyhedralIoContract.optimize"] = stub
    out = h.call(h.method(c, "get_variable_bounds"), ["v"])
    h.check("C14.bounds.no_exception", out.kind == "return", "raised %s" % out.exc_name)
    if out.kind == "return":
        r = out.value
        ok = isinstance(r, tuple) and len(r) == 2
        h.check("C12.bounds.returns_pair", ok, "%r" % (r,))
        mins = [x for x in calls if x[1] is False and x[0] == "v"]
        maxs = [x for x in calls if x[1] is True and x[0] == "v"]
        h.check("C12.bounds.one_minimisation_one_maximisation_of_the_variable", len(mins) == 1 and len(maxs) == 1 and len(calls) == 2, "calls %r" % ([(a, b) for a, b, _ in calls],))
        if ok and len(mins) == 1 and len(maxs) == 1:
            h.check("C12.bounds.minimum_first_maximum_second", r[0] is mins[0][2] and r[1] is maxs[0][2], "order of the pair is wrong")
