"""Contracts of PolyhedralTerm (domain S: concrete variable names, symbolic real coefficients, all supports)."""
import z3

from contracts.registry import contract
from contracts.slib import S, POLY
from pyvc.core import Obj, PDict, PList, Unsupported, to_real

V3 = ["x", "y", "z"]
BOUND = "terms over the variable names {x,y,z} (every support), coefficients and constants arbitrary reals"
PT = POLY + ":PolyhedralTerm."


def _ret(h, out, clause="no_exception"):
    h.check(clause, out.kind == "return", "raised %s at line %s" % (out.exc_name, out.where))
    return out.kind == "return"


def _bool(r):
    return r if isinstance(r, z3.BoolRef) else z3.BoolVal(bool(r))


# ------------------------------------------------------------------------------------------------
@contract("PolyhedralTerm.__init__", ["C19", "C13", "C14", "C16"], [PT + "__init__"], "S", bound=BOUND)
def c_init(h):
    s = S(h)
    # argument dictionary: any subset of keys, values arbitrary (zero allowed); optionally one str key
    pairs = []
    for n in V3:
        if h.ctx.choose(2, "has_" + n) == 0:
            pairs.append((n, s.real("a_" + n)))
    strkey = h.ctx.choose(2, "strkey") == 0
    d = s.dict_of(pairs)
    sval = None
    if strkey:
        sval = s.real("a_str")
        d.keys[("py", "k")] = "k"
        d.vals[("py", "k")] = sval
    c = s.real("c")
    before = (list(d.keys), dict(d.vals))
    out = h.call(s.PT, [d, c])
    if strkey:
        if out.kind == "raise":
            h.check("C14.init.str_key_is_valueerror", out.exc_is(h.I, ValueError), "raised %s" % out.exc_name)
            h.ensure("init.str_key_rejected_only_if_nonzero", sval != 0)
        else:
            h.ensure("init.nonzero_str_key_rejected", sval == 0)
    else:
        _ret(h, out)
    if out.kind == "return":
        t = out.value
        h.check("init.returns_term", s.is_term(t), "%r" % (t,))
        if s.is_term(t):
            co = s.coefs(t)
            given = dict(pairs)
            h.ensure("init.invariant_no_zero_coefficient", s.invariant(t))
            for n in V3:
                g = to_real(given[n]) if n in given else z3.RealVal(0)
                h.ensure("init.coefficient_%s" % n, co.get(n, z3.RealVal(0)) == g)
            h.check("init.no_extra_keys", set(co) <= set(V3), "keys %s" % sorted(co))
            h.ensure("init.constant", s.const(t) == c)
            h.check("C13.init.fresh_dict", t.attrs["variables"] is not d, "stores the caller's dict")
    h.check("C13.init.argument_unchanged", (list(d.keys), dict(d.vals)) == before, "argument dict modified")
    h.frame_ok(out, "C13.frame")


@contract("PolyhedralTerm.copy", ["C19", "C13"], [PT + "copy", PT + "__init__"], "S", bound=BOUND)
def c_copy(h):
    s = S(h)
    t = s.term("t", V3)
    snap = s.snapshot(t)
    out = h.call(h.method(t, "copy"), [])
    if _ret(h, out):
        r = out.value
        h.check("copy.returns_term", s.is_term(r), "%r" % (r,))
        if s.is_term(r):
            h.ensure("C19.copy.equal", s.same_term(r, t))
            h.ensure("copy.invariant", s.invariant(r))
            h.check("C13.copy.fresh", r is not t and r.attrs["variables"] is not t.attrs["variables"], "copy shares state")
            h.check("C19.copy.same_keys", set(s.coefs(r)) == set(s.coefs(t)), "keys differ")
    h.check("C13.operand_unchanged", s.unchanged(t, snap), "operand modified")
    h.frame_ok(out, "C13.frame")


@contract("PolyhedralTerm.__eq__", ["C19", "C14"], [PT + "__eq__"], "S", bound=BOUND, assumes=["A1", "A5"])
def c_eq(h):
    s = S(h)
    a, b = s.term("a", V3), s.term("b", V3)
    out = h.call(h.method(a, "__eq__"), [b])
    if _ret(h, out):
        h.ensure("C19.eq.iff_same_coefficients_and_constant", _bool(out.value) == s.same_term(a, b))
    h.frame_ok(out, "C13.frame")
    # symmetric call gives the same answer
    out2 = h.call(h.method(b, "__eq__"), [a])
    if out.kind == "return" and out2.kind == "return":
        h.ensure("C19.eq.symmetric", _bool(out.value) == _bool(out2.value))


@contract("PolyhedralTerm.__eq__[foreign]", ["C14"], [PT + "__eq__"], "S", bound="comparison with a non-term")
def c_eq_foreign(h):
    s = S(h)
    a = s.term("a", ["x"])
    out = h.call(h.method(a, "__eq__"), [s.var("x")])
    h.check("C14.eq.foreign_is_valueerror", out.kind == "raise" and out.exc_is(h.I, ValueError), "outcome %r" % (out,))


@contract("PolyhedralTerm.__hash__", ["C19"], [PT + "__hash__", PT + "__str__"], "S", bound=BOUND, assumes=["A1", "A9-repr"])
def c_hash(h):
    s = S(h)
    # equal terms may have had their coefficient dictionaries populated in different orders
    a, b = s.term("a", V3), s.term("b", V3, reverse=h.ctx.choose(2, "b_reversed") == 0)
    oa = h.call(h.method(a, "__hash__"), [])
    ob = h.call(h.method(b, "__hash__"), [])
    if _ret(h, oa) and _ret(h, ob):
        same = s.same_term(a, b)
        try:
            heq = h.I.py_eq(oa.value, ob.value)
        except Unsupported:
            # different key sets -> strings of different shape; then the terms cannot be equal
            heq = None
        if heq is None:
            h.ensure("C19.hash.congruent", z3.Not(same))
        else:
            h.ensure("C19.hash.congruent", z3.Implies(same, _bool(heq)))
    h.frame_ok(oa, "C13.frame")


@contract("PolyhedralTerm.__add__", ["C04", "C16", "C13"], [PT + "__add__", PT + "get_coefficient", PT + "contains_var", PT + "vars", "pacti.utils.lists:list_union"], "S", bound=BOUND)
def c_add(h):
    s = S(h)
    a, b = s.term("a", V3), s.term("b", V3)
    sa, sb = s.snapshot(a), s.snapshot(b)
    out = h.call(h.method(a, "__add__"), [b])
    if _ret(h, out):
        r = out.value
        h.check("add.returns_term", s.is_term(r), "%r" % (r,))
        if s.is_term(r):
            h.ensure("add.meaning", s.e(r) == s.e(a) + s.e(b))
            for n in V3:
                h.ensure("add.coefficient_%s" % n, s.coef(r, n) == s.coef(a, n) + s.coef(b, n))
            h.ensure("add.constant", s.const(r) == s.const(a) + s.const(b))
            h.ensure("add.invariant", s.invariant(r))
            h.check("C13.add.fresh", r.attrs["variables"] is not a.attrs["variables"] and r.attrs["variables"] is not b.attrs["variables"], "shares dict")
    h.check("C13.operands_unchanged", s.unchanged(a, sa) and s.unchanged(b, sb), "operand modified")
    h.frame_ok(out, "C13.frame")


@contract("PolyhedralTerm.multiply", ["C04", "C13"], [PT + "multiply"], "S", bound=BOUND)
def c_multiply(h):
    s = S(h)
    a = s.term("a", V3)
    k = s.real("k")
    sa = s.snapshot(a)
    out = h.call(h.method(a, "multiply"), [k])
    if _ret(h, out):
        r = out.value
        h.check("multiply.returns_term", s.is_term(r), "%r" % (r,))
        if s.is_term(r):
            h.ensure("multiply.meaning", s.e(r) == k * s.e(a))
            for n in V3:
                h.ensure("multiply.coefficient_%s" % n, s.coef(r, n) == k * s.coef(a, n))
            h.ensure("multiply.constant", s.const(r) == k * s.const(a))
            h.ensure("multiply.invariant", s.invariant(r))
    h.check("C13.operand_unchanged", s.unchanged(a, sa), "operand modified")
    h.frame_ok(out, "C13.frame")


@contract("PolyhedralTerm.remove_variable", ["C04", "C16", "C13"], [PT + "remove_variable", PT + "contains_var", PT + "copy"], "S", bound=BOUND)
def c_remove(h):
    s = S(h)
    a = s.term("a", V3)
    x = V3[h.ctx.choose(3, "which")]
    sa = s.snapshot(a)
    out = h.call(h.method(a, "remove_variable"), [s.var(x)])
    if _ret(h, out):
        r = out.value
        h.check("remove.returns_term", s.is_term(r), "%r" % (r,))
        if s.is_term(r):
            for n in V3:
                h.ensure("remove.coefficient_%s" % n, s.coef(r, n) == (z3.RealVal(0) if n == x else s.coef(a, n)))
            h.ensure("remove.constant", s.const(r) == s.const(a))
            h.check("remove.variable_gone", x not in s.coefs(r), "still a key")
            h.check("C13.remove.fresh", r is not a and r.attrs["variables"] is not a.attrs["variables"], "shares state")
    h.check("C13.operand_unchanged", s.unchanged(a, sa), "operand modified")
    h.frame_ok(out, "C13.frame")


@contract(
    "PolyhedralTerm.rename_variable",
    ["C16", "C13"],
    [PT + "rename_variable", PT + "remove_variable", PT + "copy", PT + "vars"],
    "S",
    bound=BOUND + "; source and target range over {x,y,z,w}, source == target included (TermList.rename_variable forwards it unguarded)",
)
def c_rename(h):
    s = S(h)
    a = s.term("a", V3)
    names = V3 + ["w"]
    src = names[h.ctx.choose(4, "src")]
    tgt = names[h.ctx.choose(4, "tgt")]
    sa = s.snapshot(a)
    out = h.call(h.method(a, "rename_variable"), [s.var(src), s.var(tgt)])
    if _ret(h, out):
        r = out.value
        h.check("rename.returns_term", s.is_term(r), "%r" % (r,))
        if s.is_term(r) and src == tgt:
            # renaming a variable to itself changes nothing
            h.ensure("C16.term.rename_to_itself_is_the_identity", s.same_term(r, a))
            h.check("C13.rename.fresh", r is not a and r.attrs["variables"] is not a.attrs["variables"], "shares state")
        elif s.is_term(r):
            # a behaviour satisfies the renamed term iff the renamed behaviour (source takes the target's value) satisfied the original
            h.ensure("C16.term.rename_meaning", s.e(r) == s.e(a, {src: s.pval(tgt)}))
            h.check("C16.term.source_gone", src not in s.coefs(r), "source still a key")
            h.ensure("C16.term.coefficients_added", s.coef(r, tgt) == s.coef(a, tgt) + s.coef(a, src))
            h.ensure("C16.term.constant_kept", s.const(r) == s.const(a))
            h.ensure("rename.invariant", s.invariant(r))
            h.check("C13.rename.fresh", r is not a and r.attrs["variables"] is not a.attrs["variables"], "shares state")
    h.check("C13.operand_unchanged", s.unchanged(a, sa), "operand modified")
    h.frame_ok(out, "C13.frame")


@contract(
    "PolyhedralTerm.substitute_variable",
    ["C04", "C11", "C13"],
    [PT + "substitute_variable", PT + "multiply", PT + "remove_variable", PT + "__add__", PT + "get_coefficient"],
    "S",
    bound=BOUND,
)
def c_substitute(h):
    s = S(h)
    a, sub = s.term("a", V3), s.term("s", V3)
    x = V3[h.ctx.choose(3, "which")]
    sa, ss = s.snapshot(a), s.snapshot(sub)
    out = h.call(h.method(a, "substitute_variable"), [s.var(x), sub])
    if _ret(h, out):
        r = out.value
        h.check("substitute.returns_term", s.is_term(r), "%r" % (r,))
        if s.is_term(r):
            # the substituting term is read as the equality  x = e(sub, b)
            h.ensure("substitute.meaning", s.e(r) == s.e(a) + s.coef(a, x) * (s.e(sub) - s.pval(x)))
            h.ensure("substitute.invariant", s.invariant(r))
            h.check("C13.substitute.fresh", r is not a and r is not sub and r.attrs["variables"] is not a.attrs["variables"], "shares state")
    h.check("C13.operands_unchanged", s.unchanged(a, sa) and s.unchanged(sub, ss), "operand modified")
    h.frame_ok(out, "C13.frame")


@contract("PolyhedralTerm.isolate_variable", ["C04", "C14"], [PT + "isolate_variable", PT + "get_coefficient", PT + "vars"], "S", bound=BOUND)
def c_isolate(h):
    s = S(h)
    a = s.term("a", V3)
    x = V3[h.ctx.choose(3, "which")]
    sa = s.snapshot(a)
    out = h.call(h.method(a, "isolate_variable"), [s.var(x)])
    present = x in s.coefs(a)
    if out.kind == "raise":
        h.check("C14.isolate.only_valueerror", out.exc_is(h.I, ValueError), "raised %s" % out.exc_name)
        h.check("isolate.raises_only_if_absent", not present, "raised although the variable is present")
    else:
        h.check("isolate.absent_variable_rejected", present, "returned although the variable is absent")
        r = out.value
        h.check("isolate.returns_term", s.is_term(r), "%r" % (r,))
        if s.is_term(r) and present:
            # reading the term as an equality e(a,b) = 0, the variable equals the value of the result:  b(x) = e(r, b)
            h.ensure("C04.isolate.solves_equality", z3.Implies(s.e(a) == 0, s.pval(x) == s.e(r)))
            h.check("isolate.variable_gone", x not in s.coefs(r), "isolated variable still present")
    h.check("C13.operand_unchanged", s.unchanged(a, sa), "operand modified")
    h.frame_ok(out, "C13.frame")


@contract("PolyhedralTerm.accessors", ["C04", "C14"], [PT + "get_coefficient", PT + "contains_var", PT + "vars", PT + "get_polarity", PT + "get_sign"], "S", bound=BOUND)
def c_accessors(h):
    s = S(h)
    a = s.term("a", V3)
    x = V3[h.ctx.choose(3, "which")]
    present = x in s.coefs(a)
    o1 = h.call(h.method(a, "get_coefficient"), [s.var(x)])
    if _ret(h, o1, "get_coefficient.no_exception"):
        h.ensure("get_coefficient.value", to_real(o1.value) == s.coef(a, x))
    o2 = h.call(h.method(a, "contains_var"), [s.var(x)])
    if _ret(h, o2, "contains_var.no_exception"):
        h.ensure("contains_var.iff_nonzero", _bool(o2.value) == (s.coef(a, x) != 0))
    h.ctx.epoch += 1
    vs = h.I.getattr(a, "vars")
    ok = isinstance(vs, PList) and all(isinstance(v, Obj) for v in vs.items)
    h.check("vars.returns_list", ok, "%r" % (vs,))
    if ok:
        names = [v.attrs["_name"] for v in vs.items]
        h.check("vars.duplicate_free", len(names) == len(set(names)), "%s" % names)
        h.check("vars.exactly_nonzero_coefficients", set(names) == set(s.coefs(a)), "%s" % names)
    # also for a variable the term does not mention: its coefficient is zero, which has sign +1 and either polarity (the
    # contract had required the variable to be present, as the call sites do; the methods are public and documented for zero)
    o3 = h.call(h.method(a, "get_sign"), [s.var(x)])
    if _ret(h, o3, "C14.get_sign.no_exception"):
        h.ensure("get_sign.value", to_real(o3.value) == z3.If(s.coef(a, x) >= 0, z3.RealVal(1), z3.RealVal(-1)))
    pol = h.ctx.choose(2, "pol") == 0
    o4 = h.call(h.method(a, "get_polarity"), [s.var(x), pol])
    if _ret(h, o4, "C14.get_polarity.no_exception"):
        h.ensure("get_polarity.value", _bool(o4.value) == ((s.coef(a, x) >= 0) if pol else (s.coef(a, x) <= 0)))


@contract("PolyhedralTerm.term_to_polytope", ["C03", "C07", "C13"], [PT + "term_to_polytope", PT + "polytope_to_term"], "S", bound=BOUND + "; variable orders: permutations of {x,y,z} prefixes")
def c_to_polytope(h):
    s = S(h)
    a = s.term("a", V3)
    orders = [["x", "y", "z"], ["z", "x", "y"], ["y"], ["w", "x", "z", "y"], []]
    order = orders[h.ctx.choose(len(orders), "order")]
    vl = PList([s.var(n) for n in order], h.ctx)
    f = h.I.get_func(PT + "term_to_polytope")
    out = h.call(f, [a, vl])
    if _ret(h, out):
        r = out.value
        ok = isinstance(r, tuple) and len(r) == 2 and isinstance(r[0], PList) and len(r[0].items) == len(order)
        h.check("to_polytope.shape", ok, "%r" % (r,))
        if ok:
            for i, n in enumerate(order):
                h.ensure("to_polytope.entry_%d" % i, to_real(r[0].items[i]) == s.coef(a, n))
            h.ensure("to_polytope.constant", to_real(r[1]) == s.const(a))
            # inverse direction
            g = h.I.get_func(PT + "polytope_to_term")
            out2 = h.call(g, [r[0], r[1], vl])
            if _ret(h, out2, "polytope_to_term.no_exception") and s.is_term(out2.value):
                back = out2.value
                for n in V3:
                    exp = s.coef(a, n) if n in order else z3.RealVal(0)
                    h.ensure("polytope_to_term.coefficient_%s" % n, s.coef(back, n) == exp)
                h.ensure("polytope_to_term.constant", s.const(back) == s.const(a))
                h.ensure("polytope_to_term.invariant", s.invariant(back))
    h.frame_ok(out, "C13.frame")
