"""Bounded stand-ins for C09 (parsing), C10 (serialisation), C13 (purity), C14 (exceptions, dictionary faults), C18 (plot vertices)."""
from __future__ import annotations

import copy
import itertools
import json
import math
import os
import random
import tempfile
from fractions import Fraction

from monitors.lib import (
    TOL,
    Env,
    Gen,
    contract_data,
    contract_from_data,
    feasible_exact,
    implies_exact,
    replay_in_fresh_process,
    run_cases,
    summarise,
    tl_data,
    tl_from_data,
    z_all,
    z_check,
    z_some_violated,
    zr,
)
from monitors.m_algebra import gen_component, gen_pair

MOD = "monitors.m_io"


def _viol(prop, op, key, what, p, fn):
    return {"key": "%s:%s:%s" % (prop, op, key), "prop": prop, "what": what, "input": p, "monitor": "m_io", "fn": fn}


# ----------------------------------------------------------------------------------------------
# C09 parsing: expression trees with exact meaning
# ----------------------------------------------------------------------------------------------
NUMS = [1, 2, 3, 4, 0.5, 1.5, 10, 0.25, 7]
VARS = ["x", "y", "z", "w1"]


def _num_str(r, v):
    forms = [repr(float(v))]
    if float(v).is_integer():
        forms += ["%d" % v, "%d." % v, "%d.0" % v, "%de0" % v]
    else:
        forms += [("%r" % v).lstrip("0") if 0 < v < 1 else repr(v), "%.3f" % v]
    # exponent spellings: signed and unsigned exponents, either case of the letter, leading zeros in the exponent, no leading zero
    from decimal import Decimal

    d = Decimal(repr(float(v)))
    for kk in (1, 2):
        up, down = format(d.scaleb(-kk), "f"), format(d.scaleb(kk), "f")
        forms += ["%se+%d" % (up, kk), "%sE+%d" % (up, kk), "%se%d" % (up, kk), "%se+0%d" % (up, kk), "%se-%d" % (down, kk), "%sE-0%d" % (down, kk)]
        if up.startswith("0."):
            forms.append("%se+%d" % (up[1:], kk))
    u = r.random()
    if u < 0.08:
        # a chain that mixes / and * (left to right: (a/b)*c), or * - + : operators of one precedence level share it
        bb, cc = r.choice([2, 4]), r.choice([2, 4, 8])
        return "(%r/%d*%d)" % (float(v) * bb / cc, bb, cc)
    if u < 0.14:
        bb, cc = r.choice([1, 2]), r.choice([1, 2, 3])
        pp = (float(v) + bb - cc) / 2
        if pp > 0:
            return "(%r*2-%d+%d)" % (pp, bb, cc)
    if r.random() < 0.2:
        a, b = r.choice([(2, "*"), (3, "*"), (2, "/")]), None
        k = a[0]
        if a[1] == "*" and (v / k) * k == v:
            return "(%r*%d)" % (v / k, k)
        if a[1] == "/":
            return "(%r/%d)" % (v * k, k)
    return r.choice(forms)


def gen_linear(r, depth):
    """a list of (kind, payload) items forming a sum; returns (items) where meaning is computed separately"""
    n = r.randint(1, 3)
    items = []
    for _ in range(n):
        k = r.random()
        sign = r.choice([1, 1, -1])
        if k < 0.2:
            items.append(("num", sign, r.choice(NUMS)))
        elif k < 0.45:
            items.append(("var", sign, r.choice(VARS)))
        elif k < 0.75:
            items.append(("cvar", sign, r.choice(NUMS), r.choice(VARS), r.random() < 0.5))
        elif depth > 0:
            items.append(("paren", sign, r.choice([None, None] + NUMS), gen_linear(r, depth - 1), r.random() < 0.5))
        else:
            items.append(("var", sign, r.choice(VARS)))
    return items


def lin_meaning(items):
    """-> (dict var->Fraction, Fraction const)"""
    co, c = {}, Fraction(0)
    for it in items:
        s = it[1]
        if it[0] == "num":
            c += s * Fraction(it[2])
        elif it[0] == "var":
            co[it[2]] = co.get(it[2], 0) + s
        elif it[0] == "cvar":
            co[it[3]] = co.get(it[3], 0) + s * Fraction(it[2])
        else:
            k = Fraction(it[2]) if it[2] is not None else Fraction(1)
            ico, ic = lin_meaning(it[3])
            for v, a in ico.items():
                co[v] = co.get(v, 0) + s * k * a
            c += s * k * ic
    return co, c


def lin_render(r, items, sp):
    out = ""
    for i, it in enumerate(items):
        s = it[1]
        if it[0] == "num":
            body = _num_str(r, it[2])
        elif it[0] == "var":
            body = it[2]
        elif it[0] == "cvar":
            body = _num_str(r, it[2]) + ("*" if it[4] else (" " if sp else "")) + it[3]
            if not it[4] and not sp and body[-len(it[3]) - 1 : -len(it[3])] in "eE.":
                body = _num_str(r, it[2]) + " " + it[3]
        else:
            inner = lin_render(r, it[3], sp)
            body = ("" if it[2] is None else _num_str(r, it[2]) + ("*" if it[4] else "")) + "(" + inner + ")"
        if i == 0:
            out += ("-" if s < 0 else "") + body
        else:
            out += (" - " if s < 0 else " + ") if sp else ("-" if s < 0 else "+")
            out += body
    return out


def gen_side(r, depth, allow_abs):
    """side = linear items plus optional absolute terms: list of ('lin', items) / ('abs', sign, coef|None, items)"""
    parts = [("lin", gen_linear(r, depth))]
    if allow_abs and r.random() < 0.45:
        for _ in range(r.randint(1, 2)):
            parts.append(("abs", r.choice([1, 1, 1, -1]), r.choice([None, None, 2, 3, 0.5]), gen_linear(r, 0)))
    if allow_abs and depth > 0 and r.random() < 0.2:
        # a constant factor in front of a parenthesised group that contains absolute-value terms with their own coefficients
        inner = [("lin", gen_linear(r, 0))]
        for _ in range(r.randint(1, 2)):
            inner.append(("abs", 1, r.choice([None, 2, 3, 0.5]), gen_linear(r, 0)))
        if r.random() < 0.3:
            inner.append(inner[-1])  # the same |t| twice inside the group
        r.shuffle(inner)
        parts.append(("group", 1, r.choice([2, 3, 0.5, 4]), inner))
    r.shuffle(parts)
    return parts


def flatten_side(parts):
    """the same side without groups: the factor of a group multiplied into its members (meaning only)"""
    out = []
    for pt in parts:
        if pt[0] != "group":
            out.append(pt)
            continue
        for q in flatten_side(pt[3]):
            if q[0] == "lin":
                out.append(("lin", [("paren", pt[1], pt[2], q[1], True)]))
            else:
                out.append(("abs", pt[1] * q[1], float((Fraction(q[2]) if q[2] is not None else Fraction(1)) * Fraction(pt[2])), q[3]))
    return out


def side_render(r, parts, sp):
    out = ""
    for i, pt in enumerate(parts):
        if pt[0] == "group":
            body = _num_str(r, pt[2]) + ("*" if r.random() < 0.3 else "") + "(" + side_render(r, pt[3], sp) + ")"
            if i == 0:
                out += ("-" if pt[1] < 0 else "") + body
            else:
                out += ((" - " if sp else "-") if pt[1] < 0 else (" + " if sp else "+")) + body
            continue
        if pt[0] == "lin":
            body = lin_render(r, pt[1], sp)
            neg = body.startswith("-")
            if i == 0:
                out += body
            else:
                out += (" - " if sp else "-") + body[1:] if neg else (" + " if sp else "+") + body
        else:
            body = ("" if pt[2] is None else _num_str(r, pt[2]) + ("*" if r.random() < 0.5 else "")) + "|" + lin_render(r, pt[3], sp) + "|"
            if i == 0:
                out += ("-" if pt[1] < 0 else "") + body
            else:
                out += ((" - " if sp else "-") if pt[1] < 0 else (" + " if sp else "+")) + body
    return out


def c09_build(seed, tier):
    r = random.Random(seed)
    kind = r.choice(["leq", "leq", "geq", "eq", "chain", "malformed"])
    sp = r.random() < 0.6
    if kind == "malformed":
        s = r.choice(["x <= ", "<= 3", "x + <= 2", "2 x y <= 1", "x <= 2 >= 1", "x = 1 = 2", "|x <= 1", "x <== 1", "3 <= ", "x + (y <= 2", "x y", "", "x <= 1 <= ", "* x <= 1", "x <= |y"])
        return {"op": "parse", "kind": kind, "string": s}
    if kind == "eq":
        sides = [[("lin", gen_linear(r, 1))], [("lin", gen_linear(r, 1))]]
        ops = [r.choice(["=", "=="])]
    elif kind == "chain":
        n = r.randint(3, 3)
        sides = [gen_side(r, 1, True) for _ in range(n)]
        o = r.choice(["<=", ">="])
        ops = [o] * (n - 1)
    else:
        sides = [gen_side(r, 2, True), gen_side(r, 1, True)]
        ops = ["<=" if kind == "leq" else ">="]
    s = side_render(r, sides[0], sp)
    for o, sd in zip(ops, sides[1:]):
        s += (" %s " % o if sp or r.random() < 0.5 else o) + side_render(r, sd, sp)
    return {"op": "parse", "kind": kind, "string": s, "sides": [flatten_side(sd) for sd in sides], "ops": ops}


def _z_lin(items, env):
    import z3

    co, c = lin_meaning(items)
    return z3.Sum([zr(a) * env[v] for v, a in co.items()] + [zr(c)])


def _z_side(parts, env):
    import z3

    tot = z3.RealVal(0)
    for pt in parts:
        if pt[0] == "lin":
            tot = tot + _z_lin(pt[1], env)
        else:
            e = _z_lin(pt[3], env)
            k = Fraction(pt[2]) if pt[2] is not None else Fraction(1)
            tot = tot + zr(pt[1] * k) * z3.If(e >= 0, e, -e)
    return tot


def _abs_coefficients(sides, ops):
    """combined coefficient of each distinct absolute argument on the 'a - b <= 0' form of every adjacent pair"""
    res = []
    for (a, b), o in zip(zip(sides, sides[1:]), ops):
        acc = {}
        for side, sg in ((a, 1), (b, -1)):
            for pt in side:
                if pt[0] == "abs":
                    co, c = lin_meaning(pt[3])
                    key = (tuple(sorted((v, x) for v, x in co.items() if x != 0)), c)
                    k = Fraction(pt[2]) if pt[2] is not None else Fraction(1)
                    acc[key] = acc.get(key, 0) + sg * pt[1] * k * (1 if o == "<=" else -1)
        res.append(acc)
    return res


def c09_eval(p):
    import z3
    from pacti.terms.polyhedra.serializer import polyhedral_termlist_from_string
    from pacti.utils.errors import PolyhedralSyntaxConvexException, PolyhedralSyntaxException

    s = p["string"]
    out = {"case_key": s, "stats": {}, "nontrivial": False, "sample": None}
    try:
        terms = polyhedral_termlist_from_string(s)
        terms2 = polyhedral_termlist_from_string(s)
    except PolyhedralSyntaxConvexException:
        out["stats"]["convex_error"] = 1
        if p["kind"] != "malformed":
            accs = _abs_coefficients(p["sides"], p["ops"])
            if all(all(v > 0 for v in acc.values()) for acc in accs):
                out["nontrivial"] = True
                out["violation"] = _viol("C09", "parse", "convex_relation_rejected", "convexity error for a relation whose absolute values all have positive weight: %r" % s, p, "c09_eval")
        return out
    except PolyhedralSyntaxException:
        out["stats"]["syntax_error"] = 1
        return out
    except ValueError:
        out["stats"]["ValueError"] = 1
        return out
    except Exception as e:
        out["nontrivial"] = True
        out["violation"] = _viol("C14", "parse", type(e).__name__, "parsing %r raised %s" % (s, type(e).__name__), p, "c09_eval")
        return out
    out["stats"]["accepted"] = 1
    out["nontrivial"] = True
    out["sample"] = {"string": s, "parsed": [str(t) for t in terms][:4]}
    if p["kind"] == "malformed":
        out["violation"] = _viol("C09", "parse", "malformed_accepted", "malformed string %r was accepted as %s" % (s, [str(t) for t in terms]), p, "c09_eval")
        return out
    if [str(t) for t in terms] != [str(t) for t in terms2] or any(not (a == b) for a, b in zip(terms, terms2)):
        out["violation"] = _viol("C09", "parse", "not_repeatable", "parsing %r twice gave different results" % s, p, "c09_eval")
        return out
    env = Env()
    for v in VARS:
        env[v]
    zs = [_z_side(sd, env) for sd in p["sides"]]
    rel = []
    for (a, b), o in zip(zip(zs, zs[1:]), p["ops"]):
        rel.append(a <= b if o == "<=" else (a >= b if o == ">=" else a == b))
    written = z3.And(*rel)
    parsed = z_all(terms, env)
    sol = z3.Solver()
    sol.set("timeout", 20000)
    sol.add(z3.Xor(written, parsed))
    res = sol.check()
    if res == z3.sat:
        m = sol.model()
        pt = {v: str(m.eval(env[v], model_completion=True)) for v in VARS}
        accs = _abs_coefficients(p["sides"], p["ops"])
        nonconvex = any(any(v <= 0 for v in acc.values()) for acc in accs)
        key = "nonconvex_translated" if nonconvex else "meaning_changed"
        out["violation"] = _viol("C09", "parse", key, "parsed constraints of %r differ from the written relation at %s" % (s, pt), p, "c09_eval")
    elif res == z3.unknown:
        out["stats"]["oracle_unknown"] = 1
    return out


def c09_case(seed, tier):
    return c09_eval(c09_build(seed, tier))


# ----------------------------------------------------------------------------------------------
# C10 serialisation
# ----------------------------------------------------------------------------------------------
def _mag(r, exact4):
    e = r.randint(-4, 5)
    if exact4:
        m = r.randint(1, 9999)
        v = float("%de%d" % (m, e - 3)) if r.random() < 0.6 else float(r.randint(1, 999))
    else:
        v = r.uniform(1, 10) * 10**e
    return v * r.choice([1, -1])


# printer -> parser on term lists with numbers far below 1 (pinned; exact comparison, no tolerance, all reals): what is printed
# must parse, and mean the constraints with every number rounded to four significant digits (fix 4f1096e)
PINNED_PRINTER = [
    [[{"x": 1.0}, 6e-9], [{"x": -1.0}, 6e-9]],
    [[{"x": 1e-9, "y": 1.0}, 1.0]],
    [[{"x": 6e-9}, 1.0], [{"x": -3e-9}, 1.0]],
    [[{"x": 1.0, "y": -2.5e-9}, 3e-10], [{"x": -1.0, "y": 2.5e-9}, -3e-10]],
    [[{"x": 2.0}, 4e-9], [{"x": -2.0}, -1e-9]],
    [[{"x": 1.23456e-7, "y": -1.0}, 0.0], [{"x": -1.23456e-7, "y": 1.0}, 0.0]],
    [[{"x": 5e-5}, 1.0], [{"x": -5.001e-5}, 1.0]],
]


def c10_printer_eval(p):
    from pacti.terms.polyhedra.serializer import polyhedral_termlist_from_string

    out = {"case_key": json.dumps(p, sort_keys=True), "stats": {"printer": 1}, "nontrivial": True, "sample": None}
    tl = tl_from_data(p["terms"])
    try:
        strings = tl.to_str_list()
        out["sample"] = {"mode": "printer", "terms": p["terms"], "strings": strings}
        back = []
        for st in strings:
            back += list(polyhedral_termlist_from_string(st))
        back = type(tl)(back)
        ref = tl_from_data([[{k: _round4(v) for k, v in t[0].items()}, _round4(t[1])] for t in p["terms"]])
        for hyp, con, what in [(back, ref, "the printed strings mean less than the rounded constraints"), (ref, back, "the printed strings mean more than the rounded constraints")]:
            m = implies_exact([hyp], con, tol=0, box=False)
            if m not in (None, "unknown"):
                out["violation"] = _viol("C10", "printer", "meaning", "%s: %s (point %s)" % (what, strings, m), p, "c10_printer_eval")
                break
    except Exception as e:
        out["violation"] = _viol("C10", "printer", "exception:" + type(e).__name__, "printing and parsing %s raised %s: %s" % (p["terms"], type(e).__name__, str(e)[:160]), p, "c10_printer_eval")
    return out


# a contract whose re-simplification on reading back loses a guarantee: HiGHS reports a wrong optimum on rows spanning seven orders
# of magnitude (open finding, key C10:strings:meaning:badly_scaled_lp; thorough tier, 1 of 32000 cases) - run on every check
PINNED_C10 = [{"op": "serial", "exact4": False, "c": {"in": ["i0", "in_1"], "out": ["o0", "out_b"], "a": [[{"i0": -0.003892322672600805, "in_1": 9829.481604451545}, 0.25865659447615863], [{"in_1": 0.016420423842930215, "i0": -861.8628249298828}, 0.9081653148093969]], "g": [[{"o0": 3750.117448313428, "in_1": 6194.223839595866, "i0": 7523.9493067093845}, -890843.5465643572], [{"out_b": 26332.59095594374, "in_1": 0.6056025330468773, "o0": 0.0020365651909609412}, 49.603494912765925], [{"o0": -3750.117448313428, "in_1": -6194.223839595866, "i0": -7523.9493067093845, "out_b": -0.002434189268113644}, -890843.5465643572], [{"o0": 231.65434755416751, "out_b": 0.976275247318358}, -0.41823470091333087]]}, "mode": "strings"}]


def c10_build(seed, tier):
    if seed % 1000003 < len(PINNED_PRINTER):
        return {"op": "printer", "terms": PINNED_PRINTER[seed % 1000003]}
    if seed % 1000003 < len(PINNED_PRINTER) + len(PINNED_C10):
        return json.loads(json.dumps(PINNED_C10[seed % 1000003 - len(PINNED_PRINTER)]))
    g = Gen(seed)
    r = g.r
    exact4 = r.random() < 0.6
    ins = ["i0", "in_1"][: r.randint(1, 2)]
    outs = ["o0", "out_b"][: r.randint(1, 2)]
    names = ins + outs

    def term(vs):
        k = r.randint(1, min(3, len(vs)))
        return [{v: _mag(r, exact4) for v in r.sample(vs, k)}, _mag(r, exact4) if r.random() < 0.9 else 0.0]

    def lst(vs):
        ts = [term(vs) for _ in range(r.randint(0, 3))]
        if ts and r.random() < 0.6:
            t = ts[r.randrange(len(ts))]
            mode = r.choice(["equal", "negated", "unrelated"])
            c2 = t[1] if mode == "equal" else (-t[1] if mode == "negated" else _mag(r, exact4))
            opp = {k: -v for k, v in t[0].items()}
            if r.random() < 0.25:
                extra = [v for v in vs if v not in opp]
                if extra:
                    opp[r.choice(extra)] = _mag(r, exact4)  # almost opposite: one more variable
            ts.insert(r.randint(0, len(ts)), [opp, c2])
        if r.random() < 0.12:
            # a constraint whose coefficients cancelled (0 <= c, c >= 0): legal, printed as "0 <= c" / an empty coefficient map
            ts.insert(r.randint(0, len(ts)), [{}, float(r.choice([0, 1, 2.5]))])
        return ts

    return {"op": "serial", "exact4": exact4, "c": {"in": ins, "out": outs, "a": lst(ins), "g": lst(names)}, "mode": r.choice(["machine_dict", "machine_file", "strings", "human_file"])}


def _round4(x):
    return float("%.4g" % x)


def c10_eval(p):
    if p.get("op") == "printer":
        return c10_printer_eval(p)
    from pacti.contracts import PolyhedralIoContract
    from pacti.utils.fileio import read_contracts_from_file, write_contracts_to_file

    c = contract_from_data(p["c"])
    out = {"case_key": json.dumps(p, sort_keys=True), "stats": {p["mode"]: 1}, "nontrivial": bool(c.a.terms or c.g.terms), "sample": None}
    try:
        if p["mode"] == "machine_dict":
            d = c.to_machine_dict()
            back = PolyhedralIoContract.from_dict(json.loads(json.dumps(d)), simplify=False)
            out["sample"] = {"mode": "machine_dict", "dict": d}
            if not (back == c) or hash(back) != hash(c) or [v.name for v in back.outputvars] != [v.name for v in c.outputvars]:
                out["violation"] = _viol("C10", "machine_dict", "roundtrip_not_equal", "from_dict(to_machine_dict(c)) differs from c", p, "c10_eval")
            return out
        if p["mode"] in ("machine_file", "human_file"):
            d = tempfile.mkdtemp(prefix="pacti-verif-c10-")
            fn = os.path.join(d, "c.json")
            try:
                write_contracts_to_file([c], ["c"], fn, machine_representation=(p["mode"] == "machine_file"))
                text = open(fn).read()
                cs, names = read_contracts_from_file(fn)
            finally:
                try:
                    os.remove(fn)
                except OSError:
                    pass
                os.rmdir(d)
            back = cs[0]
            out["sample"] = {"mode": p["mode"], "file": text[:300]}
            if names != ["c"]:
                out["violation"] = _viol("C10", p["mode"], "names", "names read back are %s" % names, p, "c10_eval")
                return out
        else:
            d = c.to_dict()
            out["sample"] = {"mode": "strings", "dict": d}
            back = PolyhedralIoContract.from_strings(**d)
        if [v.name for v in back.inputvars] != [v.name for v in c.inputvars] or [v.name for v in back.outputvars] != [v.name for v in c.outputvars]:
            out["violation"] = _viol("C10", p["mode"], "interface", "interface changed by the round trip", p, "c10_eval")
            return out
        if p["mode"] == "machine_file":
            ref_a, ref_g = c.a, c.g
        else:
            rd = lambda tl: tl_from_data([[{k: _round4(v) for k, v in t[0].items()}, _round4(t[1])] for t in tl_data(tl)])
            ref_a, ref_g = rd(c.a), rd(c.g)
        for hyp, con, what in [([back.a], ref_a, "assumptions read back are weaker"), ([ref_a], back.a, "assumptions read back are stronger"), ([back.a, back.g], ref_g, "a guarantee was lost"), ([ref_a, ref_g], back.g, "a guarantee was added")]:
            m = implies_exact(hyp, con, tol=Fraction(1, 10**9))
            if m not in (None, "unknown"):
                # (rows whose coefficients span six orders of magnitude or more: the LP solver's answers in the re-simplification on
                # reading back can be wrong - the open finding keyed :badly_scaled_lp, as for C08)
                mags = [abs(float(v)) for tl in (c.a, c.g) for t in tl.terms for v in t.variables.values() if v != 0]
                tag = ":badly_scaled_lp" if mags and max(mags) / min(mags) >= 1e6 and p["mode"] in ("strings", "human_file", "machine_file") else ""
                out["violation"] = _viol("C10", p["mode"], "meaning" + tag, what + " (point %s)" % (m,), p, "c10_eval")
                break
    except ValueError as e:
        # reading back re-simplifies: an unsatisfiable contract is (documentedly) rejected with ValueError
        from monitors.lib import feasible_exact as _fe

        rd = lambda tl: [[{k: _round4(v) for k, v in t[0].items()}, _round4(t[1])] for t in tl_data(tl)]
        allt = tl_from_data(rd(c.a) + rd(c.g)) if p["mode"] != "machine_file" else tl_from_data(tl_data(c.a) + tl_data(c.g))
        shr = type(allt)([type(t)(dict(t.variables), t.constant - 1e-6 * (1 + abs(t.constant))) for t in allt.terms])
        if _fe(shr) and type(e) is ValueError:
            out["violation"] = _viol("C10", p["mode"], "exception:ValueError", "round trip of a satisfiable contract raised ValueError: %s" % (str(e)[:200]), p, "c10_eval")
        else:
            out["stats"]["unsatisfiable_rejected"] = 1
            out["nontrivial"] = False
    except Exception as e:
        out["violation"] = _viol("C10", p["mode"], "exception:" + type(e).__name__, "round trip raised %s: %s" % (type(e).__name__, str(e)[:200]), p, "c10_eval")
    return out


def c10_case(seed, tier):
    return c10_eval(c10_build(seed, tier))


# ----------------------------------------------------------------------------------------------
# C14 dictionary faults (exhaustive enumeration of single-field deletions / type changes)
# ----------------------------------------------------------------------------------------------
GOOD_MACHINE = {
    "input_vars": ["x"],
    "output_vars": ["y"],
    "assumptions": [{"constant": 1.0, "coefficients": {"x": 1.0}}],
    "guarantees": [{"constant": 2.0, "coefficients": {"y": 1.0, "x": -1.0}}, {"constant": 3, "coefficients": {"y": -1}}],
}
GOOD_HUMAN = {"input_vars": ["x"], "output_vars": ["y"], "assumptions": ["x <= 1"], "guarantees": ["y - x <= 2", "-y <= 3"]}
GOOD_COMPOUND = {"input_vars": ["x"], "output_vars": ["y"], "assumptions": [["x <= 1"], ["x >= 2", "x <= 3"]], "guarantees": [["y - x <= 2"], ["-y <= 3"]]}
WRONG = [None, 3, 2.5, "s", True, [], [1], {}, {"a": 1}, ["x", 3], [None]]


def _paths(obj, prefix=()):
    yield prefix
    if isinstance(obj, dict):
        for k in obj:
            yield from _paths(obj[k], prefix + (k,))
    elif isinstance(obj, list):
        for i, v in enumerate(obj):
            yield from _paths(v, prefix + (i,))


def _mutations(good):
    for path in _paths(good):
        if not path:
            for w in WRONG:
                yield ("replace_root", [], w)
            continue
        yield ("delete", list(path), None)
        for w in WRONG:
            yield ("replace", list(path), w)


def _apply(good, mut):
    kind, path, w = mut
    d = copy.deepcopy(good)
    if kind == "replace_root":
        return w
    cur = d
    for k in path[:-1]:
        cur = cur[k]
    if kind == "delete":
        del cur[path[-1]]
    else:
        cur[path[-1]] = w
    return d


def c14_faults():
    cases = []
    for rep, good in (("machine", GOOD_MACHINE), ("human", GOOD_HUMAN)):
        for mut in _mutations(good):
            for route in ("direct", "file"):
                cases.append({"op": "fault", "rep": rep, "mut": list(mut), "route": route})
    # compound contracts exist in the file form only
    for mut in _mutations(GOOD_COMPOUND):
        cases.append({"op": "fault", "rep": "compound", "mut": list(mut), "route": "file"})
    # an extra, unknown field in the data of an entry (a comment): no representation may answer with an unrelated exception
    for rep in ("machine", "human", "compound"):
        cases.append({"op": "fault", "rep": rep, "mut": ["replace", ["comment"], "an extra field"], "route": "file"})
    # file-entry level faults
    entry = {"type": "PolyhedralIoContract_machine", "name": "c", "data": GOOD_MACHINE}
    for mut in _mutations(entry):
        if mut[1][:1] == ["data"] and len(mut[1]) > 1:
            continue
        cases.append({"op": "fault", "rep": "entry", "mut": list(mut), "route": "file"})
    for w in WRONG:
        cases.append({"op": "fault", "rep": "filetop", "mut": ["replace_root", [], w], "route": "file"})
    return cases


def c14_fault_eval(p):
    from pacti.contracts import PolyhedralIoContract
    from pacti.terms.polyhedra.serializer import validate_contract_dict
    from pacti.utils.errors import ContractFormatError
    from pacti.utils.fileio import read_contracts_from_file
    import pyparsing as pp

    out = {"case_key": json.dumps(p, sort_keys=True, default=str), "stats": {}, "nontrivial": True, "sample": None}
    mut = tuple(p["mut"])
    import contextlib
    import io

    with contextlib.redirect_stdout(io.StringIO()):
        return _c14_fault_eval(p, out, mut)


def _c14_fault_eval(p, out, mut):
    from pacti.contracts import PolyhedralIoContract
    from pacti.terms.polyhedra.serializer import validate_contract_dict
    from pacti.utils.errors import ContractFormatError
    from pacti.utils.fileio import read_contracts_from_file
    import pyparsing as pp

    try:
        if p["rep"] in ("machine", "human"):
            good = GOOD_MACHINE if p["rep"] == "machine" else GOOD_HUMAN
            d = _apply(good, mut)
            if p["route"] == "direct":
                if p["rep"] == "machine":
                    PolyhedralIoContract.from_dict(d)
                else:
                    validate_contract_dict(d, "c", machine_representation=False)
                    PolyhedralIoContract.from_strings(**d)
                out["stats"]["accepted"] = 1
                return out
            data = [{"type": "PolyhedralIoContract_machine" if p["rep"] == "machine" else "PolyhedralIoContract", "name": "c", "data": d}]
        elif p["rep"] == "compound":
            data = [{"type": "PolyhedralIoContractCompound", "name": "c", "data": _apply(GOOD_COMPOUND, mut)}]
        elif p["rep"] == "entry":
            data = [_apply({"type": "PolyhedralIoContract_machine", "name": "c", "data": GOOD_MACHINE}, mut)]
        else:
            data = _apply([], mut)
        dd = tempfile.mkdtemp(prefix="pacti-verif-c14-")
        fn = os.path.join(dd, "f.json")
        try:
            with open(fn, "w") as f:
                json.dump(data, f)
            read_contracts_from_file(fn)
        finally:
            os.remove(fn)
            os.rmdir(dd)
        out["stats"]["accepted"] = 1
        if p["rep"] == "entry" and mut[0] == "replace" and list(mut[1]) in (["name"], ["type"]) and not isinstance(mut[2], str):
            # a field of the wrong kind must not be read as something else: the name and the type of an entry are strings
            out["violation"] = _viol("C14", "dict_fault", "entry:accepted_wrong_kind:%s" % mut[1][0], "file entry with %s = %r was accepted" % (mut[1][0], mut[2]), p, "c14_fault_eval")
    except (ContractFormatError, ValueError, pp.ParseBaseException) as e:
        out["stats"]["rejected_" + type(e).__name__] = 1
    except Exception as e:
        out["sample"] = {"fault": p, "exception": type(e).__name__}
        out["violation"] = _viol("C14", "dict_fault", "%s:%s:%s" % (p["rep"], p["route"], type(e).__name__), "faulted %s dictionary (%s) via %s escaped as %s: %s" % (p["rep"], p["mut"], p["route"], type(e).__name__, str(e)[:120]), p, "c14_fault_eval")
    return out


_FAULTS = None


def c14_case(seed, tier):
    global _FAULTS
    if _FAULTS is None:
        _FAULTS = c14_faults()
    i = seed % 1000003
    if i < len(_FAULTS):
        r = c14_fault_eval(_FAULTS[i])
        r["sample"] = r.get("sample") or ({"fault": _FAULTS[i]} if i % 97 == 0 else None)
        return r
    return {"case_key": None, "nontrivial": False, "stats": {}}


# adversarial shapes for public operations
def c14_shapes_build(seed, tier):
    g = Gen(seed)
    r = g.r
    kind = r.choice(["empty_lists", "single_var", "unbounded_lp", "too_few_rows", "cancelling", "dependent_rows", "dependent_rows"])
    names = ["x", "y", "z"]
    if kind == "empty_lists":
        S, G, E = [], [g.term(names)], ["x"]
    elif kind == "single_var":
        S, G, E = [g.term(["x"], 1, 1)], [g.term(["x"], 1, 1)], ["x"]
    elif kind == "unbounded_lp":
        S, G, E = [g.term(names, 2, 3)], [g.term(names, 1, 2)], r.sample(names, 2)
    elif kind == "too_few_rows":
        S, G, E = [g.term(names, 3, 3)], [g.term(names, 1, 1)], names
    elif kind == "dependent_rows":
        # context rows that are linearly dependent in the eliminated variables but tie them to different other variables
        # (inconsistent when read as equalities), plus bounds that make the LPs feasible and bounded
        a, b2 = float(r.choice([1, 2])), float(r.choice([1, 2, 3]))
        rows = [g.PT({g.Var("x"): a, g.Var("y"): b2, g.Var("u"): 1.0}, 1.0), g.PT({g.Var("x"): a, g.Var("y"): b2, g.Var("v"): 1.0}, 2.0), g.PT({g.Var("y"): -1.0, g.Var("w"): 1.0}, 0.0)]
        rows += [g.PT({g.Var(n): -1.0}, float(r.choice([0, -1]))) for n in ("u", "v", "w")]
        r.shuffle(rows)
        S = [g.PT({g.Var("z"): 1.0, g.Var("x"): float(r.choice([-1, 1])), g.Var("y"): float(r.choice([-1, 1]))}, 0.0)]
        G, E = rows, ["x", "y"]
    else:
        t = g.term(names, 2, 3)
        S, G, E = [t, g.PT({k: -v for k, v in t.variables.items()}, -t.constant)], [g.term(names, 1, 2)], r.sample(names, 1)
    return {"op": "shape", "kind": kind, "terms": tl_data(S), "context": tl_data(G), "elim": E, "order": r.choice([[1], [2], [3], [4], [5], [1, 2, 3, 4, 5]]), "simplify": r.random() < 0.5}


def c14_shapes_eval(p):
    from pacti.iocontract import Var

    S, G = tl_from_data(p["terms"]), tl_from_data(p["context"])
    out = {"case_key": json.dumps(p, sort_keys=True), "stats": {p["kind"]: 1}, "nontrivial": True, "sample": None}
    ops = [
        ("refining", lambda: S.elim_vars_by_refining(G, [Var(x) for x in p["elim"]], p["simplify"], list(p["order"]))),
        ("relaxing", lambda: S.elim_vars_by_relaxing(G, [Var(x) for x in p["elim"]], p["simplify"], list(p["order"]))),
        ("simplify", lambda: S.simplify(G)),
        ("refines", lambda: S.refines(G)),
        ("is_empty", lambda: S.is_empty()),
        ("optimize", lambda: S.optimize({Var("x"): 1.0}, True)),
    ]
    for name, f in ops:
        try:
            f()
        except ValueError as e:
            pass
        except Exception as e:
            out["violation"] = _viol("C14", "shape", "%s:%s" % (name, type(e).__name__), "%s on shape %s raised %s: %s" % (name, p["kind"], type(e).__name__, str(e)[:150]), p, "c14_shapes_eval")
            break
    return out


# constraints whose coefficients cancel (no variable is left): contract-level operations on them
CANCELLING = ["x = x", "x + 1 <= x + 2", "x - x <= 1", "2y - y - y <= 0", "|x - y| <= 1", "x - y <= 1", "x + 1 <= x"]


def c14_cancel_build(seed):
    r = random.Random(seed)
    a = [r.choice(CANCELLING[:4])] if r.random() < 0.6 else []
    if r.random() < 0.3:
        a.append("x <= 3")
    gs = [r.choice(CANCELLING)] if r.random() < 0.7 else []
    if r.random() < 0.5:
        gs.append("o - x <= 1")
    return {"op": "cancelling", "kind": "variable_free_terms", "a": [t for t in a if "y" not in t], "g": gs, "simplify": r.random() < 0.7, "action": r.choice(["construct", "rename_merge", "copy", "refines_self", "dict", "compose", "quotient"])}


def c14_cancel_eval(p):
    from pacti.contracts import PolyhedralIoContract
    from pacti.iocontract import Var
    from pacti.utils.errors import IncompatibleArgsError

    out = {"case_key": json.dumps(p, sort_keys=True), "stats": {p["kind"]: 1, "action_" + p["action"]: 1}, "nontrivial": True, "sample": None}
    unsat = any(t == "x + 1 <= x" for t in p["a"] + p["g"])
    try:
        c = PolyhedralIoContract.from_strings(p["a"], p["g"], ["x"], ["y", "o"], simplify=p["simplify"])
        if p["action"] == "rename_merge":
            c.rename_variable(Var("y"), Var("o"))
            c.rename_variables([("y", "o")])
        elif p["action"] == "copy":
            if not (c.copy() == c):
                out["violation"] = _viol("C19", "shape", "copy_not_equal", "copy differs", p, "c14_cancel_eval")
        elif p["action"] == "refines_self":
            c.refines(c)
            c.a.is_empty()
            c.g.refines(c.g)
        elif p["action"] == "dict":
            PolyhedralIoContract.from_dict(c.to_machine_dict(), simplify=p["simplify"])
        elif p["action"] == "compose":
            d = PolyhedralIoContract.from_strings([], ["w - o <= 0"], ["o"], ["w"])
            c.compose(d)
        elif p["action"] == "quotient":
            d = PolyhedralIoContract.from_strings([], ["y <= 5"], ["x"], ["y"])
            c.quotient(d)
        out["stats"]["returned"] = 1
    except (ValueError, IncompatibleArgsError) as e:
        out["stats"]["rejected_" + type(e).__name__] = 1
        if p["action"] in ("construct", "copy", "dict", "refines_self") and not unsat and type(e) is ValueError and "unsatisfiable" in str(e) and p["simplify"]:
            # 0 <= c with c >= 0 holds everywhere: a system that only adds such terms to satisfiable ones is satisfiable
            sat_rest = True
            if sat_rest and not [t for t in p["a"] + p["g"] if t in ("x <= 3", "o - x <= 1", "x - y <= 1", "|x - y| <= 1")] or True:
                out["violation"] = _viol("C14", "shape", "satisfiable_rejected:%s" % p["action"], "%s of a satisfiable contract with variable-free terms was rejected as unsatisfiable: %s" % (p["action"], str(e)[:120]), p, "c14_cancel_eval")
    except Exception as e:
        out["violation"] = _viol("C14", "shape", "%s:%s" % (p["action"], type(e).__name__), "%s with variable-free terms raised %s: %s" % (p["action"], type(e).__name__, str(e)[:150]), p, "c14_cancel_eval")
    return out


def c14_shapes_case(seed, tier):
    if seed % 5 == 0:
        return c14_cancel_eval(c14_cancel_build(seed))
    return c14_shapes_eval(c14_shapes_build(seed, tier))


# ----------------------------------------------------------------------------------------------
# C13 purity: operation sequences over a shared pool
# ----------------------------------------------------------------------------------------------
OPS = ["compose", "quotient", "merge", "refines", "rename", "copy", "simplify", "elim", "optimize", "dict", "strings", "parse"]


def _pool_snapshot(pool, extra):
    return json.dumps([contract_data(c) for c in pool] + [extra], sort_keys=False, default=str)


def _do_op(op, args, rnd_state):
    """performs one operation on contracts rebuilt from data; returns a JSON-able description of the result"""
    from pacti.contracts import PolyhedralIoContract
    from pacti.iocontract import Var
    from pacti.terms.polyhedra.serializer import polyhedral_termlist_from_string
    import pacti.terms.polyhedra.polyhedra as P
    import pacti.contracts.polyhedral_iocontract as PC

    cs = [contract_from_data(d, simplify=False) for d in args["contracts"]]
    res_obj = None
    try:
        if op == "compose":
            keep = list(args["keep"])
            order = list(args["order"]) if args["order"] is not None else None
            r = cs[0].compose_tactics(cs[1], keep, args["simplify"], order)[0]
            res_obj = r
            desc = ("contract", contract_data(r))
            if keep != args["keep"] or (order is not None and order != args["order"]):
                desc = ("ARGUMENT-LIST-MODIFIED", None)
        elif op == "quotient":
            add = [Var(x) for x in args["add"]]
            r = cs[0].quotient(cs[1], add, args["simplify"])
            res_obj = r
            desc = ("contract", contract_data(r))
            if [v.name for v in add] != args["add"]:
                desc = ("ARGUMENT-LIST-MODIFIED", None)
        elif op == "merge":
            r = cs[0].merge(cs[1])
            res_obj = r
            desc = ("contract", contract_data(r))
        elif op == "refines":
            desc = ("bool", bool(cs[0].refines(cs[1])))
        elif op == "rename":
            r = cs[0].rename_variables([tuple(m) for m in args["maps"]])
            res_obj = r
            desc = ("contract", contract_data(r))
        elif op == "copy":
            r = cs[0].copy()
            res_obj = r
            desc = ("contract", contract_data(r))
        elif op == "simplify":
            r = cs[0].g.simplify(cs[0].a)
            res_obj = r
            desc = ("list", tl_data(r))
        elif op == "elim":
            fn = cs[0].g.elim_vars_by_refining if args["refine"] else cs[0].g.elim_vars_by_relaxing
            el = [Var(x) for x in args["elim"]]
            r = fn(cs[0].a, el, args["simplify"], None)[0]
            res_obj = r
            desc = ("list", tl_data(r))
        elif op == "optimize":
            desc = ("value", cs[0].optimize(args["expr"], args["maximize"]))
        elif op == "dict":
            r = PolyhedralIoContract.from_dict(cs[0].to_machine_dict(), simplify=False)
            res_obj = r
            desc = ("contract", contract_data(r))
        elif op == "strings":
            r = PolyhedralIoContract.from_strings(**cs[0].to_dict())
            res_obj = r
            desc = ("contract", contract_data(r))
        else:
            ts = polyhedral_termlist_from_string(args["string"])
            desc = ("list", tl_data(ts))
    except Exception as e:
        desc = ("raised", type(e).__name__)
    state = {"operands_after": [contract_data(c) for c in cs], "tactics_orders": [list(P.TACTICS_ORDER), list(PC.TACTICS_ORDER)], "tactics_keys": sorted(P.PolyhedralTermList.TACTICS)}
    return desc, state, res_obj, cs


def c13_build(seed, tier):
    return {"op": "sequence", "seed": seed, "length": 12 if tier == "quick" else 30}


def _gen_step(r, g, pool):
    op = r.choice(OPS)
    k = 2 if op in ("compose", "quotient", "merge", "refines") else 1
    idx = [r.randrange(len(pool)) for _ in range(k)]
    args = {"idx": idx}
    cs = [pool[i] for i in idx]
    if op == "compose":
        outs = cs[0]["out"] + cs[1]["out"]
        ins = cs[0]["in"] + cs[1]["in"]
        args.update(keep=[o for o in outs if o in ins and r.random() < 0.3], simplify=r.random() < 0.5, order=r.choice([None, [1, 2, 3, 4, 5], [2, 4], [4]]))
    elif op == "quotient":
        args.update(add=[x for x in cs[1]["out"] if r.random() < 0.3], simplify=r.random() < 0.5)
    elif op == "rename":
        names = cs[0]["in"] + cs[0]["out"]
        a = r.choice(names or ["ghost"])
        args.update(maps=[[a, r.choice(["fresh_v", a] + names)]])
    elif op == "elim":
        names = cs[0]["in"] + cs[0]["out"]
        args.update(refine=r.random() < 0.5, elim=r.sample(names or ["ghost"], 1), simplify=r.random() < 0.5)
    elif op == "optimize":
        args.update(expr=r.choice(cs[0]["in"] + cs[0]["out"] + ["ghost"]), maximize=r.random() < 0.5)
    elif op == "parse":
        args.update(string=r.choice(["2x + 3y <= 4", "|x| <= 2", "x = 2 y", "1 <= x <= 3", "2(x + y) - z <= 0", "x - (y - 1) >= 2"]))
    return op, args


def c13_eval(p):
    g = Gen(p["seed"])
    r = g.r
    pool = []
    if p["seed"] % 4 == 0:
        # a pool of very small contracts (no assumptions, at most one guarantee, shared and separate interfaces): the
        # shapes on which shortcuts ("nothing to simplify", "nothing new in the union") are taken
        one = [[{"o": 1.0, "i": -1.0}, 1.0]]
        pool = [
            {"in": ["i"], "out": ["o"], "a": [], "g": one},
            {"in": ["i"], "out": ["o"], "a": [], "g": []},
            {"in": ["i"], "out": ["o"], "a": [], "g": [[{"o": 1.0, "i": -1.0}, 1.0]]},
            {"in": ["o"], "out": ["p"], "a": [], "g": [[{"p": 1.0, "o": -1.0}, 2.0]]},
            {"in": ["i"], "out": ["o", "p"], "a": [[{"i": 1.0}, 5.0]], "g": [[{"o": 1.0, "i": -1.0}, 1.0], [{"p": 1.0, "i": -1.0}, 3.0]]},
            {"in": ["j"], "out": ["q"], "a": [], "g": [[{"q": 1.0}, 4.0]]},
        ]
    for _ in range(4 if not pool else 1):
        w, c1, c2 = gen_pair(g)
        pool += [contract_data(c1), contract_data(c2)]
    out = {"case_key": "seq-%d" % p["seed"], "stats": {}, "nontrivial": True, "sample": None}
    history = []
    first_results = {}
    for step in range(p["length"]):
        op, args = _gen_step(r, g, pool)
        call = dict(args, contracts=[pool[i] for i in args["idx"]])
        before = json.dumps(call)
        desc, state, res_obj, live = _do_op(op, call, None)
        out["stats"][op] = out["stats"].get(op, 0) + 1
        if desc[0] == "ARGUMENT-LIST-MODIFIED":
            out["violation"] = _viol("C13", op, "argument_list_modified", "step %d: %s modified a list passed to it" % (step, op), p, "c13_eval")
            return out
        if json.dumps(call) != before or state["operands_after"] != call["contracts"]:
            out["violation"] = _viol("C13", op, "operand_modified", "step %d: %s modified an operand" % (step, op), p, "c13_eval")
            return out
        if state["tactics_orders"] != [[1, 2, 3, 4, 5], [1, 2, 3, 4, 5]] or state["tactics_keys"] != [1, 2, 3, 4, 5, 6]:
            out["violation"] = _viol("C13", op, "module_state_modified", "step %d: %s changed module-level tactic tables: %s" % (step, op, state), p, "c13_eval")
            return out
        # aliasing: mutate the result after the fact, operands must not move
        if res_obj is not None:
            try:
                for tl in ((res_obj.a, res_obj.g) if hasattr(res_obj, "inputvars") else (res_obj,)):
                    for t in tl.terms:
                        for k in list(t.variables):
                            t.variables[k] += 17.0
                        t.constant += 17.0
                    tl.terms.append(tl.terms[0].copy()) if tl.terms else None
                if hasattr(res_obj, "inputvars"):
                    res_obj.inputvars.append(g.Var("zz_alias"))
                    res_obj.outputvars.append(g.Var("zz_alias2"))
            except Exception:
                pass
            if [contract_data(c) for c in live] != call["contracts"]:
                out["violation"] = _viol("C13", op, "result_aliases_operand", "step %d: mutating the result of %s changed an operand" % (step, op), p, "c13_eval")
                return out
        # repeat the same call now: equal result
        desc2, _, _, _ = _do_op(op, json.loads(before), None)
        if json.dumps(desc2, default=str, sort_keys=True) != json.dumps(desc, default=str, sort_keys=True):
            out["violation"] = _viol("C13", op, "repeat_differs", "step %d: repeating %s with equal arguments gave a different result" % (step, op), p, "c13_eval")
            return out
        history.append((op, json.loads(before), desc))
        if desc[0] == "contract" and len(pool) < 14:
            pool.append(desc[1])
    # every step again in a fresh interpreter (no history)
    if not p.get("no_fresh"):
        rep = replay_in_fresh_process(MOD, "c13_fresh", os.environ.get("PACTI_SRC_MON", "/repo/src"), {"history": [(o, a) for o, a, _ in history]})
        if isinstance(rep, dict) and "results" in rep:
            for i, ((op, a, d), d2) in enumerate(zip(history, rep["results"])):
                if json.dumps(d, default=str, sort_keys=True) != json.dumps(d2, default=str, sort_keys=True):
                    out["violation"] = _viol("C13", op, "history_dependent", "step %d: %s gives a different result in a fresh interpreter" % (i, op), p, "c13_eval")
                    return out
        else:
            out["stats"]["fresh_replay_failed"] = 1
    out["sample"] = {"sequence": [h[0] for h in history]}
    return out


def c13_fresh(p):
    res = []
    for op, a in p["history"]:
        d, _, _, _ = _do_op(op, a, None)
        res.append(d)
    return {"results": json.loads(json.dumps(res, default=str))}


def c13_case(seed, tier):
    return c13_eval(c13_build(seed, tier))


# ----------------------------------------------------------------------------------------------
# C18 plot vertices
# ----------------------------------------------------------------------------------------------
def c18_build(seed, tier):
    r = random.Random(seed)
    names = ["x", "y", "u", "v"][: r.randint(2, 4)]
    kind = r.choice(["polygon", "polygon", "polygon", "segment", "point", "empty", "missing"])
    terms = []
    for _ in range(r.randint(1, 4)):
        k = r.randint(1, len(names))
        vs = r.sample(names, k)
        terms.append([{v: float(r.choice([-3, -2, -1, 1, 2, 3])) for v in vs}, float(r.randint(-6, 10))])
    if kind == "segment":
        terms += [[{"x": 1.0, "y": 1.0}, 1.0], [{"x": -1.0, "y": -1.0}, -1.0]]
    elif kind == "point":
        terms += [[{"x": 1.0}, 1.0], [{"x": -1.0}, -1.0], [{"y": 1.0}, 2.0], [{"y": -1.0}, -2.0]]
    elif kind == "empty":
        terms += [[{"x": 1.0}, -7.0]]
    vals = {n: float(r.randint(-5, 5)) for n in names[2:]}
    if kind == "missing" and vals:
        vals.pop(sorted(vals)[0])
    lims = sorted(r.sample(range(-5, 6), 2)), sorted(r.sample(range(-5, 6), 2))
    swap = r.random() < 0.5
    return {"op": "vertices", "kind": kind, "terms": terms, "values": vals, "xlims": lims[0], "ylims": lims[1], "swap": swap}


def _exact_vertices(cons):
    """cons: list of (a, b, c) meaning a*x + b*y <= c (Fractions). returns set of exact corner points (Fractions)."""
    pts = set()
    n = len(cons)
    for i in range(n):
        for j in range(i + 1, n):
            a1, b1, c1 = cons[i]
            a2, b2, c2 = cons[j]
            det = a1 * b2 - a2 * b1
            if det == 0:
                continue
            x = (c1 * b2 - c2 * b1) / det
            y = (a1 * c2 - a2 * c1) / det
            if all(a * x + b * y <= c for a, b, c in cons):
                pts.add((x, y))
    return pts


def c18_eval(p):
    from pacti.iocontract import Var
    from pacti.utils.plots import constraints_to_vertices

    T = tl_from_data(p["terms"])
    xv, yv = ("y", "x") if p["swap"] else ("x", "y")
    out = {"case_key": json.dumps(p, sort_keys=True), "stats": {p["kind"]: 1}, "nontrivial": True, "sample": None}
    vals = {k: v for k, v in p["values"].items()}
    # exact slice
    cons = []
    infeasible_const = False
    for coefs, c in p["terms"]:
        a = Fraction(coefs.get(xv, 0))
        b = Fraction(coefs.get(yv, 0))
        rest = Fraction(c)
        missing = False
        for k, v in coefs.items():
            if k in (xv, yv):
                continue
            if k not in vals:
                missing = True
            else:
                rest -= Fraction(v) * Fraction(vals[k])
        if missing:
            cons = None
            break
        if a == 0 and b == 0:
            if rest < 0:
                infeasible_const = True
            continue
        cons.append((a, b, rest))
    needed = {v for coefs, _ in p["terms"] for v in coefs} - {xv, yv}
    try:
        xs, ys = constraints_to_vertices(T, Var(xv), Var(yv), {Var(k): v for k, v in vals.items()}, tuple(p["xlims"]), tuple(p["ylims"]))
    except ValueError as e:
        out["stats"]["ValueError"] = 1
        if cons is not None and not infeasible_const:
            box = [(Fraction(1), Fraction(0), Fraction(p["xlims"][1])), (Fraction(-1), Fraction(0), -Fraction(p["xlims"][0])), (Fraction(0), Fraction(1), Fraction(p["ylims"][1])), (Fraction(0), Fraction(-1), -Fraction(p["ylims"][0]))]
            env = Env()
            import z3

            f = [zr(a) * env["X"] + zr(b) * env["Y"] <= zr(c) for a, b, c in cons + box]
            if z_check(f, env) is not None:
                out["violation"] = _viol("C18", "vertices", "valueerror_on_nonempty_slice", "ValueError (%s) although the slice is not empty" % str(e)[:80], p, "c18_eval")
        return out
    except Exception as e:
        out["violation"] = _viol("C18", "vertices", "exception:" + type(e).__name__, "constraints_to_vertices raised %s: %s" % (type(e).__name__, str(e)[:150]), p, "c18_eval")
        return out
    if cons is None:
        out["violation"] = _viol("C18", "vertices", "missing_value_not_rejected", "a needed variable has no value but vertices were returned", p, "c18_eval")
        return out
    box = [(Fraction(1), Fraction(0), Fraction(p["xlims"][1])), (Fraction(-1), Fraction(0), -Fraction(p["xlims"][0])), (Fraction(0), Fraction(1), Fraction(p["ylims"][1])), (Fraction(0), Fraction(-1), -Fraction(p["ylims"][0]))]
    allc = cons + box
    exact = set() if infeasible_const else _exact_vertices(allc)
    got = list(zip(xs, ys))
    out["sample"] = {"kind": p["kind"], "vertices": [(round(a, 4), round(b, 4)) for a, b in got][:8], "exact": [(float(a), float(b)) for a, b in sorted(exact)][:8]}
    tol = 1e-6

    def close(pt, q):
        return abs(pt[0] - float(q[0])) <= tol * (1 + abs(float(q[0]))) and abs(pt[1] - float(q[1])) <= tol * (1 + abs(float(q[1])))

    if not exact:
        out["violation"] = _viol("C18", "vertices", "empty_slice_not_rejected", "the slice is empty but vertices %s were returned" % (got[:4],), p, "c18_eval")
        return out
    for pt in got:
        if not all(float(a) * pt[0] + float(b) * pt[1] <= float(c) + 1e-6 * (1 + abs(float(c))) for a, b, c in allc):
            out["violation"] = _viol("C18", "vertices", "point_outside", "returned point %s violates a constraint" % (pt,), p, "c18_eval")
            return out
        if not any(close(pt, q) for q in exact):
            out["violation"] = _viol("C18", "vertices", "not_a_corner", "returned point %s is not a corner of the slice" % (pt,), p, "c18_eval")
            return out
    for q in exact:
        if not any(close(pt, q) for pt in got):
            out["violation"] = _viol("C18", "vertices", "corner_missing", "corner %s of the slice is missing" % ((float(q[0]), float(q[1])),), p, "c18_eval")
            return out
    # angular order around the centroid of the returned points
    if len(exact) >= 3:
        cx, cy = sum(a for a, _ in got) / len(got), sum(b for _, b in got) / len(got)
        angs = [math.atan2(b - cy, a - cx) for a, b in got]
        # angular order is a cyclic notion: a point on the negative x-axis of the centroid has angle +pi or -pi depending on
        # the last bit of the centroid, so the list may legitimately start anywhere on the circle - one descent at most
        # around the cycle, with the cut folded (an oracle that demanded a rising sequence from -pi was a false alarm)
        folded = [x + 2 * math.pi if x < -math.pi + 1e-7 else x for x in angs]

        def descents(seq):
            n = len(seq)
            return sum(1 for i in range(n) if seq[i] > seq[(i + 1) % n] + 1e-9)

        if min(descents(angs), descents(folded)) > 1:
            out["violation"] = _viol("C18", "vertices", "not_in_angular_order", "vertices are not listed in angular order", p, "c18_eval")
    return out


def c18_case(seed, tier):
    return c18_eval(c18_build(seed, tier))


# ----------------------------------------------------------------------------------------------
FAMILIES = {
    "C09": [("c09_case", 1.0, 3000)],
    "C10": [("c10_case", 1.0, 1600)],
    "C13": [("c13_case", 1.0, 96)],
    "C14": [("c14_case", 0.5, None), ("c14_shapes_case", 0.5, 800)],
    "C18": [("c18_case", 1.0, 2000)],
}
RULES = {
    "c09_case": "expression trees up to depth 3 over 4 variables (numbers, variables, coefficient*variable with and without '*', parenthesised sums with optional factor, absolute values with optional factor, chains of 3 sides, equalities), rendered with random spacing and number spellings (integers, decimals with and without leading zero, exponents with +, - or no sign, e or E, leading zeros); equivalence of parsed constraints and written relation decided by z3 for all real points; 15 malformed strings; parse twice",
    "c10_case": "contracts with coefficient/constant magnitudes 1e-4..1e6 (4-significant-digit decimals and arbitrary floats), opposite-term pairs with equal / negated / unrelated constants at every position, constraints without variables; machine dict, machine file, strings, human file; meaning compared by z3 with every number rounded to 4 significant digits for the human forms; pinned printer-parser witnesses with numbers of 1e-10..1e-4 (exact comparison)",
    "c13_case": "operation sequences (12 quick / 30 thorough) drawn from %s over a shared pool that results are fed back into (every fourth sequence starts from a pool of very small contracts: no assumptions, at most one guarantee); deep snapshot of operands and argument lists before/after, module tables, post-hoc mutation of results, immediate repetition, and replay of every step in a fresh interpreter" % OPS,
    "c14_case": "EXHAUSTIVE: every single-field deletion and every replacement by one of %d wrong-kind values of a valid contract dictionary in machine and human representation, through from_dict / validate+from_strings and through the file reader; plus file-entry and file-top-level faults" % len(WRONG),
    "c14_shapes_case": "adversarial shapes (empty lists, single variable, unbounded LPs, more eliminated variables than context rows, cancelling terms) through elimination, simplify, refines, is_empty, optimize with every single tactic",
    "c18_case": "constraint lists over 2-4 variables with small-integer coefficients, integer values and axis limits in [-5,5]: polygons, segments, points, empty slices, missing values; compared with exact rational vertex enumeration (set equality within 1e-6, feasibility, angular order)",
}


def run(prop, tier, seed, src, jobs):
    os.environ["PACTI_SRC_MON"] = src
    results = []
    rules = []
    exhaustive = False
    for fname, share, n in FAMILIES[prop]:
        if fname == "c14_case":
            from monitors.lib import setup

            setup(src)
            n = len(c14_faults())
            seeds = list(range(n))
            exhaustive = True
        else:
            n = n if tier == "quick" else n * 20
            seeds = [seed * 1000003 + i for i in range(n)]
        budget = (40 if tier == "quick" else 900) * share + 10
        results += run_cases(MOD, fname, src, seeds, tier, jobs, budget)
        rules.append(RULES[fname])
    for r in results:
        v = r.get("violation")
        if v and v.get("prop") != prop:
            r["other_violation"] = v
            r["violation"] = None
    _confirm(results, src)
    out = summarise("m_io[%s]" % prop, results, " | ".join(rules), "bounded stand-in: seed %d; shapes as stated in the rule" % seed)
    if exhaustive:
        out["exhaustive_dictionary_faults"] = True
    return out


def _confirm(results, src, limit=6):
    seen = {}
    for r in results:
        v = r.get("violation")
        if not v:
            continue
        k = v["key"]
        seen.setdefault(k, 0)
        if seen[k] >= limit:
            r["violation"] = None
            continue
        seen[k] += 1
        payload = dict(v["input"], no_fresh=True) if v["fn"] == "c13_eval" else v["input"]
        rep = replay_in_fresh_process(MOD, v["fn"], src, payload)
        vv = rep.get("violation") if isinstance(rep, dict) else None
        if not vv or vv.get("key") != k:
            v["reproduced"] = False
            v["native"] = rep
            r["violation"] = None if (isinstance(rep, dict) and not rep.get("error") and v["fn"] != "c13_eval") else v
        else:
            v["reproduced"] = True
            v["native"] = {"what": vv.get("what")}


def replay(r, src):
    os.environ["PACTI_SRC_MON"] = src
    w = r["witness"]
    rep = replay_in_fresh_process(MOD, w["fn"], src, w["input"])
    print(json.dumps(rep, indent=1, default=str)[:3000])
    return 1 if (isinstance(rep, dict) and rep.get("violation")) else 0
