"""Bounded stand-ins for C11, C12, C16, C19, C17 (native execution, exact oracles)."""
from __future__ import annotations

import json
from fractions import Fraction

from monitors.lib import (
    degenerate_system,
    TOL,
    Env,
    Gen,
    contract_data,
    contract_from_data,
    exact_opt,
    feasible_exact,
    implies_exact,
    replay_in_fresh_process,
    run_cases,
    summarise,
    tl_data,
    tl_from_data,
    z_all,
    z_check,
    z_some_violated,
    zr,
)
from monitors.m_algebra import gen_component

MOD = "monitors.m_misc"


def _viol(prop, op, key, what, p, fn):
    return {"key": "%s:%s:%s" % (prop, op, key), "prop": prop, "what": what, "input": p, "monitor": "m_misc", "fn": fn}


def _dy(r):
    return r.choice([-4, -3, -2, -1, 0, 1, 2, 3, 4, 5]) + r.choice([0, 0, 0.5, 0.25, -0.125])


# ----------------------------------------------------------------------------------------------
# C11 behaviour membership / emptiness
# ----------------------------------------------------------------------------------------------
# pinned witnesses (repaired, 2528aca): feasible systems without interior that the solver, run with feasibility tolerances of
# 1e-10, called infeasible - an equality with a large constant, three regions meeting in the point (-4,-4), three consistent
# equalities in two unknowns (60, 50), two regions meeting in the point (2, 0, 5)
PINNED_C11 = [
    {"op": "empty", "terms": [[{"x": 49.0, "y": 7000.0}, 700980.0], [{"x": -49.0, "y": -7000.0}, -700980.0]], "margin": 0, "degenerate": "pinned"},
    {"op": "empty", "terms": [[{"x": -7.0}, 28.0], [{"x": -929.0, "y": 1000.0}, -284.0], [{"x": 492.0, "y": -1.0}, -1964.0]], "margin": 0, "degenerate": "pinned"},
    {"op": "empty", "terms": [[{"x": 68.0, "y": -38.0}, 2180.0], [{"x": -68.0, "y": 38.0}, -2180.0], [{"x": 3.0, "y": 67.0}, 3530.0], [{"x": -3.0, "y": -67.0}, -3530.0], [{"x": 54.0, "y": -30.0}, 1740.0], [{"x": -54.0, "y": 30.0}, -1740.0]], "margin": 0, "degenerate": "pinned"},
    {"op": "empty", "terms": [[{"z": -1.0}, -5.0], [{"x": 0.75, "z": -1000.0}, -4998.5], [{"x": -100.0, "y": 1.0, "z": 10.0}, -150.0], [{"y": 1.0, "z": 1.0}, 5.0], [{"y": -1.0, "z": 1.0}, 5.0]], "margin": 0, "degenerate": "pinned"},
]


def c11_build(seed, tier):
    if seed % 1000003 < len(PINNED_C11):
        return json.loads(json.dumps(PINNED_C11[seed % 1000003]))
    g = Gen(seed)
    r = g.r
    names = ["x", "y", "z", "w"][: r.randint(1, 4)]
    kind = r.choice(["member", "member", "empty"])
    if kind == "member":
        terms = [g.term(names, 1, 3) for _ in range(r.randint(1, 4))]
        # point on / just inside / just outside a boundary of the first term (dyadic data: evaluation is exact)
        t = terms[0]
        vs = list(t.variables.items())
        pt = {n: float(_dy(r)) for n in names}
        v0, c0 = vs[0]
        rest = sum(Fraction(c) * Fraction(pt[v.name]) for v, c in vs[1:])
        target = Fraction(t.constant) + Fraction(r.choice([0, 0, Fraction(1, 8), Fraction(-1, 8), 1, -1]))
        x0 = (target - rest) / Fraction(c0)
        if x0.denominator & (x0.denominator - 1) == 0 and abs(x0) < 1e6:
            pt[v0.name] = float(x0)
        drop = r.random() < 0.12
        if drop:
            pt.pop(r.choice(names))
        if r.random() < 0.2:
            pt["extra"] = 1.0
        return {"op": "contains", "terms": tl_data(terms), "point": pt}
    if r.random() < 0.12:
        # feasible systems without interior (equalities with large constants, n+1 consistent equalities in n unknowns, regions
        # meeting in one point): a solver run with very tight tolerances calls them infeasible
        kind, ts, pt = degenerate_system(g, names)
        return {"op": "empty", "terms": tl_data(ts), "margin": 0, "degenerate": kind}
    margin = r.choice([0, 1, 0.5, 1e-3, -1e-3, -1, -0.5])
    v = names[0]
    base = [g.term(names, 1, 3) for _ in range(r.randint(0, 3))]
    lo = float(r.randint(-5, 5))
    base += g.bounds(v, lo, lo + margin)
    if r.random() < 0.15:
        # constraints without variables (0 <= c), a failing one before a holding one included
        for c in r.choice([[1.0], [-1.0], [-1.0, 2.0], [2.0, -1.0]]):
            base.insert(r.randrange(len(base) + 1), g.PT({}, c))
    return {"op": "empty", "terms": tl_data(base), "margin": margin}


def c11_eval(p):
    from pacti.iocontract import Var

    T = tl_from_data(p["terms"])
    out = {"case_key": json.dumps(p, sort_keys=True), "stats": {}, "nontrivial": True, "sample": None}
    if p["op"] == "contains":
        pt = p["point"]
        needed = {v.name for v in T.vars}
        try:
            got = T.contains_behavior({Var(k): v for k, v in pt.items()})
        except ValueError:
            out["stats"]["ValueError"] = 1
            if needed <= set(pt):
                out["violation"] = _viol("C11", "contains", "valueerror_although_assigned", "contains_behavior raised ValueError although every constrained variable is assigned", p, "c11_eval")
            return out
        except Exception as e:
            out["violation"] = _viol("C14", "contains", type(e).__name__, "contains_behavior raised %s" % type(e).__name__, p, "c11_eval")
            return out
        if not needed <= set(pt):
            out["violation"] = _viol("C11", "contains", "unassigned_not_rejected", "contains_behavior returned although %s unassigned" % sorted(needed - set(pt)), p, "c11_eval")
            return out
        exact = all(sum(Fraction(c) * Fraction(pt[v.name]) for v, c in t.variables.items()) <= Fraction(t.constant) for t in T.terms)
        out["stats"]["answer_%s" % bool(got)] = 1
        out["sample"] = {"terms": [str(t) for t in T.terms], "point": pt, "answer": bool(got)}
        if bool(got) != exact:
            out["violation"] = _viol("C11", "contains", "wrong_answer", "contains_behavior answered %s, exact arithmetic says %s" % (got, exact), p, "c11_eval")
        elif exact:
            # consistency with refinement: contained in everything the list refines (weakened copy)
            W = type(T)([type(t)(dict(t.variables), t.constant + 1.0) for t in T.terms[:2]])
            try:
                if T.refines(W) and not W.contains_behavior({Var(k): v for k, v in pt.items() if k in {x.name for x in W.vars}}):
                    out["violation"] = _viol("C11", "contains", "inconsistent_with_refinement", "behaviour contained in a list but not in a list it refines", p, "c11_eval")
            except ValueError:
                pass
        return out
    try:
        got = T.is_empty()
    except Exception as e:
        out["violation"] = _viol("C14", "is_empty", type(e).__name__, "is_empty raised %s" % type(e).__name__, p, "c11_eval")
        return out
    exact = not feasible_exact(T)
    if exact and feasible_exact(T, box=False):
        # feasible only outside the box |v| <= 1000: outside the property's numerical reading, no verdict
        out["stats"]["feasible_only_outside_the_box"] = 1
        out["nontrivial"] = False
        return out
    out["stats"]["empty_%s" % bool(got)] = 1
    out["sample"] = {"terms": [str(t) for t in T.terms], "margin": p["margin"], "answer": bool(got)}
    if bool(got) != exact:
        out["violation"] = _viol("C11", "is_empty", "wrong_answer", "is_empty answered %s, exact arithmetic says %s (margin %s)" % (got, exact, p["margin"]), p, "c11_eval")
    return out


def c11_case(seed, tier):
    return c11_eval(c11_build(seed, tier))


# ----------------------------------------------------------------------------------------------
# C12 optimisation
# ----------------------------------------------------------------------------------------------
# pinned witness (repaired, 2528aca): three consistent equalities in two unknowns, behaviour (716, -979) - with feasibility
# tolerances of 1e-10 the solver called the system infeasible, with and without presolve: ValueError from optimize
PINNED_C12 = [
    {"op": "optimize", "c": {"in": [], "out": ["x", "y"], "a": [], "g": [[{"x": 482.0, "y": -872.0}, 1198800.0], [{"x": -482.0, "y": 872.0}, -1198800.0], [{"x": -747.0, "y": -393.0}, -150105.0], [{"x": 747.0, "y": 393.0}, 150105.0], [{"x": -290.0, "y": 38.0}, -244842.0], [{"x": 290.0, "y": -38.0}, 244842.0]]}, "objective": {"x": 1}, "maximize": True, "spelling": 0},
]


def c12_build(seed, tier):
    if seed % 1000003 < len(PINNED_C12):
        return json.loads(json.dumps(PINNED_C12[seed % 1000003]))
    g = Gen(seed)
    r = g.r
    ins = ["i%d" % k for k in range(r.randint(1, 2))]
    outs = ["o%d" % k for k in range(r.randint(1, 3))]
    c = gen_component(g, ins, outs)
    if r.random() < 0.15:
        c = type(c)(c.a, c.g | g.PTL(g.bounds(outs[0], 3, 1)), c.inputvars, c.outputvars, simplify=False)
    u = r.random()
    if u < 0.04:
        # a contract without any constraint: every valuation is a behaviour
        c = type(c)(g.PTL([]), g.PTL([]), c.inputvars, c.outputvars, simplify=False)
    elif u < 0.08:
        c = type(c)(g.PTL([]), c.g, c.inputvars, c.outputvars, simplify=False)
    names = ins + outs
    if 0.08 <= u < 0.14:
        # guarantees that pin the behaviours down to a set without interior (see degenerate_system): the optimum exists
        kind, ts, pt = degenerate_system(g, names, r.choice(["redundant_equalities", "equality", "touching"]))
        c = type(c)(g.PTL([]), g.PTL(ts), [g.Var(n) for n in ins], [g.Var(n) for n in outs] + [g.Var(n) for n in sorted({v.name for t in ts for v in t.vars} - set(names))], simplify=False)
        names = [v.name for v in c.inputvars + c.outputvars]
    k = r.randint(1, min(3, len(names)))
    obj = {n: r.choice([-3, -2, -1, 1, 2, 3]) for n in r.sample(names, k)}
    return {"op": "optimize", "c": contract_data(c), "objective": obj, "maximize": r.random() < 0.5, "spelling": r.randint(0, 2)}


def _obj_str(obj, spelling):
    parts = []
    for n, c in obj.items():
        if spelling == 0:
            parts.append("%+d %s" % (c, n))
        elif spelling == 1:
            parts.append("%+d*%s" % (c, n))
        else:
            parts.append("%s %.1f%s" % ("+" if c > 0 else "-", abs(c), n))
    s = " ".join(parts).strip()
    return s[1:].strip() if s.startswith("+") else s


def c12_eval(p):
    c = contract_from_data(p["c"])
    out = {"case_key": json.dumps(p, sort_keys=True), "stats": {}, "nontrivial": True, "sample": None}
    expr = _obj_str(p["objective"], p["spelling"])
    exact = exact_opt(c.a | c.g, p["objective"], p["maximize"])
    if exact[0] == "unknown":
        out["stats"]["oracle_unknown"] = 1
        return out
    try:
        got = c.optimize(expr, p["maximize"])
        kind = "none" if got is None else "value"
    except ValueError as e:
        got, kind = None, "ValueError"
    except Exception as e:
        out["violation"] = _viol("C14", "optimize", type(e).__name__, "optimize raised %s: %s" % (type(e).__name__, str(e)[:150]), p, "c12_eval")
        return out
    out["stats"]["exact_" + exact[0]] = 1
    out["sample"] = {"objective": expr, "maximize": p["maximize"], "got": got if kind != "ValueError" else "ValueError", "exact": str(exact)}
    if exact[0] == "infeasible" and kind != "ValueError":
        out["violation"] = _viol("C12", "optimize", "no_valueerror_on_infeasible", "optimize returned %r for an unsatisfiable contract" % (got,), p, "c12_eval")
    elif exact[0] == "unbounded" and kind != "none":
        out["violation"] = _viol("C12", "optimize", "unbounded_not_none:" + kind, "objective is unbounded over a non-empty set but optimize gave %s" % (kind if kind == "ValueError" else got), p, "c12_eval")
    elif exact[0] == "opt":
        if kind != "value":
            out["violation"] = _viol("C12", "optimize", "bounded_optimum_missed:" + kind, "optimum is %s but optimize gave %s" % (float(exact[1]), kind), p, "c12_eval")
        elif abs(Fraction(got) - exact[1]) > Fraction(1, 10**6) * (1 + abs(exact[1])):
            out["violation"] = _viol("C12", "optimize", "wrong_value", "optimize returned %r, exact optimum %s" % (got, float(exact[1])), p, "c12_eval")
    return out


def c12_case(seed, tier):
    return c12_eval(c12_build(seed, tier))


# ----------------------------------------------------------------------------------------------
# C16 renaming
# ----------------------------------------------------------------------------------------------
def c16_build(seed, tier):
    g = Gen(seed)
    r = g.r
    ins = ["i%d" % k for k in range(r.randint(1, 3))]
    outs = ["o%d" % k for k in range(r.randint(1, 2))]
    c = gen_component(g, ins, outs)
    kind = r.choice(["fresh", "existing_input", "existing_output", "absent", "same", "sequence", "roundtrip", "repeated_pair"])
    allv = ins + outs
    if kind == "fresh":
        maps = [(r.choice(allv), "fresh")]
    elif kind == "existing_input":
        maps = [(r.choice(allv), r.choice(ins))]
    elif kind == "existing_output":
        maps = [(r.choice(allv), r.choice(outs))]
    elif kind == "absent":
        maps = [("ghost", r.choice(allv + ["fresh"]))]
    elif kind == "same":
        v = r.choice(allv)
        maps = [(v, v)]
    elif kind == "roundtrip":
        v = r.choice(allv)
        maps = [(v, "tmp_fresh"), ("tmp_fresh", v)]
    elif kind == "repeated_pair":
        # the same (source, target) pair listed twice with the source re-created in between: order and multiplicity matter
        a = r.choice(allv)
        b = r.choice([x for x in allv if x != a] or ["fresh"])
        maps = r.choice([[(a, "w_"), (b, a), (a, "w_")], [(a, "r_"), ("r_", a), (a, "r_")]])
    else:
        a, b = r.sample(allv, 2) if len(allv) >= 2 else (allv[0], allv[0])
        maps = [(a, "tmp_"), (b, a), ("tmp_", b)]
    d = contract_data(c)
    contradictory = False
    if kind in ("absent", "same", "fresh") and r.random() < 0.3 and d["g"]:
        # a contract (legal with simplify=False) whose guarantees contradict each other: renaming must not care
        t0 = d["g"][0]
        d["g"].append([{k: -v for k, v in t0[0].items()}, -t0[1] - 3.0])
        contradictory = True
    return {"op": "rename", "kind": kind, "c": d, "maps": maps, "via_list": r.random() < 0.5, "contradictory": contradictory}


def _ren_terms(terms, s, t):
    """reference substitution on data: coefficients added when the target already occurs"""
    out = []
    for coefs, const in terms:
        d = dict(coefs)
        if s in d and s != t:
            d[t] = d.get(t, 0.0) + d.pop(s)
        out.append([d, const])
    return out


def c16_eval(p):
    from pacti.iocontract import Var
    from pacti.utils.errors import IncompatibleArgsError

    c = contract_from_data(p["c"])
    out = {"case_key": json.dumps(p, sort_keys=True), "stats": {}, "nontrivial": True, "sample": None}
    snap = json.dumps(contract_data(c))
    # reference result on data
    ins, outs, a, gq = list(p["c"]["in"]), list(p["c"]["out"]), p["c"]["a"], p["c"]["g"]
    expect_error = False
    for s, t in p["maps"]:
        if s == t or (s not in ins and s not in outs):
            continue
        if (s in ins and t in outs) or (s in outs and t in ins):
            expect_error = True
            break
        for lst in (ins, outs):
            if s in lst:
                if t in lst:
                    lst.remove(s)
                else:
                    lst[lst.index(s)] = t
        a, gq = _ren_terms(a, s, t), _ren_terms(gq, s, t)
    try:
        if p["via_list"]:
            res = c.rename_variables([(s, t) for s, t in p["maps"]])
        else:
            res = c
            for s, t in p["maps"]:
                res = res.rename_variable(Var(s), Var(t))
    except IncompatibleArgsError:
        out["stats"]["IncompatibleArgsError"] = 1
        if not expect_error:
            # a renaming may also merge constraints into an ill-formed contract only if the reference is ill formed: not possible here
            out["violation"] = _viol("C16", "rename", "unexpected_rejection", "renaming %s rejected although it creates no input/output clash" % (p["maps"],), p, "c16_eval")
        return out
    except ValueError as e:
        out["stats"]["ValueError"] = 1
        if p["kind"] in ("absent", "same", "fresh"):
            # nothing is merged by such a renaming: there is no reason for the constraints to be looked at again
            out["violation"] = _viol("C16", "rename", "raised_on_%s" % p["kind"], "renaming %s (%s) raised ValueError: %s" % (p["maps"], p["kind"], str(e)[:120]), p, "c16_eval")
        return out
    except Exception as e:
        out["violation"] = _viol("C14", "rename", type(e).__name__, "rename raised %s: %s" % (type(e).__name__, str(e)[:150]), p, "c16_eval")
        return out
    out["stats"]["returned"] = 1
    out["sample"] = {"kind": p["kind"], "maps": p["maps"], "result": {"in": [v.name for v in res.inputvars], "out": [v.name for v in res.outputvars], "g": [str(t) for t in res.g.terms][:4]}}
    if json.dumps(contract_data(c)) != snap:
        out["violation"] = _viol("C13", "rename", "operand_modified", "rename modified its operand", p, "c16_eval")
        return out
    if expect_error:
        out["violation"] = _viol("C16", "rename", "clash_not_rejected", "renaming %s makes a variable both input and output but was accepted" % (p["maps"],), p, "c16_eval")
        return out
    if [v.name for v in res.inputvars] != ins or [v.name for v in res.outputvars] != outs:
        if set(v.name for v in res.inputvars) != set(ins) or set(v.name for v in res.outputvars) != set(outs):
            out["violation"] = _viol("C16", "rename", "interface", "interface after renaming is %s / %s, expected %s / %s" % ([v.name for v in res.inputvars], [v.name for v in res.outputvars], ins, outs), p, "c16_eval")
            return out
    A, G = tl_from_data(a), tl_from_data(gq)
    for hyp, con, what in [([res.a], A, "renamed assumptions weaker than the substituted ones"), ([A], res.a, "renamed assumptions stronger than the substituted ones"), ([res.a, res.g], G, "renamed contract lost a guarantee"), ([A, G], res.g, "renamed contract added a guarantee")]:
        m = implies_exact(hyp, con)
        if m not in (None, "unknown"):
            out["violation"] = _viol("C16", "rename", "meaning", what + "; point %s" % (m,), p, "c16_eval")
            break
    return out


def c16_case(seed, tier):
    return c16_eval(c16_build(seed, tier))


# ----------------------------------------------------------------------------------------------
# C19 equality / hash / copy
# ----------------------------------------------------------------------------------------------
def c19_build(seed, tier):
    g = Gen(seed)
    r = g.r
    c = gen_component(g, ["i0", "i1"][: r.randint(1, 2)], ["o0", "o1"][: r.randint(1, 2)])
    d = contract_data(c)
    edit = r.choice(["none", "permute_in", "permute_out", "change_in", "change_out", "move_in_to_out", "move_out_to_in", "coef", "const", "term_order", "neg_zero", "drop_term"])
    e = json.loads(json.dumps(d))
    if edit == "permute_in" and len(e["in"]) > 1:
        e["in"].reverse()
    elif edit == "permute_out" and len(e["out"]) > 1:
        e["out"].reverse()
    elif edit == "change_in":
        e["in"].append("extra_in")
    elif edit == "change_out":
        e["out"].append("extra_out")
    elif edit in ("move_in_to_out", "move_out_to_in"):
        # the same variables in the same overall order, split differently between inputs and outputs; a variable is added at the
        # boundary (used by no constraint) so that both splits are well formed
        d["in"].append("mid")
        e["out"].insert(0, "mid")
        if edit == "move_out_to_in":
            d, e = e, d
    elif edit == "coef" and e["g"]:
        k = sorted(e["g"][0][0])[0]
        e["g"][0][0][k] += 1.0
    elif edit == "const" and e["g"]:
        e["g"][0][1] += 0.5
    elif edit == "term_order" and len(e["g"]) > 1:
        e["g"].reverse()
    elif edit == "neg_zero" and e["g"]:
        d["g"][0][1] = 0.0
        e["g"][0][1] = -0.0
    elif edit == "drop_term" and e["a"]:
        e["a"].pop()
    return {"op": "eq", "edit": edit, "c": d, "e": e}


def c19_eval(p):
    c, e = contract_from_data(p["c"]), contract_from_data(p["e"])
    out = {"case_key": json.dumps(p, sort_keys=True), "stats": {"edit_" + p["edit"]: 1}, "nontrivial": True, "sample": {"edit": p["edit"]}}
    same = json.dumps(p["c"], sort_keys=False) == json.dumps(p["e"], sort_keys=False) or (p["edit"] == "neg_zero")

    def fields_equal(x, y):
        return [v.name for v in x.inputvars] == [v.name for v in y.inputvars] and [v.name for v in x.outputvars] == [v.name for v in y.outputvars] and x.a == y.a and x.g == y.g

    try:
        eq1, eq2 = (c == e), (e == c)
        fe = fields_equal(c, e)
        if eq1 != eq2:
            out["violation"] = _viol("C19", "eq", "asymmetric", "c == e is %s but e == c is %s" % (eq1, eq2), p, "c19_eval")
        elif bool(eq1) != bool(fe):
            out["violation"] = _viol("C19", "eq", "not_fieldwise", "contracts compare %s but their fields compare %s (edit %s)" % (eq1, fe, p["edit"]), p, "c19_eval")
        elif eq1 and hash(c) != hash(e):
            out["violation"] = _viol("C19", "hash", "equal_objects_different_hash", "equal contracts hash differently (edit %s)" % p["edit"], p, "c19_eval")
        elif same != bool(eq1) and p["edit"] in ("none", "neg_zero"):
            out["violation"] = _viol("C19", "eq", "identical_data_unequal", "contracts built from the same data compare unequal", p, "c19_eval")
        # terms and lists
        for tl1, tl2 in ((c.a, e.a), (c.g, e.g)):
            if (tl1 == tl2) and hash(tl1) != hash(tl2):
                out["violation"] = _viol("C19", "hash", "equal_lists_different_hash", "equal constraint lists hash differently", p, "c19_eval")
            for t1, t2 in zip(tl1.terms, tl2.terms):
                if (t1 == t2) != (t2 == t1):
                    out["violation"] = _viol("C19", "eq", "term_asymmetric", "term equality is not symmetric", p, "c19_eval")
                if (t1 == t2) and hash(t1) != hash(t2):
                    out["violation"] = _viol("C19", "hash", "equal_terms_different_hash", "equal terms hash differently: %s / %s" % (t1, t2), p, "c19_eval")
        # copies (default simplification; dyadic data)
        cc = contract_from_data(p["c"], simplify=True)
        k = cc.copy()
        if not (k == cc) or hash(k) != hash(cc):
            out["violation"] = _viol("C19", "copy", "copy_not_equal", "copy of a contract is not equal to / does not hash like its original", p, "c19_eval")
        for tl in (cc.a, cc.g):
            kk = tl.copy()
            if not (kk == tl) or hash(kk) != hash(tl) or any(not (a == b) or hash(a) != hash(b) for a, b in zip(kk.terms, tl.terms)):
                out["violation"] = _viol("C19", "copy", "list_copy_not_equal", "copy of a constraint list is not equal to its original", p, "c19_eval")
        # history: hashed, then simplified in place, then compared with a twin that was never hashed
        lazy = contract_from_data(p["c"], simplify=False)
        if lazy.g.terms:
            extra = type(lazy.g.terms[0])(dict(lazy.g.terms[0].variables), lazy.g.terms[0].constant + 3.0)  # a redundant guarantee
            lazy = type(lazy)(lazy.a, lazy.g | type(lazy.g)([extra]), lazy.inputvars, lazy.outputvars, simplify=False)
            before = hash(lazy)
            try:
                lazy.simplify()
                twin = type(lazy)(lazy.a.copy(), lazy.g.copy(), list(lazy.inputvars), list(lazy.outputvars), simplify=False)
                if (lazy == twin) and hash(lazy) != hash(twin):
                    out["violation"] = _viol("C19", "hash", "stale_after_in_place_simplify", "a contract simplified in place equals its fresh twin but hashes differently (hash before: %s)" % before, p, "c19_eval")
            except ValueError:
                pass
    except Exception as ex:
        out["violation"] = _viol("C14", "eq", type(ex).__name__, "equality/hash raised %s: %s" % (type(ex).__name__, str(ex)[:150]), p, "c19_eval")
    return out


def c19_case(seed, tier):
    return c19_eval(c19_build(seed, tier))


# ----------------------------------------------------------------------------------------------
# C17 compound contracts
# ----------------------------------------------------------------------------------------------
def _alts(g, names, n, kind):
    r = g.r
    v = names[0]
    alts = []
    lo = -6
    for i in range(n):
        width = r.choice([1, 2, 3])
        if kind == "disjoint":
            a, b = lo, lo + width
            lo = b + r.choice([1, 2])
        elif kind == "touching":
            a, b = lo, lo + width
            lo = b
        elif kind == "overlapping":
            a, b = lo, lo + width + 1
            lo = b - 1
        else:
            a, b = lo + 2, lo  # empty alternative
            lo = lo + 3
        ts = g.bounds(v, a, b)
        if len(names) > 1 and r.random() < 0.6:
            ts.append(g.term(names[1:], 1, 2))
        alts.append(ts)
    return alts


def c17_build(seed, tier):
    g = Gen(seed)
    r = g.r
    names = ["x", "y", "z", "w"][: r.randint(1, 4)]
    kinds = ["disjoint", "touching", "overlapping", "empty"]
    A = _alts(g, names, r.randint(1, 3), r.choice(kinds))
    B = _alts(g, names, r.randint(1, 3), r.choice(kinds))
    pt = {n: float(_dy(r)) for n in names}
    what = r.choice(["contains", "le", "merge", "construct"])
    if len(names) >= 2 and r.random() < 0.1:
        # two alternatives that share exactly their common boundary (a constant of 1e5..1e6) or exactly one point
        kind, ts, pt0 = degenerate_system(g, names, r.choice(["halfplanes", "touching"]))
        half = len(ts) // 2
        A = [g.PTL(ts[:half]), g.PTL(ts[half:])]
        pt = {n: pt0.get(n, 0.0) for n in names}
        what = r.choice(["construct", "le", "merge"])
        if what == "le":
            # the left union reduced to the common part, against a right side the common point is outside of
            A = [g.PTL(ts)]
            n0 = sorted(pt0)[0]
            B = [g.PTL(g.bounds(n0, None, pt0[n0] - 1))]
    if what == "construct" and len(names) >= 2 and r.random() < 0.3:
        # alternatives over SEPARATE variables: two feasible ones always share a behaviour, an infeasible one shares none
        lo, hi = r.randint(-3, 3), r.randint(-3, 3)
        first = g.PTL(g.bounds(names[0], lo, hi))  # empty when lo > hi
        second = g.PTL(g.bounds(names[1], -r.randint(0, 3), r.randint(0, 3)))
        A = [first, second] if r.random() < 0.5 else [second, first]
    return {"op": "compound", "names": names, "A": [tl_data(x) for x in A], "B": [tl_data(x) for x in B], "point": pt, "what": what}


def _union_formula(alts, env):
    import z3

    return z3.Or(*[z_all(a, env) for a in alts]) if alts else z3.BoolVal(False)


def c17_eval(p):
    import z3
    from pacti.contracts.polyhedral_iocontract import NestedPolyhedra, PolyhedralIoContractCompound
    from pacti.iocontract import Var

    A = [tl_from_data(x) for x in p["A"]]
    B = [tl_from_data(x) for x in p["B"]]
    out = {"case_key": json.dumps(p, sort_keys=True), "stats": {p["what"]: 1}, "nontrivial": True, "sample": {"what": p["what"], "A": [[str(t) for t in a.terms] for a in A][:2]}}
    try:
        if p["what"] == "contains":
            N = NestedPolyhedra(A, force_empty_intersection=False)
            beh = {Var(k): v for k, v in p["point"].items()}
            try:
                got = N.contains_behavior(beh)
            except ValueError:
                return out
            exact = any(all(sum(Fraction(c) * Fraction(p["point"][v.name]) for v, c in t.variables.items()) <= Fraction(t.constant) for t in a.terms) for a in A)
            if bool(got) != exact:
                out["violation"] = _viol("C17", "contains", "wrong_answer", "nested contains_behavior answered %s, exact %s" % (got, exact), p, "c17_eval")
        elif p["what"] == "le":
            NA, NB = NestedPolyhedra(A, False), NestedPolyhedra(B, False)
            got = NA <= NB
            if got:
                env = Env()
                m = z_check([_union_formula(A, env), z3.Not(z3.Or(*[z3.And(*[z3.Not(z_some_violated([t], env)) for t in b.terms]) for b in B]) if B else z3.BoolVal(False))], env)
                if m not in (None, "unknown"):
                    out["violation"] = _viol("C17", "le", "true_without_containment", "nested <= answered True but point %s of the left union is outside the right union" % (m,), p, "c17_eval")
        elif p["what"] == "construct":
            overlap = False
            for i in range(len(A)):
                for j in range(i + 1, len(A)):
                    if feasible_exact(type(A[0])(list(A[i].terms) + list(A[j].terms)), box=False):
                        overlap = True
            try:
                NestedPolyhedra(A, force_empty_intersection=True)
                raised = False
            except ValueError:
                raised = True
            if raised != overlap:
                out["violation"] = _viol("C17", "construct", "overlap_check", "overlap rejection is %s but alternatives %s a behaviour" % (raised, "share" if overlap else "do not share"), p, "c17_eval")
        else:
            names = p["names"]
            ins = [Var(n) for n in names]
            c1 = PolyhedralIoContractCompound(NestedPolyhedra([type(A[0])([])], True), NestedPolyhedra(A, False), ins, [])
            c2 = PolyhedralIoContractCompound(NestedPolyhedra([type(A[0])([])], True), NestedPolyhedra(B, False), ins, [])
            try:
                m = c1.merge(c2)
            except ValueError:
                return out
            got = m.g.nested_termlist
            env = Env()
            both = z3.And(_union_formula(A, env), _union_formula(B, env))
            res = _union_formula(got, env)
            r1 = z_check([both, z3.Not(z3.Or(*[z3.And(*[z3.Not(z_some_violated([t], env)) for t in gl.terms]) for gl in got]) if got else z3.BoolVal(False))], env)
            r2 = z_check([res, z3.Not(z3.And(z3.Or(*[z3.And(*[z3.Not(z_some_violated([t], env)) for t in a.terms]) for a in A]) if A else z3.BoolVal(False), z3.Or(*[z3.And(*[z3.Not(z_some_violated([t], env)) for t in b.terms]) for b in B]) if B else z3.BoolVal(False)))], env)
            if r1 not in (None, "unknown") or r2 not in (None, "unknown"):
                out["violation"] = _viol("C17", "merge", "not_intersection", "compound merge guarantees are not the intersection of the unions; point %s" % (r1 if r1 not in (None, "unknown") else r2,), p, "c17_eval")
            elif any(not feasible_exact(gl, box=False) for gl in got):
                out["violation"] = _viol("C17", "merge", "empty_alternative_kept", "compound merge kept an empty alternative", p, "c17_eval")
    except Exception as e:
        out["violation"] = _viol("C14", "compound", type(e).__name__, "compound operation raised %s: %s" % (type(e).__name__, str(e)[:150]), p, "c17_eval")
    return out


def c17_case(seed, tier):
    return c17_eval(c17_build(seed, tier))


# ----------------------------------------------------------------------------------------------
FAMILIES = {"C11": "c11_case", "C12": "c12_case", "C16": "c16_case", "C19": "c19_case", "C17": "c17_case"}
RULES = {
    "C11": "constraint lists over 1-4 variables; behaviours with dyadic values placed on, 1/8 inside, 1/8 outside and 1 away from a boundary, with missing and extra variables; emptiness of systems with margins 0, +-1e-3, +-0.5, +-1; answers compared with exact rational arithmetic / z3",
    "C12": "satisfiable and unsatisfiable contracts over up to 5 variables, objectives with 1-3 small-integer coefficients in three spellings, both directions; compared with z3 Optimize (exact) within 1e-6 relative",
    "C16": "(source,target) pairs: fresh, existing input, existing output, absent, equal, swaps through a temporary, round trips; via rename_variable and rename_variables; meaning compared with a reference substitution by z3",
    "C19": "contracts and single-field edits of them (permute/change inputs, outputs, the same variable as last input or as first output, one coefficient, one constant, term order, sign of a zero constant, dropped term); symmetry, field-wise iff, hash congruence, copy equality",
    "C17": "compound contracts with 1-3 alternatives per side over up to 4 variables: disjoint, touching, overlapping, empty; contains / <= / merge / disjointness check compared with z3",
}


# violation keys of one family that are ALSO evidence against another property (the check of that property runs the family as an
# extra monitor with want=<that property>)
ALSO = {
    "C16:rename:interface": ["C06"],
    "C16:rename:unexpected_rejection": ["C06"],
    "C16:rename:clash_not_rejected": ["C06"],
}


def run(prop, tier, seed, src, jobs, want=None):
    fname = FAMILIES[prop]
    target = want or prop
    budget = 35 if tier == "quick" else 600
    total = 2400 if tier == "quick" else 60000
    seeds = [seed * 1000003 + i for i in range(total)]
    results = run_cases(MOD, fname, src, seeds, tier, jobs, budget)
    for r in results:
        v = r.get("violation")
        if v and v.get("prop") != target:
            if target in ALSO.get(v.get("key"), []):
                r["violation"] = dict(v, prop=target, key=v["key"].replace(v["prop"] + ":", target + ":", 1), replay_key=v["key"])
                continue
            r["other_violation"] = v
            r["violation"] = None
    _confirm(results, src)
    name = "m_misc[%s]" % prop if not want else "m_misc[%s for %s]" % (prop, want)
    return summarise(name, results, RULES[prop], "bounded stand-in: random sampling with seed %d, shapes as stated in the rule" % seed)


def _confirm(results, src, limit=6):
    seen = {}
    for r in results:
        v = r.get("violation")
        if not v:
            continue
        k = v["key"]
        seen.setdefault(k, 0)
        if seen[k] >= limit:
            r["violation"] = None
            continue
        seen[k] += 1
        rep = replay_in_fresh_process(MOD, v["fn"], src, v["input"])
        vv = rep.get("violation") if isinstance(rep, dict) else None
        if not vv or vv.get("key") != v.get("replay_key", k):
            v["reproduced"] = False
            v["native"] = rep
            r["violation"] = None if (isinstance(rep, dict) and not rep.get("error")) else v
        else:
            v["reproduced"] = True
            v["native"] = {"what": vv.get("what")}


def replay(r, src):
    w = r["witness"]
    rep = replay_in_fresh_process(MOD, w["fn"], src, w["input"])
    print(json.dumps(rep, indent=1, default=str)[:3000])
    return 1 if (isinstance(rep, dict) and rep.get("violation")) else 0
