"""Table-driven TermList implementation ("model term lists") running the REAL algebra layer natively.

Two uses:
 * bounded stand-in for C05/C06: random finite constraint domains (terms are table rows: syntactic variables and a truth
   value at one behaviour), random interface wirings, and random primitive outcomes drawn among those ALLOWED by the
   primitive contracts; compose / quotient / merge of /repo/src run natively on them and the C01/C02/C08 obligations,
   the prescribed interfaces, well-formedness and exception classes are checked;
 * native replay of a counter-model of a domain-U verification condition: the z3 model's finite universes and the
   outcomes of the primitive calls are turned into such a table and a script, and the same native run is evaluated.
"""
from __future__ import annotations

import itertools
import json
import random

from monitors.lib import replay_in_fresh_process, run_cases, summarise

MOD = "monitors.m_model"


def _classes():
    from pacti.iocontract import IoContract, Term, TermList, Var

    class MTerm(Term):
        def __init__(self, tid, names, holds):
            self.tid, self.names, self.holds = tid, list(names), bool(holds)

        @property
        def vars(self):  # noqa: A003
            return [Var(n) for n in self.names]

        def contains_var(self, v):
            return v.name in self.names

        def __eq__(self, other):
            return isinstance(other, MTerm) and other.tid == self.tid

        def __hash__(self):
            return hash(("mterm", self.tid))

        def __str__(self):
            return "t%s%s%s" % (self.tid, self.names, "+" if self.holds else "-")

        def __repr__(self):
            return str(self)

        def copy(self):
            return MTerm(self.tid, self.names, self.holds)

        def rename_variable(self, s, t):
            raise NotImplementedError

    class MTermList(TermList):
        world = None  # shared World

        def __hash__(self):
            return hash(tuple(t.tid for t in self.terms))

        def _sat(self):
            return all(t.holds for t in self.terms)

        def _ids(self):
            return [t.tid for t in self.terms]

        def contains_behavior(self, behavior):
            return self._sat()

        def is_empty(self):
            return self.world.outcome("is_empty", self, None, None)

        def refines(self, other):
            return self.world.outcome("refines", self, other, None)

        def simplify(self, context=None):
            return self.world.outcome("simplify", self, context, None)

        def elim_vars_by_refining(self, context, vars_to_elim, simplify, tactics_order):
            return self.world.outcome("refine", self, context, vars_to_elim), []

        def elim_vars_by_relaxing(self, context, vars_to_elim, simplify, tactics_order):
            return self.world.outcome("relax", self, context, vars_to_elim), []

    return IoContract, Var, MTerm, MTermList


class World:
    """the finite constraint domain and the policy deciding primitive outcomes"""

    def __init__(self, terms, script=None, rnd=None):
        self.IoContract, self.Var, self.MTerm, self.MTermList = _classes()
        self.MTermList.world = self
        self.pool = {t["id"]: self.MTerm(t["id"], t["vars"], t["holds"]) for t in terms}
        self.script = list(script) if script is not None else None
        self.rnd = rnd
        self.log = []
        self.script_error = None

    def tl(self, ids):
        return self.MTermList([self.pool[i].copy() for i in ids])

    def contract(self, d):
        c = self.IoContract.__new__(self.IoContract)
        c.a, c.g = self.tl(d["a"]), self.tl(d["g"])
        c.inputvars = [self.Var(n) for n in d["in"]]
        c.outputvars = [self.Var(n) for n in d["out"]]
        return c

    def outcome(self, op, s, ctx, elim):
        if self.script is not None:
            if not self.script:
                self.script_error = "native run made more primitive calls than the model's path"
                raise ValueError("script exhausted")
            o = self.script.pop(0)
            if o["op"] != op:
                self.script_error = "native primitive call %s where the model's path has %s" % (op, o["op"])
            self.log.append(dict(o, self_ids=s._ids()))
            if o["outcome"] == "ValueError":
                raise ValueError("scripted primitive failure")
            if op in ("is_empty", "refines"):
                return bool(o["result"])
            return self.tl(o["result"])
        return self.random_outcome(op, s, ctx, elim)

    # random outcomes among those the primitive contracts allow (at the single behaviour of this world)
    def random_outcome(self, op, s, ctx, elim):
        r = self.rnd
        csat = ctx._sat() if ctx is not None else True
        cvars = set(v.name for v in ctx.vars) if ctx is not None else set()
        svars = set(v.name for v in s.vars)
        if op == "is_empty":
            res = (not s._sat()) and r.random() < 0.5  # True only if no behaviour (here: the one behaviour) satisfies it
            self.log.append({"op": op, "outcome": "return", "result": res})
            return res
        if op == "refines":
            ok = (not s._sat()) or ctx._sat()
            res = ok and r.random() < 0.6
            self.log.append({"op": op, "outcome": "return", "result": res})
            return res
        if r.random() < 0.15 and not (op == "simplify" and csat and s._sat()):
            self.log.append({"op": op, "outcome": "ValueError"})
            raise ValueError("primitive declined")
        cands = list(self.pool.values())
        if op == "simplify":
            keep = [t for t in s.terms if r.random() < 0.6]
            if csat and all(t.holds for t in keep) != s._sat():
                keep = list(s.terms)
            res = [t.tid for t in keep]
        else:
            allowed = [t for t in cands if set(t.names) <= svars | cvars]
            k = r.randint(0, min(3, len(allowed)))
            pick = r.sample(allowed, k)
            if op == "refine":
                # context & result => self
                if csat and all(t.holds for t in pick) and not s._sat():
                    falsy = [t for t in allowed if not t.holds]
                    if not falsy:
                        self.log.append({"op": op, "outcome": "ValueError"})
                        raise ValueError("no admissible refinement")
                    pick.append(r.choice(falsy))
            else:
                # context & self => result
                if csat and s._sat():
                    pick = [t for t in pick if t.holds]
                if r.random() < 0.7 and elim is not None:
                    en = {v.name for v in elim}
                    pick = [t for t in pick if not (set(t.names) & en)] or pick
            res = [t.tid for t in pick]
        self.log.append({"op": op, "outcome": "return", "result": res})
        return self.tl(res)


def _wf(c):
    ins, outs = [v.name for v in c.inputvars], [v.name for v in c.outputvars]
    return len(set(ins)) == len(ins) and len(set(outs)) == len(outs) and not (set(ins) & set(outs)) and {v.name for v in c.a.vars} <= set(ins) and {v.name for v in c.g.vars} <= set(ins) | set(outs)


def evaluate(p):
    """p: {terms, c1, c2, op, keep/add, simplify, script?, seed?}  -> verdict dict (used by the monitor and by replays)"""
    from pacti.utils.errors import IncompatibleArgsError

    w = World(p["terms"], p.get("script"), random.Random(p.get("seed", 0)))
    c1, c2 = w.contract(p["c1"]), w.contract(p["c2"])
    out = {"case_key": json.dumps({k: p[k] for k in p if k != "script"}, sort_keys=True), "stats": {}, "nontrivial": False, "sample": None}
    op = p["op"]
    snap = json.dumps([p["c1"], p["c2"]])
    viol = []
    try:
        if op == "compose":
            res, _ = c1.compose_tactics(c2, [w.Var(n) for n in p.get("keep", [])], p.get("simplify", True), [1, 2, 3])
        elif op == "quotient":
            res, _ = c1.quotient_tactics(c2, [w.Var(n) for n in p.get("add", [])], p.get("simplify", True), [1, 2, 3])
        else:
            res = c1.merge(c2)
    except IncompatibleArgsError:
        out["stats"]["IncompatibleArgsError"] = 1
        res = None
    except ValueError as e:
        out["stats"]["ValueError"] = 1
        res = None
        if not any(l.get("outcome") == "ValueError" for l in w.log):
            viol.append(("C14", "valueerror_not_from_primitive", "ValueError raised by the algebra layer itself: %s" % e))
    except Exception as e:
        res = None
        viol.append(("C14", "undocumented:" + type(e).__name__, "%s escaped %s: %s" % (type(e).__name__, op, str(e)[:120])))
    I1, O1, I2, O2 = set(p["c1"]["in"]), set(p["c1"]["out"]), set(p["c2"]["in"]), set(p["c2"]["out"])
    A1, G1, A2, G2 = c1.a._sat(), c1.g._sat(), c2.a._sat(), c2.g._sat()
    cur = json.dumps([{"in": [v.name for v in c.inputvars], "out": [v.name for v in c.outputvars], "a": c.a._ids(), "g": c.g._ids()} for c in (c1, c2)])
    if cur != snap:
        viol.append(("C13", "operand_modified", "%s modified an operand" % op))
    if res is None:
        # required rejections must have happened - nothing to check here; meaningless requests that were NOT rejected are checked below
        pass
    else:
        out["nontrivial"] = True
        out["stats"]["returned"] = 1
        ri, ro = {v.name for v in res.inputvars}, {v.name for v in res.outputvars}
        Ar, Gr = res.a._sat(), res.g._sat()
        if not _wf(res):
            viol.append(("C06", "illformed_result", "%s returned an ill-formed contract" % op))
        if op == "compose":
            K = set(p.get("keep", []))
            if (O1 & O2) or not K <= (O1 | O2):
                viol.append(("C06", "meaningless_request_accepted", "compose accepted shared outputs / a kept non-output"))
            if ri != (I1 - O2) | (I2 - O1) or ro != ((O1 - I2) | (O2 - I1)) | K:
                viol.append(("C06", "interface", "compose interface %s/%s is not the prescribed one" % (sorted(ri), sorted(ro))))
            if Ar and ((not A1) or G1) and ((not A2) or G2) and not (A1 and A2 and Gr):
                viol.append(("C05", "compose_unsound", "composition is not a sound abstraction at the model behaviour"))
        elif op == "quotient":
            K = set(p.get("add", []))
            if ((O1 - O2) & I2) or not K <= (O2 | I1):
                viol.append(("C06", "meaningless_request_accepted", "quotient accepted an output read by the divisor / a bad additional input"))
            if ri != (I1 - I2) | (O2 - O1) | K or ro != (O1 - O2) | (I2 - I1):
                viol.append(("C06", "interface", "quotient interface %s/%s is not the prescribed one" % (sorted(ri), sorted(ro))))
            # dividend = c1, divisor = c2
            if A1 and ((not A2) or G2) and ((not Ar) or Gr) and not (A2 and Ar and G1):
                viol.append(("C05", "quotient_unsound", "quotient composed with the divisor does not refine the dividend at the model behaviour"))
        else:
            if ri != I1 | I2 or ro != O1 | O2:
                viol.append(("C06", "interface", "merge interface is not the union"))
            if Ar != (A1 and A2) or (Ar and Gr != (G1 and G2)):
                viol.append(("C05", "merge_not_exact", "merge is not the exact conjunction at the model behaviour"))
        out["sample"] = {"op": op, "c1": p["c1"], "c2": p["c2"], "primitive_outcomes": w.log[:6], "result": {"in": sorted(ri), "out": sorted(ro), "a": res.a._ids(), "g": res.g._ids()}}
    out["script_error"] = w.script_error
    out["primitive_log"] = w.log
    if viol:
        prop, key, what = viol[0]
        out["violation"] = {"key": "%s:%s:%s" % (prop, op, key), "prop": prop, "what": what, "input": dict(p, script=[{k: v for k, v in l.items() if k != "self_ids"} for l in w.log]), "monitor": "m_model", "fn": "evaluate", "all": [list(v) for v in viol]}
    return out


def build(seed, tier):
    r = random.Random(seed)
    names = ["v%d" % i for i in range(r.randint(2, 5))]
    roles1 = {n: r.choice("ioa") for n in names}
    roles2 = {n: r.choice("ioa") for n in names}
    if r.random() < 0.85:
        for n in names:
            if roles1[n] == "o" and roles2[n] == "o":
                roles2[n] = r.choice("ia")

    def iface(roles):
        return [n for n in names if roles[n] == "i"], [n for n in names if roles[n] == "o"]

    i1, o1 = iface(roles1)
    i2, o2 = iface(roles2)
    terms = []
    for k in range(r.randint(3, 8)):
        vs = r.sample(names, r.randint(1, min(3, len(names))))
        terms.append({"id": k, "vars": vs, "holds": r.random() < 0.6})

    def pick(allowed):
        c = [t["id"] for t in terms if set(t["vars"]) <= set(allowed)]
        return r.sample(c, r.randint(0, min(3, len(c))))

    c1 = {"in": i1, "out": o1, "a": pick(i1), "g": pick(i1 + o1)}
    c2 = {"in": i2, "out": o2, "a": pick(i2), "g": pick(i2 + o2)}
    op = r.choice(["compose", "compose", "quotient", "quotient", "merge"])
    p = {"op": op, "terms": terms, "c1": c1, "c2": c2, "simplify": r.random() < 0.5, "seed": seed}
    if op == "compose":
        cand = [n for n in o1 + o2 if n in i1 + i2]
        p["keep"] = [n for n in cand if r.random() < 0.3] + (["stranger"] if r.random() < 0.03 else [])
    elif op == "quotient":
        cand = o2 + i1
        p["add"] = [n for n in cand if r.random() < 0.2] + (["stranger"] if r.random() < 0.03 else [])
    return p


def case(seed, tier):
    return evaluate(build(seed, tier))


RULE = (
    "finite constraint domains (3-8 table terms over 2-5 variables with a truth value at one behaviour), every role assignment drawn at random, "
    "compose / quotient / merge of the real algebra layer executed natively on a table-driven TermList whose primitive outcomes are drawn at random "
    "among those the primitive contracts allow (success with or without leftovers, ValueError, refines True/False); obligations of C01/C02/C08, prescribed interfaces, "
    "well-formedness, rejection of meaningless requests and exception classes checked; non-trivial = the operation returned a contract"
)


def run(prop, tier, seed, src, jobs):
    total = 6000 if tier == "quick" else 150000
    seeds = [seed * 1000003 + i for i in range(total)]
    results = run_cases(MOD, "case", src, seeds, tier, jobs, 30 if tier == "quick" else 600)
    allowed = {"C05": {"C05", "C14"}, "C06": {"C06"}}.get(prop, {prop})
    for r in results:
        v = r.get("violation")
        if v and v.get("prop") not in allowed:
            # pick the first violation of an allowed property, if any
            alt = [x for x in v.get("all", []) if x[0] in allowed]
            if alt:
                v = dict(v, prop=alt[0][0], key="%s:%s:%s" % (alt[0][0], v["input"]["op"], alt[0][1]), what=alt[0][2])
                r["violation"] = v
            else:
                r["other_violation"] = v
                r["violation"] = None
    seen = {}
    for r in results:
        v = r.get("violation")
        if not v:
            continue
        k = v["key"]
        seen[k] = seen.get(k, 0) + 1
        if seen[k] > 4:
            r["violation"] = None
            continue
        rep = replay_in_fresh_process(MOD, "evaluate", src, v["input"])
        vv = rep.get("violation") if isinstance(rep, dict) else None
        v["reproduced"] = bool(vv)
        v["native"] = {"what": (vv or {}).get("what"), "script_error": rep.get("script_error") if isinstance(rep, dict) else None}
        if not vv:
            r["violation"] = None
    return summarise("m_model[%s]" % prop, results, RULE, "bounded stand-in: random finite constraint domains, seed %d" % seed)


def replay(r, src):
    w = r["witness"]
    rep = replay_in_fresh_process(MOD, "evaluate", src, w["input"])
    print(json.dumps({k: rep.get(k) for k in ("violation", "script_error", "primitive_log")} if isinstance(rep, dict) else rep, indent=1, default=str)[:3000])
    return 1 if (isinstance(rep, dict) and rep.get("violation")) else 0
