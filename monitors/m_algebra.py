"""Bounded stand-ins for C01, C02, C03, C04, C07, C08, C15: the contract postconditions evaluated with an exact solver
on natively executed operations of /repo/src, real scipy/HiGHS and sympy included."""
from __future__ import annotations

import itertools
import json
import random

from monitors.lib import (
    degenerate_system,
    SLACK,
    TOL,
    Env,
    Gen,
    contract_data,
    contract_from_data,
    feasible_exact,
    implies_exact,
    replay_in_fresh_process,
    run_cases,
    summarise,
    tl_data,
    tl_from_data,
    z_all,
    z_check,
    z_some_violated,
)

ORDERS = [[1, 2, 3, 4, 5], [1], [2], [3], [4], [5], [2, 1], [4, 2], [5, 4, 3, 2, 1], [3, 1, 2]]
DOC_EXC = ("IncompatibleArgsError", "ValueError")


def _exc_ok(e):
    from pacti.utils.errors import IncompatibleArgsError

    return type(e) in (IncompatibleArgsError, ValueError)


def _tactics_used(stats):
    used = set()
    for lst in stats or []:
        for t in lst or []:
            try:
                used.add(int(t[0]))
            except Exception:
                pass
    return sorted(used)


def _wf(c):
    ins, outs = [v.name for v in c.inputvars], [v.name for v in c.outputvars]
    if len(set(ins)) != len(ins) or len(set(outs)) != len(outs) or set(ins) & set(outs):
        return False
    if not {v.name for v in c.a.vars} <= set(ins):
        return False
    return {v.name for v in c.g.vars} <= set(ins) | set(outs)


# ----------------------------------------------------------------------------------------------
# contract generators
# ----------------------------------------------------------------------------------------------
def gen_component(g, ins, outs, rich=True):
    """a contract with bounded-ish assumptions on inputs and guarantees tying outputs to inputs"""
    from pacti.contracts import PolyhedralIoContract

    r = g.r
    a = []
    for v in ins:
        k = r.random()
        if k < 0.5:
            a += g.bounds(v, r.choice([None, 0, -r.randint(0, 5)]), r.randint(1, 10))
        elif k < 0.65 and len(ins) > 1:
            a.append(g.term(ins, 1, 2))
    gs = []
    for o in outs:
        k = r.random()
        src = r.sample(ins, min(len(ins), r.randint(0, 2))) if ins else []
        coeffs = {g.Var(o): float(r.choice([1, 1, 2, -1]))}
        for s in src:
            coeffs[g.Var(s)] = -g.coef() if r.random() < 0.8 else g.coef()
        c = g.const()
        t = g.PT(coeffs, c)
        gs.append(t)
        if k < 0.6:
            gs.append(g.PT({kk: -vv for kk, vv in coeffs.items()}, -c + r.choice([0, 1, 2, 0.5])))
        if k > 0.85:
            gs += g.bounds(o, -r.randint(0, 9), r.randint(1, 9))
    if rich and r.random() < 0.3 and (ins or outs):
        gs.append(g.term(ins + outs, 1, 3))
    return PolyhedralIoContract(g.PTL(a), g.PTL(gs), [g.Var(x) for x in ins], [g.Var(x) for x in outs], simplify=False)


WIRINGS = ["cascade12", "cascade21", "independent", "shared_inputs", "feedback", "partial"]


def gen_pair(g):
    r = g.r
    w = r.choice(WIRINGS)
    if w == "cascade12":
        i1 = ["i%d" % k for k in range(r.randint(1, 2))]
        o1 = ["m%d" % k for k in range(r.randint(1, 2))]
        i2 = o1[: r.randint(1, len(o1))] + (["j0"] if r.random() < 0.4 else [])
        o2 = ["o%d" % k for k in range(r.randint(1, 2))]
    elif w == "cascade21":
        i2 = ["i%d" % k for k in range(r.randint(1, 2))]
        o2 = ["m%d" % k for k in range(r.randint(1, 2))]
        i1 = o2[: r.randint(1, len(o2))] + (["j0"] if r.random() < 0.4 else [])
        o1 = ["o%d" % k for k in range(r.randint(1, 2))]
    elif w == "independent":
        i1, o1, i2, o2 = ["i0"], ["o0"], ["j0"], ["p0"]
    elif w == "shared_inputs":
        i1, o1, i2, o2 = ["i0", "s"], ["o0"], ["s", "j0"][: r.randint(1, 2)], ["p0"]
    elif w == "feedback":
        i1, o1, i2, o2 = ["i0", "f2"], ["f1"], ["f1"], ["f2", "p0"]
    else:
        pool = ["v%d" % k for k in range(5)]
        i1, o1, i2, o2 = [], [], [], []
        for v in pool:
            a, b = r.choice("ioa"), r.choice("ioa")
            if a == "o" and b == "o" and r.random() < 0.9:
                b = "i"
            (i1 if a == "i" else o1 if a == "o" else []).append(v)
            (i2 if b == "i" else o2 if b == "o" else []).append(v)
        if not o1:
            o1 = ["q1"]
        if not o2:
            o2 = ["q2"]
    c1, c2 = gen_component(g, i1, o1), gen_component(g, i2, o2)
    return w, c1, c2


# ----------------------------------------------------------------------------------------------
# C01 / C15 : compose
# ----------------------------------------------------------------------------------------------
def _badly_scaled(*contracts):
    """do the coefficients of these contracts span six orders of magnitude or more?  (the LP solver works with absolute
    tolerances around 1e-7..1e-9: on such rows its answers can be wrong - known finding)"""
    mags = [abs(float(v)) for c in contracts for tl in (c.a, c.g) for t in tl.terms for v in t.variables.values() if v != 0]
    return bool(mags) and max(mags) / min(mags) >= 1e6


# witnesses of the known finding "LP answers on badly scaled rows" (always run, so that the finding is printed on every run)
PINNED_COMPOSE = [
    {"op": "compose", "wiring": "pinned_cascade", "c1": {"in": [], "out": ["y"], "a": [], "g": [[{"y": -20000.0}, -20000.0]]}, "c2": {"in": ["y"], "out": ["z"], "a": [], "g": [[{"z": 1.0, "y": -0.001}, 0.0]]}, "keep": [], "simplify": True, "order": [1, 2, 3, 4, 5], "swap": False},
    # repaired (63535c3): eliminating x with the other half of the equality leaves 0 <= 0.7 - 0.1 * 7.0 = -1.1e-16, which was read as a
    # contradiction: ValueError from a composition that has the result i + y <= -7
    {"op": "compose", "wiring": "pinned_rounding_residue", "c1": {"in": ["i"], "out": ["x"], "a": [], "g": [[{"x": 0.1, "i": -0.1}, 0.7], [{"x": -0.1, "i": 0.1}, -0.7]]}, "c2": {"in": ["x"], "out": ["y"], "a": [], "g": [[{"y": 1.0, "x": 1.0}, 0.0]]}, "keep": [], "simplify": True, "order": [1, 2, 3, 4, 5], "swap": False, "must_return": True},
    {"op": "compose", "wiring": "pinned_tiny_coefficient", "c1": {"in": ["x"], "out": ["p"], "a": [[{"x": 1.0}, 1.0]], "g": [[{"p": 1.0, "x": -1.0}, 0.0]]}, "c2": {"in": ["w"], "out": ["z"], "a": [[{"w": 1e-9}, 1e-8]], "g": [[{"z": 1.0, "w": -1.0}, 0.0]]}, "keep": [], "simplify": True, "order": [1, 2, 3, 4, 5], "swap": False},
]


def compose_build(seed, tier):
    if seed % 1000003 < len(PINNED_COMPOSE):
        return json.loads(json.dumps(PINNED_COMPOSE[seed % 1000003]))
    g = Gen(seed)
    r = g.r
    w, c1, c2 = gen_pair(g)
    outs = [v.name for v in c1.outputvars] + [v.name for v in c2.outputvars]
    ins = [v.name for v in c1.inputvars] + [v.name for v in c2.inputvars]
    internal = [o for o in outs if o in ins]
    keep = [o for o in internal if r.random() < 0.3]
    if r.random() < 0.03:
        keep.append("nonoutput")
    if r.random() < 0.25:
        # overlap: copy an interface-level guarantee of one side into the other (C15 family)
        both = [t for t in c1.g.terms if {v.name for v in t.vars} <= {v.name for v in c2.inputvars + c2.outputvars}]
        if both:
            c2 = type(c2)(c2.a, c2.g | g.PTL([both[0].copy()]), c2.inputvars, c2.outputvars, simplify=False)
    return {"op": "compose", "wiring": w, "c1": contract_data(c1), "c2": contract_data(c2), "keep": keep, "simplify": r.random() < 0.5, "order": r.choice(ORDERS), "swap": r.random() < 0.3}


def compose_eval(p):
    c1, c2 = contract_from_data(p["c1"]), contract_from_data(p["c2"])
    if p.get("swap"):
        c1, c2 = c2, c1
    out = {"case_key": json.dumps(p, sort_keys=True), "stats": {}, "sample": None}
    snap = (json.dumps(contract_data(c1)), json.dumps(contract_data(c2)))
    try:
        res, stats = c1.compose_tactics(c2, list(p["keep"]), p["simplify"], list(p["order"]))
    except Exception as e:
        out["stats"]["raised_" + type(e).__name__] = 1
        out["nontrivial"] = False
        if not _exc_ok(e):
            out["violation"] = {"key": "C14:compose:" + type(e).__name__, "prop": "C14", "what": "compose raised undocumented %s: %s" % (type(e).__name__, str(e)[:200]), "input": p, "monitor": "m_algebra", "fn": "compose_eval"}
        elif p.get("must_return"):
            out["violation"] = {"key": "C14:compose:%s_for_a_composition_that_exists" % type(e).__name__, "prop": "C14", "what": "compose raised %s (%s) although the composition exists" % (type(e).__name__, str(e)[:120]), "input": p, "monitor": "m_algebra", "fn": "compose_eval"}
        if (json.dumps(contract_data(c1)), json.dumps(contract_data(c2))) != snap:
            out["violation"] = {"key": "C13:compose:operand_modified_on_error", "prop": "C13", "what": "operand modified by a failing compose", "input": p, "monitor": "m_algebra", "fn": "compose_eval"}
        return out
    used = _tactics_used(stats)
    out["stats"]["returned"] = 1
    for t in used:
        out["stats"]["tactic_%d" % t] = 1
    out["nontrivial"] = bool(res.g.terms or res.a.terms)
    out["sample"] = {"wiring": p["wiring"], "keep": p["keep"], "simplify": p["simplify"], "order": p["order"], "tactics_used": used, "result": {"in": [v.name for v in res.inputvars], "out": [v.name for v in res.outputvars], "a": [str(t) for t in res.a.terms][:4], "g": [str(t) for t in res.g.terms][:4]}}
    viol = []
    if (json.dumps(contract_data(c1)), json.dumps(contract_data(c2))) != snap:
        viol.append(("C13", "operands_modified", "compose modified an operand"))
    if not _wf(res):
        viol.append(("C06", "illformed_result", "compose returned an ill-formed contract"))
    I1, O1, I2, O2 = ({v.name for v in c1.inputvars}, {v.name for v in c1.outputvars}, {v.name for v in c2.inputvars}, {v.name for v in c2.outputvars})
    exp_in = (I1 - O2) | (I2 - O1)
    exp_out = ((O1 - I2) | (O2 - I1)) | set(p["keep"])
    if {v.name for v in res.inputvars} != exp_in or {v.name for v in res.outputvars} != exp_out:
        viol.append(("C06", "interface", "compose interface differs from the prescribed one"))
    # C01 soundness
    env = Env()
    import z3

    hyp = [z_all(res.a, env), z3.Implies(z_all(c1.a, env, SLACK), z_all(c1.g, env)), z3.Implies(z_all(c2.a, env, SLACK), z_all(c2.g, env))]
    bad = z3.Or(z_some_violated(c1.a, env), z_some_violated(c2.a, env), z_some_violated(res.g, env))
    m = z_check(hyp + [bad], env)
    if m == "unknown":
        out["stats"]["oracle_unknown"] = 1
    elif m is not None:
        viol.append(("C01", "unsound" + (":tactic5" if 5 in used else (":badly_scaled_lp" if _badly_scaled(c1, c2) else "")), "composition result is not a sound abstraction (tactics used %s); point %s" % (used, m)))
    # C15: interface-level guarantees still enforced
    iface = exp_in | exp_out
    keepers = [t for t in list(c1.g.terms) + list(c2.g.terms) if {v.name for v in t.vars} <= iface]
    if keepers:
        env2 = Env()
        m2 = z_check([z_all(res.a, env2), z_all(res.g, env2), z_some_violated(keepers, env2)], env2)
        if m2 not in (None, "unknown"):
            both = [t for t in keepers if any(t == u for u in c1.g.terms) and any(t == u for u in c2.g.terms)]
            qual = (":present_in_both_operands:simplify=%s" % p["simplify"]) if both else ""
            if not both and 5 not in used:
                # which guarantees were forgotten, and was each already implied by the other guarantees of the two operands
                # (so that the simplification compose runs before eliminating removed it, and what implied it was then lost)?
                allg = list(c1.g.terms) + list(c2.g.terms)
                lost = []
                for t in keepers:
                    e4 = Env()
                    if z_check([z_all(res.a, e4), z_all(res.g, e4), z_some_violated([t], e4)], e4) not in (None, "unknown"):
                        lost.append(t)
                redundant = bool(lost)
                for t in lost:
                    e5 = Env()
                    rest = [u for u in allg if u is not t]
                    if z_check([z_all(rest, e5), z_some_violated([t], e5)], e5) is not None:
                        redundant = False
                if redundant:
                    qual = ":implied_by_eliminated_guarantees:simplify=%s" % p["simplify"]
            viol.append(("C15", "forgotten_guarantee" + qual + (":tactic5" if 5 in used else ""), "an interface-level guarantee of an operand is not enforced by the composition; point %s" % (m2,)))
    connected = bool((O1 & I2) | (O2 & I1))
    if not connected and not p["keep"]:
        env3 = Env()
        m3 = z_check([z_all(c1.a, env3), z_all(c2.a, env3), z_some_violated(res.a, env3)], env3)
        m4 = z_check([z_all(res.a, env3), z_some_violated(list(c1.a.terms) + list(c2.a.terms), env3)], env3)
        if m3 not in (None, "unknown") or m4 not in (None, "unknown"):
            viol.append(("C15", "unconnected_assumptions_not_exact", "unconnected composition: assumptions are not the conjunction of both"))
    if viol:
        prop, key, what = viol[0]
        out["violation"] = {"key": "%s:compose:%s" % (prop, key), "prop": prop, "what": what, "input": p, "monitor": "m_algebra", "fn": "compose_eval", "all": [list(v) for v in viol]}
    return out


def compose_case(seed, tier):
    return compose_eval(compose_build(seed, tier))


# ----------------------------------------------------------------------------------------------
# C02 : quotient
# ----------------------------------------------------------------------------------------------
def quotient_build(seed, tier):
    g = Gen(seed)
    r = g.r
    mode = r.choice(["composed", "composed", "composed", "random"])
    if mode == "composed":
        # dividend = C1 composed with a hidden partner, so that a quotient exists
        i1 = ["i0"] + (["i1"] if r.random() < 0.3 else [])
        o1 = ["m0"] + (["m1"] if r.random() < 0.3 else [])
        c1 = gen_component(g, i1, o1, rich=False)
        hidden = gen_component(g, o1[:1] + (["k0"] if r.random() < 0.3 else []), ["o0"], rich=False)
        try:
            top = c1.compose(hidden)
        except Exception:
            top = gen_component(g, i1, ["o0"], rich=False)
        c = top
    else:
        c = gen_component(g, ["i0", "i1"][: r.randint(1, 2)], ["o0"], rich=False)
        c1 = gen_component(g, ["i0"], ["m0"], rich=False)
    cand = [v.name for v in c1.outputvars] + [v.name for v in c.inputvars]
    add = [x for x in cand if r.random() < 0.25]
    if r.random() < 0.03:
        add.append("stranger")
    if r.random() < 0.12:
        # the dividend assumes a hair less than the divisor on a shared input that stays an input of the quotient: whether
        # "the dividend's assumptions imply the divisor's" is decided by a containment test with a tolerance
        mode = "hair"
        delta = r.choice([1.5e-6, 5e-7, 2.5e-7, 0.0, -1e-6])
        bound = float(r.choice([1, 2, 5]))
        c = type(c)(g.PTL([g.PT({g.Var("i0"): 1.0}, bound + delta)]), g.PTL([g.PT({g.Var("o0"): 1.0}, 5.0)]), [g.Var("i0")], [g.Var("o0")])
        c1 = type(c)(g.PTL([g.PT({g.Var("i0"): 1.0}, bound)]), g.PTL([g.PT({g.Var("m0"): 1.0}, 0.0)]), [g.Var("i0")], [g.Var("m0")])
        add = ["i0"]
    return {"op": "quotient", "mode": mode, "c": contract_data(c), "c1": contract_data(c1), "add": add, "simplify": r.random() < 0.5, "order": r.choice(ORDERS)}


def quotient_eval(p):
    from pacti.iocontract import Var

    c, c1 = contract_from_data(p["c"]), contract_from_data(p["c1"])
    out = {"case_key": json.dumps(p, sort_keys=True), "stats": {}, "sample": None}
    snap = (json.dumps(contract_data(c)), json.dumps(contract_data(c1)))
    try:
        q, stats = c.quotient_tactics(c1, [Var(x) for x in p["add"]], p["simplify"], list(p["order"]))
    except Exception as e:
        out["stats"]["raised_" + type(e).__name__] = 1
        out["nontrivial"] = False
        if not _exc_ok(e):
            out["violation"] = {"key": "C14:quotient:" + type(e).__name__, "prop": "C14", "what": "quotient raised undocumented %s: %s" % (type(e).__name__, str(e)[:200]), "input": p, "monitor": "m_algebra", "fn": "quotient_eval"}
        return out
    used = _tactics_used(stats)
    out["stats"]["returned"] = 1
    for t in used:
        out["stats"]["tactic_%d" % t] = 1
    out["nontrivial"] = bool(q.g.terms or q.a.terms)
    out["sample"] = {"mode": p["mode"], "add": p["add"], "simplify": p["simplify"], "order": p["order"], "tactics_used": used, "quotient": {"in": [v.name for v in q.inputvars], "out": [v.name for v in q.outputvars], "a": [str(t) for t in q.a.terms][:4], "g": [str(t) for t in q.g.terms][:4]}}
    viol = []
    if (json.dumps(contract_data(c)), json.dumps(contract_data(c1))) != snap:
        viol.append(("C13", "operands_modified", "quotient modified an operand"))
    if not _wf(q):
        viol.append(("C06", "illformed_result", "quotient returned an ill-formed contract"))
    I, O, I1, O1 = ({v.name for v in c.inputvars}, {v.name for v in c.outputvars}, {v.name for v in c1.inputvars}, {v.name for v in c1.outputvars})
    if {v.name for v in q.inputvars} != (I - I1) | (O1 - O) | set(p["add"]) or {v.name for v in q.outputvars} != (O - O1) | (I1 - I):
        viol.append(("C06", "interface", "quotient interface differs from the prescribed one"))
    import z3

    env = Env()
    hyp = [z_all(c.a, env), z3.Implies(z_all(c1.a, env, SLACK), z_all(c1.g, env)), z3.Implies(z_all(q.a, env, SLACK), z_all(q.g, env))]
    bad = z3.Or(z_some_violated(c1.a, env), z_some_violated(q.a, env), z_some_violated(c.g, env))
    m = z_check(hyp + [bad], env)
    if m == "unknown":
        out["stats"]["oracle_unknown"] = 1
    elif m is not None:
        viol.append(("C02", "unsound" + (":tactic5" if 5 in used else (":badly_scaled_lp" if _badly_scaled(c, c1) else "")), "quotient composed with the divisor does not refine the dividend (tactics used %s); point %s" % (used, m)))
    if viol:
        prop, key, what = viol[0]
        out["violation"] = {"key": "%s:quotient:%s" % (prop, key), "prop": prop, "what": what, "input": p, "monitor": "m_algebra", "fn": "quotient_eval", "all": [list(v) for v in viol]}
    return out


def quotient_case(seed, tier):
    return quotient_eval(quotient_build(seed, tier))


# ----------------------------------------------------------------------------------------------
# C04 : elimination
# ----------------------------------------------------------------------------------------------
PINNED_ELIM = [
    # tactic 2 on a badly scaled LP: HiGHS answers "optimal" for min -0.001 y s.t. -20000 y <= -20000, which is unbounded
    {"op": "elim", "kind": "pinned_badly_scaled", "terms": [[{"z": 1.0, "y": -0.001}, 0.0]], "context": [[{"y": -20000.0}, -20000.0]], "elim": ["y"], "refine": False, "simplify": False, "order": [1, 2, 3, 4]},
]


def elim_build(seed, tier):
    if seed % 1000003 < len(PINNED_ELIM):
        return json.loads(json.dumps(PINNED_ELIM[seed % 1000003]))
    g = Gen(seed)
    r = g.r
    names = ["x", "y", "z", "u", "v", "w"][: r.randint(2, 6)]
    nel = r.randint(1, min(3, len(names) - 1))
    elim = r.sample(names, nel)
    n = r.randint(1, 4)
    kind = r.choice(["random", "chain", "bounded_ctx", "wrong_direction", "coupled", "coupled", "coupled3"])
    terms = [g.term(names, 1, 3) for _ in range(n)]
    ctx = []
    if kind == "coupled3":
        # one term with THREE eliminated variables of one sign pattern; the context is a 3x3 system with unit (or 2) diagonal and
        # off-diagonal entries each below the diagonal, whose COLUMN SUMS may or may not stay below it (the third Kaykobad
        # condition is about column sums), plus optional one-variable bounds
        names = ["x", "y1", "y2", "y3"]
        e = ["y1", "y2", "y3"]
        sg = r.choice([1, -1])
        t = {g.Var("x"): 1.0}
        for v in e:
            t[g.Var(v)] = sg * float(r.choice([1, 1, 2]))
        terms = [g.PT(t, g.const())]
        off = r.choice([0.75, 0.75, 0.9, 0.25, 0.6])
        pattern = r.choice(["tridiagonal", "tridiagonal", "full", "upper"])
        rows = []
        for i in range(3):
            row = {g.Var(e[i]): float(r.choice([1, 1, 1, 2]))}
            for j in range(3):
                if j != i and (pattern == "full" or (pattern == "tridiagonal" and abs(i - j) == 1) or (pattern == "upper" and j > i)):
                    row[g.Var(e[j])] = off if r.random() < 0.85 else -off
            rows.append(g.PT(dict(row), float(r.choice([1, 2, 3]))))
        ctx = rows
        if r.random() < 0.4:
            for v in e:
                ctx += g.bounds(v, None, 5)
        r.shuffle(ctx)
        elim = list(e)
        r.shuffle(elim)
        return {"op": "elim", "kind": kind, "terms": tl_data(terms), "context": tl_data(ctx), "elim": elim, "refine": (sg > 0) if r.random() < 0.85 else (sg < 0), "simplify": r.random() < 0.5, "order": r.choice([[1], [3], [1, 2, 3, 4], [1, 2, 3, 4, 5], [3, 1]])}
    if kind == "coupled" and len(names) >= 3:
        # one term with two eliminated variables (either sign pattern), context rows that couple them with small or
        # large off-diagonal coefficients of either sign, plus one-variable bounds, in random order (Kaykobad-type contexts)
        e1, e2 = r.sample(names, 2)
        rest = [x for x in names if x not in (e1, e2)]
        elim = [e1, e2] if r.random() < 0.7 else [e2, e1]
        s1, s2 = r.choice([1, -1]), r.choice([1, -1])
        t = {g.Var(e1): s1 * float(r.choice([1, 1, 2])), g.Var(e2): s2 * float(r.choice([1, 1, 3]))}
        if rest and r.random() < 0.8:
            t[g.Var(r.choice(rest))] = float(r.choice([-1, 1, 2]))
        terms = [g.PT(t, g.const())] + terms[: r.randint(0, 1)]
        rows = []
        for a, b_ in ((e1, e2), (e2, e1)):
            for _ in range(r.randint(1, 2)):
                k = r.random()
                row = {g.Var(a): float(r.choice([1, -1, 2, -2]))}
                if k < 0.6:
                    row[g.Var(b_)] = float(r.choice([1, -1, 3, -3, 0.5, -0.5, 0.25]))
                if rest and r.random() < 0.4:
                    row[g.Var(r.choice(rest))] = float(r.choice([1, -1]))
                rows.append(g.PT(row, g.const()))
        ctx = rows
        r.shuffle(ctx)
        return {"op": "elim", "kind": kind, "terms": tl_data(terms), "context": tl_data(ctx), "elim": elim, "refine": r.random() < 0.5, "simplify": r.random() < 0.5, "order": r.choice([[1], [3], [1, 2, 3, 4], [1, 2, 3, 4, 5], [3, 1], [2, 1]])}
    for e in elim:
        k = r.random()
        if kind == "wrong_direction":
            ctx += g.bounds(e, None, r.randint(0, 5)) if r.random() < 0.5 else g.bounds(e, -r.randint(0, 5), None)
        elif kind == "bounded_ctx" or k < 0.4:
            ctx += g.bounds(e, -r.randint(0, 5), r.randint(0, 6))
        elif kind == "chain" or k < 0.7:
            others = [x for x in names if x != e]
            o = r.choice(others)
            cf = float(r.choice([1, 2, -1]))
            ctx.append(g.PT({g.Var(e): 1.0, g.Var(o): -cf}, g.const()))
            ctx.append(g.PT({g.Var(e): -1.0, g.Var(o): cf}, g.const() + 3))
        else:
            ctx.append(g.term(names, 1, 3))
    for _ in range(r.randint(0, 2)):
        ctx.append(g.term(names, 1, 3))
    r.shuffle(ctx)
    return {"op": "elim", "kind": kind, "terms": tl_data(terms), "context": tl_data(ctx), "elim": elim, "refine": r.random() < 0.5, "simplify": r.random() < 0.5, "order": r.choice(ORDERS + [[r.choice([1, 2, 3, 4, 5])] for _ in range(3)])}


def elim_eval(p):
    from pacti.iocontract import Var

    S, G = tl_from_data(p["terms"]), tl_from_data(p["context"])
    out = {"case_key": json.dumps(p, sort_keys=True), "stats": {}, "sample": None}
    snap = (json.dumps(tl_data(S)), json.dumps(tl_data(G)))
    elim = [Var(x) for x in p["elim"]]
    try:
        if p["refine"]:
            R, stats = S.elim_vars_by_refining(G, elim, p["simplify"], list(p["order"]))
        else:
            R, stats = S.elim_vars_by_relaxing(G, elim, p["simplify"], list(p["order"]))
    except ValueError as e:
        out["stats"]["declined"] = 1
        out["nontrivial"] = False
        if type(e) is not ValueError:
            out["violation"] = {"key": "C14:elim:" + type(e).__name__, "prop": "C14", "what": "elimination raised %s" % type(e).__name__, "input": p, "monitor": "m_algebra", "fn": "elim_eval"}
        return out
    except Exception as e:
        out["nontrivial"] = False
        out["violation"] = {"key": "C14:elim:" + type(e).__name__, "prop": "C14", "what": "elimination raised undocumented %s: %s" % (type(e).__name__, str(e)[:200]), "input": p, "monitor": "m_algebra", "fn": "elim_eval"}
        return out
    used = sorted({int(t[0]) for t in stats})
    changed = json.dumps(tl_data(R)) != json.dumps(tl_data(S))
    out["nontrivial"] = changed
    out["stats"]["returned"] = 1
    for t in used:
        out["stats"]["tactic_%d" % t] = 1
    out["sample"] = {"kind": p["kind"], "refine": p["refine"], "order": p["order"], "elim": p["elim"], "terms": [str(t) for t in S.terms], "context": [str(t) for t in G.terms][:5], "result": [str(t) for t in R.terms], "tactics_used": used}
    viol = []
    if (json.dumps(tl_data(S)), json.dumps(tl_data(G))) != snap:
        viol.append(("C13", "operands_modified", "elimination modified an operand"))
    tag = ":tactic5" if 5 in used else ""
    if not tag:
        mags = [abs(float(v)) for tl in (S, G) for t in tl.terms for v in t.variables.values() if v != 0]
        if mags and max(mags) / min(mags) >= 1e6:
            tag = ":badly_scaled_lp"
    if p["refine"]:
        m = implies_exact([G, R], S)
        if m not in (None, "unknown"):
            viol.append(("C04", "refine_unsound" + tag, "refined constraints with the context do not imply the original (tactics %s); point %s" % (used, m)))
    else:
        m = implies_exact([G, S], R)
        if m not in (None, "unknown"):
            viol.append(("C04", "relax_unsound" + tag, "relaxed constraints are not implied by original with context (tactics %s); point %s" % (used, m)))
        left = {v.name for v in R.vars} & set(p["elim"])
        if left:
            viol.append(("C04", "relax_leftover", "relaxation result mentions eliminated variables %s" % sorted(left)))
    if viol:
        prop, key, what = viol[0]
        out["violation"] = {"key": "%s:elim:%s" % (prop, key), "prop": prop, "what": what, "input": p, "monitor": "m_algebra", "fn": "elim_eval", "all": [list(v) for v in viol]}
    return out


def elim_case(seed, tier):
    return elim_eval(elim_build(seed, tier))


# ----------------------------------------------------------------------------------------------
# C03 : refinement exactness
# ----------------------------------------------------------------------------------------------
# pinned witnesses (run on every check): the first is an OPEN known finding - the LP optimum of a row over an unbounded region
# is attained ~1e7 away from the origin, its round-off (1e-7) exceeds the absolute containment tolerance and a list does not
# refine itself; the others were repaired (the solver's "infeasible" / "unbounded" at tight tolerances taken at face value)
PINNED_REFINES = [
    {"op": "refines", "family": "pinned", "tag": "distant_vertex", "left": [[{"x": 1000.0, "w": 1.0, "y": 10.0}, 1.0], [{"z": -1.0}, -10.0], [{"y": 1000.0, "w": -10.0}, -10.0], [{"z": 1000.0, "x": -1.0}, 0.0]], "right": [[{"x": 1000.0, "w": 1.0, "y": 10.0}, 1.0], [{"z": -1.0}, -10.0], [{"y": 1000.0, "w": -10.0}, -10.0], [{"z": 1000.0, "x": -1.0}, 0.0]], "expect": True},
    {"op": "refines", "family": "pinned", "left": [[{"x": -7.0}, 28.0], [{"x": -929.0, "y": 1000.0}, -284.0], [{"x": 492.0, "y": -1.0}, -1964.0]], "right": [[{"x": 1.0}, -104.0]], "expect": False},
    {"op": "refines", "family": "pinned", "left": [[{"x": -5000.0, "y": 2.0, "z": -1000.0}, 0.0], [{"x": -7.0, "y": -5000.0}, 0.0]], "right": [[{"x": -5000.0, "y": 2.0, "z": -1000.0}, 0.0], [{"x": -7.0, "y": -5000.0}, 0.0]], "expect": True},
    {"op": "refines", "family": "pinned", "left": [[{"x": 49.0, "y": 7000.0}, 700980.0], [{"x": -49.0, "y": -7000.0}, -700980.0]], "right": [[{"x": 1.0}, -5000.0]], "expect": False},
]


def refines_build(seed, tier):
    if seed % 1000003 < len(PINNED_REFINES):
        return json.loads(json.dumps(PINNED_REFINES[seed % 1000003]))
    g = Gen(seed)
    r = g.r
    names = ["x", "y", "z", "w"][: r.randint(1, 4)]
    fam = r.choice(["self", "sublist", "weakening", "farkas", "duplicate", "separated", "unrelated", "empty_left", "empty_right", "equal_bound", "unbounded", "variable_free", "degenerate_left", "repeated_row"])
    base = [g.term(names, 1, 3) for _ in range(r.randint(1, 4))]
    if fam in ("self", "sublist", "weakening", "farkas", "duplicate", "equal_bound") and r.random() < 0.7:
        for v in names:
            base += g.bounds(v, -r.randint(1, 8), r.randint(1, 8))
    left, right, expect = base, None, None
    if fam == "self":
        right, expect = [t.copy() for t in base], True
    elif fam == "sublist":
        right, expect = [t.copy() for t in base if r.random() < 0.6] or [base[0].copy()], True
    elif fam == "weakening":
        right, expect = [g.PT(dict(t.variables), t.constant + r.choice([0, 1, 2, 0.5])) for t in base], True
    elif fam == "farkas":
        k = min(len(base), r.randint(2, 3))
        pick = r.sample(base, k)
        lam = [float(r.choice([1, 2, 3, 0.5])) for _ in pick]
        acc = pick[0].multiply(lam[0])
        for t, l in zip(pick[1:], lam[1:]):
            acc = acc + t.multiply(l)
        right, expect = ([acc] if acc.variables else [pick[0].copy()]), True
    elif fam == "duplicate":
        right, expect = [base[0].copy(), base[0].copy()], True
    elif fam == "equal_bound":
        left = base + g.bounds(names[0], None, 3)
        right, expect = g.bounds(names[0], None, 3), True
    elif fam == "separated":
        v = names[0]
        left = g.bounds(v, 5, 8) + base[:1]
        right, expect = g.bounds(v, None, 3), None  # decided by the oracle (left may be infeasible)
    elif fam == "empty_left":
        v = names[0]
        left = g.bounds(v, 3, 1) + base
        right, expect = [g.term(names, 1, 2)], True
    elif fam == "empty_right":
        v = names[0]
        left = g.bounds(v, -2, 2)
        right, expect = g.bounds(v, 3, 1), False
    elif fam == "unbounded":
        left = [g.term(names, 1, 2)]
        right, expect = [g.term(names, 1, 2)], None
    elif fam == "repeated_row":
        # the right side bounds the same coefficient row twice, the looser bound first (what `spec1 | spec2` produces); the left
        # side lies between the two bounds, or meets both; other rows in between
        t = base[0]
        c = t.constant
        loose, tight = g.PT(dict(t.variables), c + r.choice([1, 2, 0.5])), g.PT(dict(t.variables), c - r.choice([1, 2, 0.5]))
        mid = [tt.copy() for tt in base[1:2]]
        right = ([loose] + mid + [tight]) if r.random() < 0.7 else ([tight] + mid + [loose])
        if r.random() < 0.3:
            right, expect = [loose] + mid + [g.PT(dict(t.variables), c)], True
        else:
            expect = None
    elif fam == "degenerate_left":
        # a feasible left side without interior (see lib.degenerate_system) against a constraint its point violates by 1,
        # or against itself
        kind, left, pt = degenerate_system(g, names)
        n0 = sorted(pt)[0]
        if r.random() < 0.6:
            right, expect = g.bounds(n0, None, pt[n0] - 1), False
        else:
            right, expect = [t.copy() for t in left], (True if kind in ("redundant_equalities", "touching") else None)
    elif fam == "variable_free":
        # constraints whose coefficients cancelled: 0 <= c holds everywhere (c >= 0) or nowhere (c < 0)
        taut, contra = g.PT({}, float(r.choice([0, 1, 2]))), g.PT({}, -float(r.choice([1, 2])))
        shape = r.choice(["taut_right", "taut_both", "taut_left", "contra_left", "contra_right", "only_taut", "contra_then_taut_left", "contra_then_taut_right"])
        if shape == "taut_right":
            left, right = base, [taut] + ([base[0].copy()] if r.random() < 0.5 else [])
        elif shape == "taut_both":
            left, right = [taut] + base, [taut.copy()] + [t.copy() for t in base[:1]]
        elif shape == "taut_left":
            left, right = [taut] + base, [g.term(names, 1, 2)]
        elif shape == "contra_left":
            left, right = [contra] + base, [g.term(names, 1, 2)]
        elif shape == "contra_right":
            left, right = base, [contra] + base[:1]
        elif shape == "contra_then_taut_left":
            # several constraints without variables: one that fails followed by one that holds
            left, right = [contra] + base + [taut], [g.term(names, 1, 2)]
        elif shape == "contra_then_taut_right":
            left, right = base, [contra] + base[:1] + [taut]
        else:
            left, right = ([taut] if r.random() < 0.5 else []), [taut.copy()]
        expect = None
    else:
        right, expect = [g.term(names, 1, 3) for _ in range(r.randint(1, 3))], None
    out = {"op": "refines", "family": fam, "left": tl_data(left), "right": tl_data(right), "expect": expect}
    if fam == "degenerate_left" and expect is None:
        out["no_must_true"] = True  # constants of 1e5..1e6: exact containment is not demanded to be recognised
    return out


def refines_eval(p):
    L, R = tl_from_data(p["left"]), tl_from_data(p["right"])
    out = {"case_key": json.dumps(p, sort_keys=True), "stats": {}, "sample": None, "nontrivial": True}
    try:
        got = L.refines(R)
    except Exception as e:
        out["violation"] = {"key": "C14:refines:" + type(e).__name__, "prop": "C14", "what": "refines raised %s: %s" % (type(e).__name__, str(e)[:200]), "input": p, "monitor": "m_algebra", "fn": "refines_eval"}
        return out
    got = bool(got)
    # exact reading: must-True when containment holds exactly; must-False when some point violates beyond the tolerance
    exact_cex = implies_exact([L], R, tol=0, box=False)  # must-True only when containment holds everywhere, not just inside the box
    tol_cex = implies_exact([L], R, tol=TOL)
    if "unknown" in (exact_cex, tol_cex):
        out["stats"]["oracle_unknown"] = 1
        return out
    out["stats"]["answer_%s" % got] = 1
    out["sample"] = {"family": p["family"], "left": [str(t) for t in L.terms][:5], "right": [str(t) for t in R.terms][:4], "answer": got, "exactly_contained": exact_cex is None}
    if exact_cex is None and not got and not p.get("no_must_true"):
        out["violation"] = {"key": "C03:refines:false_on_exact_containment" + (":" + p["tag"] if p.get("tag") else ""), "prop": "C03", "what": "refines answered False although the left side is exactly contained in the right (family %s)" % p["family"], "input": p, "monitor": "m_algebra", "fn": "refines_eval"}
    elif tol_cex is not None and got:
        out["violation"] = {"key": "C03:refines:true_on_violation", "prop": "C03", "what": "refines answered True although point %s violates the right side beyond the tolerance" % (tol_cex,), "input": p, "monitor": "m_algebra", "fn": "refines_eval"}
    return out


def refines_case(seed, tier):
    return refines_eval(refines_build(seed, tier))


# ----------------------------------------------------------------------------------------------
# C07 : simplify
# ----------------------------------------------------------------------------------------------
# pinned witnesses (repaired, 2528aca / 9207037): a feasible system ((-3,-2) satisfies every row) that simplify called unsatisfiable,
# and a row implied with a margin of 0.5 that survived because its bounded LP was answered "unbounded"
PINNED_SIMPLIFY = [
    # three lines through (100, 100) with coefficients spanning four orders of magnitude, two half-planes of them in the context:
    # feasible (one point); the redundancy LPs at tight tolerances answer "infeasible" and only the emptiness test at the default
    # tolerances puts that right (seed s105)
    {"op": "simplify", "family": "pinned", "terms": [[{"x": -10.0, "y": -20000.0}, -2001000.0], [{"x": 1000.0, "y": -13.0}, 98700.0], [{"x": 13.0, "y": -1.0}, 1200.0], [{"x": -13.0, "y": 1.0}, -1200.0]], "context": [[{"x": -1000.0, "y": 13.0}, -98700.0], [{"x": 10.0, "y": 20000.0}, 2001000.0]]},
    {"op": "simplify", "family": "pinned", "terms": [[{"x": -7.0}, 21.0], [{"x": 10000.0, "y": 10.0}, -30020.0], [{"x": -10000.0, "y": -10000.0}, 50000.0], [{"y": 1.0}, 0.0]], "context": []},
    {"op": "simplify", "family": "pinned", "terms": [[{"x": -5000.0, "y": 2.0, "z": -1000.0}, 0.0], [{"x": -7.0, "y": -5000.0}, 0.0], [{"x": -5000.0, "y": 2.0, "z": -1000.0}, 0.5]], "context": []},
]


def simplify_build(seed, tier):
    if seed % 1000003 < len(PINNED_SIMPLIFY):
        return json.loads(json.dumps(PINNED_SIMPLIFY[seed % 1000003]))
    g = Gen(seed)
    r = g.r
    names = ["x", "y", "z", "u", "v"][: r.randint(1, 5)]
    fam = r.choice(["random", "duplicates", "scaled", "combination", "via_context", "tight", "infeasible", "shared_with_context", "variable_free", "degenerate"])
    base = [g.term(names, 1, 3) for _ in range(r.randint(1, 4))]
    ctx = []
    if fam == "duplicates":
        base.append(base[0].copy())
    elif fam == "scaled":
        base.append(base[0].multiply(float(r.choice([2, 3, 0.5]))))
    elif fam == "combination" and len(base) >= 2:
        acc = base[0].multiply(float(r.choice([1, 2]))) + base[1].multiply(float(r.choice([1, 2])))
        if acc.variables:
            base.append(g.PT(dict(acc.variables), acc.constant + r.choice([0, 1])))
    elif fam == "via_context":
        v = names[0]
        ctx = g.bounds(v, None, 2)
        base.append(g.PT({g.Var(v): 1.0}, 5.0))
    elif fam == "tight":
        t = base[0]
        base.append(g.PT(dict(t.variables), t.constant + r.choice([1e-3, 1e-5, 0.0, 1e-7])))
    elif fam == "infeasible":
        v = names[0]
        base += g.bounds(v, 3, 1)
    if r.random() < 0.5:
        for v in names:
            base += g.bounds(v, -r.randint(1, 9), r.randint(1, 9))
    if r.random() < 0.3 and not ctx:
        ctx = [g.term(names, 1, 2)]
    r.shuffle(base)
    if fam == "degenerate":
        # a feasible system without interior (see lib.degenerate_system): simplify must not call it unsatisfiable
        kind, base, _pt = degenerate_system(g, names)
        ctx = []
    if fam == "variable_free":
        # constraints whose coefficients cancelled (0 <= c), one or two of them, failing and holding ones in either order,
        # in the list or in the context
        extra = r.choice([[1.0], [-1.0], [-1.0, 2.0], [2.0, -1.0], [0.0, 3.0]])
        where = r.choice(["list", "list", "context"])
        for c in extra:
            if where == "list":
                base.insert(r.randrange(len(base) + 1), g.PT({}, c))
            else:
                ctx = list(ctx)
                ctx.insert(r.randrange(len(ctx) + 1), g.PT({}, c))
    if fam == "shared_with_context":
        # a term of the list that also is, verbatim, a term of the context (simplify removes it first), in any position
        ctx = [base[r.randrange(len(base))].copy()] + ([g.term(names, 1, 2)] if r.random() < 0.3 else [])
    return {"op": "simplify", "family": fam, "terms": tl_data(base[:6]), "context": tl_data(ctx)}


def simplify_eval(p):
    S, G = tl_from_data(p["terms"]), tl_from_data(p["context"])
    out = {"case_key": json.dumps(p, sort_keys=True), "stats": {}, "sample": None, "nontrivial": True}
    snap = json.dumps(tl_data(S))
    feasible = feasible_exact(type(S)(list(S.terms) + list(G.terms)))
    try:
        R = S.simplify(G) if p["context"] else S.simplify()
    except ValueError as e:
        out["stats"]["ValueError"] = 1
        if feasible:
            # thin feasibility is not covered by the property's tolerance reading: check feasibility with a margin
            # (the families built around an exactly representable point - integer data, a point with integer coordinates - are
            # feasible in floating point as well: there a ValueError is wrong as it stands)
            shr = type(S)([type(t)(dict(t.variables), t.constant - 1e-6 * (1 + abs(t.constant))) for t in list(S.terms) + list(G.terms)])
            if p.get("family") in ("pinned", "degenerate") or feasible_exact(shr):
                out["violation"] = {"key": "C07:simplify:valueerror_on_feasible", "prop": "C07", "what": "simplify raised ValueError for a feasible system", "input": p, "monitor": "m_algebra", "fn": "simplify_eval"}
        return out
    except Exception as e:
        out["violation"] = {"key": "C14:simplify:" + type(e).__name__, "prop": "C14", "what": "simplify raised undocumented %s: %s" % (type(e).__name__, str(e)[:200]), "input": p, "monitor": "m_algebra", "fn": "simplify_eval"}
        return out
    out["stats"]["returned"] = 1
    out["sample"] = {"family": p["family"], "terms": [str(t) for t in S.terms], "context": [str(t) for t in G.terms], "result": [str(t) for t in R.terms]}
    viol = []
    if json.dumps(tl_data(S)) != snap:
        viol.append(("C13", "operand_modified", "simplify modified its operand"))
    # selection (constants up to round-off)
    for t in R.terms:
        if not any(set(t.variables) == set(o.variables) and all(abs(t.variables[k] - o.variables[k]) <= 1e-9 * (1 + abs(o.variables[k])) for k in t.variables) and abs(t.constant - o.constant) <= 1e-9 * (1 + abs(o.constant)) for o in S.terms):
            viol.append(("C07", "not_a_selection", "result term %s is not one of the original constraints" % t))
    m1 = implies_exact([G, R], S)
    m2 = implies_exact([G, S], R)
    if m1 not in (None, "unknown") or m2 not in (None, "unknown"):
        viol.append(("C07", "meaning_changed", "simplified list is not equivalent to the original in the context; point %s" % (m1 if m1 not in (None, "unknown") else m2,)))
    # irredundancy with margin: a remaining term implied (with margin above the tolerance) by the others and the context
    for i, t in enumerate(R.terms):
        rest = [u for j, u in enumerate(R.terms) if j != i]
        strong = type(t)(dict(t.variables), t.constant - float(TOL) * 2 * (1 + abs(t.constant)))
        m = implies_exact([G, rest], [strong], tol=0, box=False)
        if m is None and feasible_exact(type(S)(rest + list(G.terms))):
            viol.append(("C07", "redundant_term_left", "term %s is implied with margin by the remaining terms and the context" % t))
            break
    if viol:
        prop, key, what = viol[0]
        out["violation"] = {"key": "%s:simplify:%s" % (prop, key), "prop": prop, "what": what, "input": p, "monitor": "m_algebra", "fn": "simplify_eval", "all": [list(v) for v in viol]}
    return out


def simplify_case(seed, tier):
    return simplify_eval(simplify_build(seed, tier))


# ----------------------------------------------------------------------------------------------
# C08 : merge (polyhedral instance)
# ----------------------------------------------------------------------------------------------
PINNED_MERGE = [
    {"op": "merge", "c1": {"in": ["w"], "out": ["z"], "a": [], "g": [[{"z": 100000.0}, 0.0]]}, "c2": {"in": ["w"], "out": ["z"], "a": [], "g": [[{"z": 0.00002, "w": -0.000000001}, 0.0]]}, "swap": False},
]


def merge_build(seed, tier):
    if seed % 1000003 < len(PINNED_MERGE):
        return json.loads(json.dumps(PINNED_MERGE[seed % 1000003]))
    g = Gen(seed)
    r = g.r
    shared_in = ["i0"] if r.random() < 0.7 else []
    shared_out = ["o0"] if r.random() < 0.5 else []
    c1 = gen_component(g, shared_in + (["i1"] if r.random() < 0.5 else []), shared_out + ["p1"])
    c2 = gen_component(g, shared_in + (["i2"] if r.random() < 0.5 else []), shared_out + ["p2"])
    if r.random() < 0.4 and c1.g.terms:
        c2 = type(c2)(c2.a, c2.g | g.PTL([t.copy() for t in c1.g.terms[:1] if {v.name for v in t.vars} <= {v.name for v in c2.inputvars + c2.outputvars}]), c2.inputvars, c2.outputvars, simplify=False)
    if r.random() < 0.3 and c1.g.terms:
        # almost the same guarantee on both sides: coefficients differing by a few 1e-6 relative (two different constraints)
        t = c1.g.terms[0]
        if {v.name for v in t.vars} <= {v.name for v in c2.inputvars + c2.outputvars}:
            k0 = sorted(t.variables, key=str)[0]
            near = g.PT({k: (v * (1 + r.choice([5e-6, -5e-6, 2e-6])) if k == k0 else v) for k, v in t.variables.items()}, t.constant)
            c2 = type(c2)(c2.a, c2.g | g.PTL([near]), c2.inputvars, c2.outputvars, simplify=False)
    if r.random() < 0.3 and c1.g.terms:
        # a different guarantee over the same variables with the same constant: one coefficient changed outright
        t = c1.g.terms[0]
        if len(t.variables) >= 2 and {v.name for v in t.vars} <= {v.name for v in c2.inputvars + c2.outputvars}:
            k0 = r.choice(sorted(t.variables, key=str))
            other = g.PT({k: (v * r.choice([-1.5, 2.0, 0.5, -1.0]) if k == k0 else v) for k, v in t.variables.items()}, t.constant)
            c2 = type(c2)(c2.a, c2.g | g.PTL([other]), c2.inputvars, c2.outputvars, simplify=False)
    if shared_in and r.random() < 0.25:
        # an assumption stated twice in one operand (assumptions are stored as given) and once in the other operand, which
        # has at most one more: unions that count elements instead of comparing them go wrong here
        t = g.bounds("i0", None, float(r.randint(1, 5)))[0]
        c1 = type(c1)(g.PTL([x.copy() for x in c1.a.terms[:1]] + [t.copy(), t.copy()]), c1.g, c1.inputvars, c1.outputvars, simplify=False)
        c2 = type(c2)(g.PTL([t.copy()] + [x.copy() for x in c2.a.terms[:1]]), c2.g, c2.inputvars, c2.outputvars, simplify=False)
    return {"op": "merge", "c1": contract_data(c1), "c2": contract_data(c2), "swap": r.random() < 0.5}


def merge_eval(p):
    c1, c2 = contract_from_data(p["c1"]), contract_from_data(p["c2"])
    if p["swap"]:
        c1, c2 = c2, c1
    out = {"case_key": json.dumps(p, sort_keys=True), "stats": {}, "sample": None, "nontrivial": True}
    try:
        m = c1.merge(c2)
    except Exception as e:
        out["nontrivial"] = False
        out["stats"]["raised_" + type(e).__name__] = 1
        if not _exc_ok(e):
            out["violation"] = {"key": "C14:merge:" + type(e).__name__, "prop": "C14", "what": "merge raised %s" % type(e).__name__, "input": p, "monitor": "m_algebra", "fn": "merge_eval"}
        return out
    out["stats"]["returned"] = 1
    out["sample"] = {"result": {"in": [v.name for v in m.inputvars], "out": [v.name for v in m.outputvars], "a": [str(t) for t in m.a.terms][:4], "g": [str(t) for t in m.g.terms][:5]}}
    viol = []
    if {v.name for v in m.inputvars} != {v.name for v in c1.inputvars + c2.inputvars} or {v.name for v in m.outputvars} != {v.name for v in c1.outputvars + c2.outputvars}:
        viol.append(("C08", "interface", "merge interface is not the union"))
    a12 = list(c1.a.terms) + list(c2.a.terms)
    g12 = list(c1.g.terms) + list(c2.g.terms)
    for hyp, con, what in [([m.a], a12, "merged assumptions do not imply both assumptions"), ([a12], m.a, "both assumptions do not imply the merged assumptions"), ([m.a, m.g], g12, "merged contract lost a guarantee"), ([m.a, g12], m.g, "merged contract added a guarantee")]:
        cex = implies_exact(hyp, con)
        if cex not in (None, "unknown"):
            viol.append(("C08", "not_exact", what + "; point %s" % (cex,)))
            break
    if viol:
        prop, key, what = viol[0]
        if key == "not_exact" and _badly_scaled(c1, c2):
            key += ":badly_scaled_lp"
        out["violation"] = {"key": "%s:merge:%s" % (prop, key), "prop": prop, "what": what, "input": p, "monitor": "m_algebra", "fn": "merge_eval"}
    return out


def merge_case(seed, tier):
    return merge_eval(merge_build(seed, tier))


# ----------------------------------------------------------------------------------------------
FAMILIES = {
    "C01": [("compose_case", 0.7), ("elim_case", 0.3)],
    "C15": [("compose_case", 0.7), ("merge_case", 0.3)],
    "C02": [("quotient_case", 0.7), ("elim_case", 0.3)],
    "C04": [("elim_case", 1.0)],
    "C03": [("refines_case", 1.0)],
    "C07": [("simplify_case", 1.0)],
    "C08": [("merge_case", 1.0)],
}
RULES = {
    "compose_case": "random pairs of polyhedral contracts over the wirings %s, vars_to_keep subsets of the connected outputs, simplify on/off, tactics_order from %s; soundness / interface / forgotten guarantees decided by z3 over the box with the property's tolerances; non-trivial = compose returned a contract with at least one term" % (WIRINGS, ORDERS),
    "quotient_case": "dividends built as C1 composed with a hidden partner (3/4) or random (1/4), additional_inputs subsets, simplify on/off, tactic orders; quotient soundness decided by z3; non-trivial = quotient returned with at least one term",
    "elim_case": "1-4 terms over 2-6 variables, 1-3 eliminated variables, contexts: random / chains / two-sided bounds / wrong-direction bounds / coupled 2x2 and 3x3 systems (Kaykobad-type, off-diagonal entries below the diagonal with column sums on either side of it); refine or relax, simplify on/off, singleton and mixed tactic orders; implication decided by z3; non-trivial = result differs from the input list",
    "refines_case": "families self, sublist, weakening, positive combinations, duplicates, the same row bounded twice on the right (looser bound first), equal bound, separated, unrelated, unbounded, empty left, empty right, constraints without variables (one or two, failing and holding ones in either order) over 1-4 variables with small-integer/dyadic data; exact containment and beyond-tolerance violation both decided by z3",
    "simplify_case": "up to 6 terms over up to 5 variables with planted duplicates, scalings, positive combinations, context-implied terms, terms shared verbatim with the context, nearly tight terms, infeasible systems, constraints without variables in the list or the context; selection, equivalence and irredundancy-with-margin decided by z3",
    "merge_case": "pairs with shared inputs / shared outputs / disjoint interfaces, with duplicated guarantees across the two, an assumption stated twice in one operand; exactness decided by z3 in both directions, both call orders",
}


def run(prop, tier, seed, src, jobs, want=None):
    fams = FAMILIES[prop]
    budget = 40 if tier == "quick" else 600
    total = 1600 if tier == "quick" else 40000
    results = []
    rule = []
    for fname, share in fams:
        n = int(total * share)
        seeds = [seed * 1000003 + i for i in range(n)]
        results += run_cases("monitors.m_algebra", fname, src, seeds, tier, jobs, budget * share + 5)
        rule.append(RULES[fname])
    # keep only violations of this property or of the cross-cutting ones observed here (C14/C13/C06 are reported by their own checks too)
    # the elimination primitives are hypotheses of the C01 / C02 theorem chains: their violations break the chain
    allowed = {prop} | ({"C04"} if prop in ("C01", "C02") else set())
    if want:
        # run as an extra monitor of another property's check: only that property's violations count here
        allowed = {want}
    for r in results:
        v = r.get("violation")
        if v and v.get("prop") not in allowed:
            r["other_violation"] = v
            r["violation"] = None
    confirm(results, src)
    out = summarise("m_algebra[%s]" % prop if not want else "m_algebra[%s for %s]" % (prop, want), results, " | ".join(rule), "bounded stand-in: <=6 variables, <=6 terms per list, random sampling with seed %d" % seed)
    return out


def confirm(results, src, limit=6):
    """replay each reported violation in a fresh process; drop what does not reproduce (flaky oracle timeouts)"""
    seen = {}
    for r in results:
        v = r.get("violation")
        if not v:
            continue
        k = v["key"]
        seen.setdefault(k, 0)
        if seen[k] >= limit:
            r["violation"] = None
            continue
        seen[k] += 1
        rep = replay_in_fresh_process("monitors.m_algebra", v["fn"], src, v["input"])
        vv = rep.get("violation") if isinstance(rep, dict) else None
        if not vv or vv.get("key") != k:
            v["reproduced"] = False
            v["native"] = rep
            r["violation"] = None if (isinstance(rep, dict) and not rep.get("error")) else v
        else:
            v["reproduced"] = True
            v["native"] = {"what": vv.get("what")}


def replay(r, src):
    w = r["witness"]
    rep = replay_in_fresh_process("monitors.m_algebra", w["fn"], src, w["input"])
    print(json.dumps(rep, indent=1, default=str)[:3000])
    v = rep.get("violation") if isinstance(rep, dict) else None
    return 1 if v else 0
