"""Shared machinery of the bounded stand-ins: run-time contract monitors on the natively executing /repo/src code.

Nothing in here is counted as proved. Every violation is a concrete failing input by construction; it is replayed
in a fresh process before it is reported.
"""
from __future__ import annotations

import itertools
import json
import multiprocessing as mp
import os
import random
import subprocess
import sys
import time
import traceback
from fractions import Fraction

ROOT = os.path.dirname(os.path.dirname(os.path.abspath(__file__)))
TOL = Fraction(1, 10000)
SLACK = Fraction(1, 10**7)
BOX = 1000


def setup(src):
    if src not in sys.path:
        sys.path.insert(0, src)
    import logging

    logging.disable(logging.CRITICAL)
    import pacti

    if not os.path.abspath(pacti.__file__).startswith(os.path.abspath(src)):
        raise RuntimeError("pacti imported from %s, not from %s" % (pacti.__file__, src))
    return pacti


# ----------------------------------------------------------------------------------------------
# exact semantics with z3 (coefficients are the rationals the floats denote)
# ----------------------------------------------------------------------------------------------
def F(x):
    return Fraction(x)


def zr(x):
    import z3

    return z3.RealVal(str(Fraction(x)))


class Env:
    def __init__(self):
        self.vars = {}

    def __getitem__(self, name):
        import z3

        if name not in self.vars:
            self.vars[name] = z3.Real("v_" + name)
        return self.vars[name]

    def box(self):
        import z3

        return [z3.And(v >= -BOX, v <= BOX) for v in self.vars.values()]


def z_lhs(t, env):
    import z3

    return z3.Sum([zr(c) * env[v.name] for v, c in t.variables.items()] + [z3.RealVal(0)])


def z_holds(t, env, slack=0):
    """term holds (with the left side allowed to exceed the constant by `slack`)"""
    return z_lhs(t, env) <= zr(F(t.constant) + F(slack))


def z_violated(t, env, tol=TOL):
    c = F(t.constant)
    return z_lhs(t, env) > zr(c + tol * (1 + abs(c)))


def z_all(tl, env, slack=0):
    import z3

    ts = tl.terms if hasattr(tl, "terms") else list(tl)
    return z3.And(*[z_holds(t, env, slack) for t in ts]) if ts else z3.BoolVal(True)


def z_some_violated(tl, env, tol=TOL):
    import z3

    ts = tl.terms if hasattr(tl, "terms") else list(tl)
    return z3.Or(*[z_violated(t, env, tol) for t in ts]) if ts else z3.BoolVal(False)


def _budget(ms):
    from pyvc.core import budget_ms

    return budget_ms(ms)


def z_check(formulas, env, timeout_ms=20000, box=True):
    """sat -> model dict name->Fraction ; unsat -> None ; unknown -> 'unknown'"""
    import z3

    s = z3.Solver()
    s.set("timeout", _budget(timeout_ms))
    for f in formulas:
        s.add(f)
    for b in env.box() if box else []:
        s.add(b)
    r = s.check()
    if r == z3.unsat:
        return None
    if r == z3.unknown:
        return "unknown"
    m = s.model()
    out = {}
    for n, v in env.vars.items():
        val = m.eval(v, model_completion=True)
        out[n] = str(val.as_fraction()) if hasattr(val, "as_fraction") else str(val)
    return out


def implies_exact(hyp_lists, concl_list, tol=TOL, hyp_slack=0, box=True):
    """Is there a point in the box where all hypothesis lists hold and some conclusion term is violated by more than tol?
    Returns the counter-model (dict) or None.  box=False: anywhere (used where "implied" must not become easier inside the box:
    a constraint that is redundant only because of the box is not redundant for the code, which works over all reals)."""
    env = Env()
    fs = [z_all(h, env, hyp_slack) for h in hyp_lists]
    fs.append(z_some_violated(concl_list, env, tol))
    r = z_check(fs, env, box=box)
    return r


def exact_opt(tl, objective, maximize):
    """exact optimum of objective (dict name->number) over tl: ('opt', Fraction) | ('unbounded',) | ('infeasible',)"""
    import z3

    env = Env()
    o = z3.Optimize()
    o.set("timeout", _budget(20000))
    for t in tl.terms:
        o.add(z_holds(t, env))
    obj = z3.Sum([zr(c) * env[n] for n, c in objective.items()] + [z3.RealVal(0)])
    h = o.maximize(obj) if maximize else o.minimize(obj)
    r = o.check()
    if r == z3.unsat:
        return ("infeasible",)
    if r != z3.sat:
        return ("unknown",)
    v = o.upper(h) if maximize else o.lower(h)
    s = str(v)
    if "oo" in s:
        return ("unbounded",)
    if "epsilon" in s:
        return ("unknown",)
    import z3 as _z3

    if _z3.is_int_value(v):
        return ("opt", Fraction(v.as_long()))
    if _z3.is_rational_value(v):
        return ("opt", v.as_fraction())
    return ("unknown",)


def feasible_exact(tl, box=True):
    env = Env()
    r = z_check([z_all(tl, env)], env, box=box)
    return r is not None


# ----------------------------------------------------------------------------------------------
# generators
# ----------------------------------------------------------------------------------------------
class Gen:
    def __init__(self, seed):
        self.r = random.Random(seed)
        from pacti.iocontract import Var
        from pacti.terms.polyhedra import PolyhedralTerm, PolyhedralTermList

        self.Var, self.PT, self.PTL = Var, PolyhedralTerm, PolyhedralTermList

    def coef(self, dyadic=True):
        r = self.r
        k = r.random()
        if k < 0.6:
            return float(r.choice([-3, -2, -1, 1, 2, 3]))
        if k < 0.85:
            return r.choice([-1, 1]) * r.choice([0.5, 0.25, 1.5, 2.5, 4.0])
        return float(r.randint(-9, 9) or 1)

    def const(self):
        r = self.r
        k = r.random()
        if k < 0.6:
            return float(r.randint(-6, 8))
        if k < 0.8:
            return r.choice([0.5, 1.5, -0.5, 2.25, 10.0, 0.0])
        return float(r.randint(-20, 40))

    def term(self, names, nmin=1, nmax=3):
        r = self.r
        k = r.randint(nmin, min(nmax, len(names)))
        vs = r.sample(names, k)
        return self.PT({self.Var(v): self.coef() for v in vs}, self.const())

    def bounds(self, name, lo=None, hi=None):
        out = []
        if hi is not None:
            out.append(self.PT({self.Var(name): 1.0}, float(hi)))
        if lo is not None:
            out.append(self.PT({self.Var(name): -1.0}, -float(lo)))
        return out

    def termlist(self, names, n, bounded=0.0):
        ts = [self.term(names) for _ in range(n)]
        if names and self.r.random() < bounded:
            for v in names:
                ts += self.bounds(v, -self.r.randint(1, 10), self.r.randint(1, 10))
        return self.PTL(ts)


def tl_str(tl):
    return [str(t) for t in (tl.terms if hasattr(tl, "terms") else tl)]


def contract_repr(c):
    return {"in": [v.name for v in c.inputvars], "out": [v.name for v in c.outputvars], "a": tl_str(c.a), "g": tl_str(c.g)}


def tl_data(tl):
    return [[{v.name: c for v, c in t.variables.items()}, t.constant] for t in (tl.terms if hasattr(tl, "terms") else tl)]


def contract_data(c):
    return {"in": [v.name for v in c.inputvars], "out": [v.name for v in c.outputvars], "a": tl_data(c.a), "g": tl_data(c.g)}


def tl_from_data(d):
    from pacti.iocontract import Var
    from pacti.terms.polyhedra import PolyhedralTerm, PolyhedralTermList

    return PolyhedralTermList([PolyhedralTerm({Var(k): v for k, v in t[0].items()}, t[1]) for t in d])


def contract_from_data(d, simplify=False):
    from pacti.contracts import PolyhedralIoContract
    from pacti.iocontract import Var

    return PolyhedralIoContract(tl_from_data(d["a"]), tl_from_data(d["g"]), [Var(x) for x in d["in"]], [Var(x) for x in d["out"]], simplify=simplify)


# ----------------------------------------------------------------------------------------------
# running cases in parallel
# ----------------------------------------------------------------------------------------------
def _run_chunk(job):
    modname, fname, src, seeds, tier, deadline = job
    try:
        setup(src)
        import importlib

        m = importlib.import_module(modname)
        fn = getattr(m, fname)
        out = []
        for sd in seeds:
            if time.time() > deadline:
                break
            try:
                out.append(fn(sd, tier))
            except Exception as e:
                out.append({"key": "monitor-crash", "error": "%r\n%s" % (e, traceback.format_exc()[-1500:]), "seed": sd})
        return out
    except Exception as e:
        return [{"key": "monitor-crash", "error": "%r\n%s" % (e, traceback.format_exc()[-1500:])}]


def run_cases(modname, fname, src, seeds, tier, jobs, budget_s):
    deadline = time.time() + budget_s
    chunks = [seeds[i::jobs] for i in range(jobs)]
    chunks = [c for c in chunks if c]
    # interleave small sub-chunks so that a deadline cuts all families evenly
    work = []
    for c in chunks:
        for i in range(0, len(c), 25):
            work.append((modname, fname, src, c[i : i + 25], tier, deadline))
    res = []
    with mp.Pool(min(jobs, max(1, len(work)))) as pool:
        for part in pool.imap_unordered(_run_chunk, work):
            res.extend(part)
    return res


def summarise(name, results, rule, bound, assumptions_checked=None):
    ev = len(results)
    errors = [r for r in results if r.get("key") == "monitor-crash"]
    distinct = len({r.get("case_key") for r in results if r.get("nontrivial") and r.get("case_key")})
    vio = [r["violation"] for r in results if r.get("violation")]
    samples = [r["sample"] for r in results if r.get("sample")][:8]
    out = {
        "name": name,
        "evaluations": ev,
        "distinct_nontrivial": distinct,
        "rule": rule,
        "bound": bound,
        "samples": samples,
        "violations": vio,
        "violations_n": len(vio),
        "summary": "%s: %d cases, %d distinct non-trivial, %d violations" % (name, ev, distinct, len(vio)),
        "assumptions_checked": assumptions_checked or {},
        "stats": {},
    }
    for r in results:
        for k, v in (r.get("stats") or {}).items():
            out["stats"][k] = out["stats"].get(k, 0) + v
    if errors:
        out["error"] = "%d monitor cases crashed; first: %s" % (len(errors), errors[0].get("error", "")[:1500])
    return out


def replay_in_fresh_process(modname, fname, src, payload):
    """Re-run one case in a fresh interpreter; returns the dict it prints."""
    code = (
        "import sys, json; sys.path.insert(0, %r); sys.path.insert(0, %r)\n"
        "from monitors.lib import setup; setup(%r)\n"
        "import importlib; m = importlib.import_module(%r)\n"
        "print('@@' + json.dumps(getattr(m, %r)(json.loads(sys.stdin.read())), default=str))\n" % (ROOT, src, src, modname, fname)
    )
    p = subprocess.run([sys.executable, "-c", code], input=json.dumps(payload), capture_output=True, text=True, timeout=300)
    for line in p.stdout.splitlines():
        if line.startswith("@@"):
            return json.loads(line[2:])
    return {"error": (p.stderr or p.stdout)[-2000:]}


def degenerate_system(g, names, kind=None):
    """terms of a FEASIBLE system without interior - what a solver run with very tight tolerances tends to call infeasible -
    and an integer point in it. kinds: 'equality' (one equality a.v = c with a constant of 1e5..1e6, written as two opposite
    terms), 'redundant_equalities' (n+1 consistent equalities in n unknowns), 'touching' (two half-spaces with one common
    boundary point on an axis-parallel segment), 'halfplanes' (opposite half-planes sharing their boundary)"""
    r = g.r
    kind = kind or r.choice(["equality", "redundant_equalities", "touching", "halfplanes"])
    names = list(names)[: max(2, min(len(names), 3))] if len(names) >= 2 else list(names) + ["dg_y"]
    big = kind in ("equality", "halfplanes")
    pt = {n: r.randint(-1000, 1000) if big else r.randint(-60, 60) for n in names}

    def row(lim):
        co = {n: r.choice([-1, 1]) * r.randint(1, lim) for n in names}
        return co, sum(co[n] * pt[n] for n in names)

    terms = []
    if kind in ("equality", "halfplanes"):
        co, c = row(1000)
        terms = [g.PT({g.Var(n): float(v) for n, v in co.items()}, float(c)), g.PT({g.Var(n): -float(v) for n, v in co.items()}, -float(c))]
        if r.random() < 0.5:
            terms.reverse()
    elif kind == "redundant_equalities":
        for _ in range(len(names) + r.randint(1, 2)):
            co, c = row(100)
            terms += [g.PT({g.Var(n): float(v) for n, v in co.items()}, float(c)), g.PT({g.Var(n): -float(v) for n, v in co.items()}, -float(c))]
    else:
        # two wedges that meet exactly in pt
        n0 = names[0]
        for sgn in (1, -1):
            for _ in range(2):
                co = {n: r.choice([-1, 1]) * r.randint(1, 100) for n in names[1:]}
                co[n0] = sgn * r.randint(1, 1000)
                c = sum(co[n] * pt[n] for n in names)
                terms.append(g.PT({g.Var(n): float(v) for n, v in co.items()}, float(c)))
            terms.append(g.PT({g.Var(n0): float(sgn)}, float(sgn * pt[n0])))
    return kind, terms, {n: float(v) for n, v in pt.items()}
