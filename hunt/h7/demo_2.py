"""C19: a copy of a contract built with the default simplification is NOT equal to its original.

Small-integer data only (no constant can move by an ulp).  The constructor's simplification
(reduce_polytope) compares the LP optimum with the bound exactly, without any tolerance
(polyhedra.py: `-res["fun"] <= b_temp[i]`).  An LP that returns -5.999999999999998 instead of -6 keeps a
redundant guarantee; copy() re-runs the simplification on the survivors, the LP now returns -6.0 exactly,
and the guarantee is dropped.  Hence c.copy() != c (and rename of an absent variable / from_dict round-trip
also return a contract that compares unequal to c).
"""
import sys
from fractions import Fraction

import z3

from pacti.contracts import PolyhedralIoContract
from pacti.iocontract import Var
from pacti.terms.polyhedra import PolyhedralTerm, PolyhedralTermList

c = PolyhedralIoContract.from_strings(  # default simplification
    assumptions=[],
    guarantees=["-y - j <= 0", "-3j - 7y <= -12", "-5y - 3j <= -6", "-j - 3y <= -6", "-4y - 2j <= -6"],
    input_vars=[],
    output_vars=["y", "j"],
)
d = c.copy()
print("original  G:", [str(t) for t in c.g.terms])
print("copy      G:", [str(t) for t in d.g.terms])
print("c == c.copy():", bool(c == d), "  hash equal:", hash(c) == hash(d))
absent = c.rename_variable(Var("not_there"), Var("fresh"))
print("c == c.rename_variable(absent, fresh):", bool(c == absent))
rt = PolyhedralIoContract.from_dict(c.to_machine_dict())
print("c == from_dict(c.to_machine_dict()):", bool(c == rt))


# exact explanation: the guarantee kept by the constructor is implied by the other two (z3 over the rationals)
def z3term(t, env):
    lhs = sum(z3.Q(Fraction(k).numerator, Fraction(k).denominator) * env[v.name] for v, k in t.variables.items())
    return lhs <= z3.Q(Fraction(t.constant).numerator, Fraction(t.constant).denominator)


env = {"y": z3.Real("y"), "j": z3.Real("j")}
extra = [t for t in c.g.terms if t not in d.g.terms]
for t in extra:
    s = z3.Solver()
    s.add(*[z3term(u, env) for u in d.g.terms])
    s.add(z3.Not(z3term(t, env)))
    print(f"term kept by the constructor but dropped by copy: {t}; implied by the copy's guarantees: {s.check() == z3.unsat}")

if not (c == d) or hash(c) != hash(d):
    print("VIOLATION (C19): copy() of a contract built with default simplification differs from its original")
    sys.exit(1)
print("ok")
