"""C13: objects returned by a query share mutable state with their operand.

TermList.get_terms_with_vars() (iocontract.py) builds its result with `type(self)(terms)` out of the very same
PolyhedralTerm objects that live in the queried list, and PolyhedralTermList.__init__ (polyhedra.py) only copies
the *list* (`terms.copy()`), not the terms.  Editing the returned list therefore silently rewrites the
guarantees of the contract that was queried (every other operator - |, -, &, copy, simplify, rename - returns
fresh terms).
"""
import sys

from pacti.contracts import PolyhedralIoContract
from pacti.iocontract import Var
from pacti.terms.polyhedra import PolyhedralTerm, PolyhedralTermList

x, y = Var("x"), Var("y")
c = PolyhedralIoContract.from_strings(
    assumptions=["x <= 5"], guarantees=["y - x <= 1", "-y <= 0"], input_vars=["x"], output_vars=["y"]
)
behaviour = {x: 0.0, y: 50.0}  # y - x = 50 > 1 : not allowed by the guarantees
before_str = [str(t) for t in c.g.terms]
before_sat = c.g.contains_behavior(behaviour)

sub = c.g.get_terms_with_vars([x])  # a query: "which guarantees mention x?"
print("queried contract guarantees :", before_str)
print("result of the query         :", [str(t) for t in sub.terms])
shared = [t for t in sub.terms if any(t is u for u in c.g.terms)]
print("term objects shared between result and operand:", len(shared))

# the caller now edits ITS result (relaxes the bound of the returned list)
for t in sub.terms:
    t.constant = 100.0

after_str = [str(t) for t in c.g.terms]
after_sat = c.g.contains_behavior(behaviour)
print("contract guarantees afterwards:", after_str)
print(f"behaviour x=0,y=50 satisfies the contract's guarantees: before={before_sat} after={after_sat}")

# same sharing through the PolyhedralTermList constructor
t0 = PolyhedralTerm({x: 1}, 1)
lst = [t0]
tl = PolyhedralTermList(lst)
snapshot = str(tl.terms[0])
t0.constant = 7.0
print("PolyhedralTermList([t]) then t.constant = 7 ->", snapshot, "became", str(tl.terms[0]))

if before_str != after_str or before_sat != after_sat or shared:
    print("VIOLATION (C13): get_terms_with_vars returns a list aliasing the operand's terms; mutating the result changed the contract")
    sys.exit(1)
print("ok")
