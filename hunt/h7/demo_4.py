"""C16 (lower severity): rename_variable raises a bare ValueError instead of returning the substituted contract.

IoContract.rename_variable ends with `type(self)(assumptions, guarantees, inputvars, outputvars)`, i.e. it
re-runs the default simplification of the guarantees w.r.t. the assumptions; reduce_polytope raises ValueError
as soon as assumptions & guarantees have no common point.  Consequences:
 (a) renaming an input to another existing input (a case listed in the property) fails with ValueError when the
     merged variable makes the assumptions contradictory - although the substituted contract is perfectly
     well defined (and IS returned when the guarantee list happens to be empty);
 (b) for a legal contract built with simplify=False whose guarantees contradict its assumptions, renaming an
     ABSENT variable (which must change nothing), the identity renaming and copy() all raise ValueError.
The only exception the documentation/property allows is IncompatibleArgsError for an input/output clash.
"""
import sys

from pacti.contracts import PolyhedralIoContract
from pacti.iocontract import Var
from pacti.utils.errors import IncompatibleArgsError

failures = []


def attempt(label, fn):
    try:
        r = fn()
        print(f"{label}: returned contract with inputs {[v.name for v in r.inputvars]}, A={[str(t) for t in r.a.terms]}, G={[str(t) for t in r.g.terms]}")
    except IncompatibleArgsError as e:
        print(f"{label}: IncompatibleArgsError (documented)")
    except ValueError as e:
        print(f"{label}: ValueError: {str(e).splitlines()[0]} ...")
        failures.append(label)


# (a) default-simplified contract, target is an existing input
c = PolyhedralIoContract.from_strings(
    assumptions=["x <= 0", "y >= 1"], guarantees=["z <= x + y"], input_vars=["x", "y"], output_vars=["z"]
)
attempt("(a) rename x -> y (existing input), guarantees present", lambda: c.rename_variable(Var("x"), Var("y")))
c0 = PolyhedralIoContract.from_strings(
    assumptions=["x <= 0", "y >= 1"], guarantees=[], input_vars=["x", "y"], output_vars=["z"]
)
attempt("    same renaming, empty guarantee list            ", lambda: c0.rename_variable(Var("x"), Var("y")))

# (b) legal contract built with simplify=False; a & g infeasible
c2 = PolyhedralIoContract.from_strings(
    assumptions=["x >= 0"], guarantees=["y <= x", "x <= -1"], input_vars=["x"], output_vars=["y"], simplify=False
)
attempt("(b) rename ABSENT variable q -> r                  ", lambda: c2.rename_variable(Var("q"), Var("r")))
attempt("    rename x -> x (source equal to target)         ", lambda: c2.rename_variable(Var("x"), Var("x")))
attempt("    rename_variables([])                           ", lambda: c2.rename_variables([]))
attempt("    copy()                                         ", lambda: c2.copy())

if failures:
    print("VIOLATION (C16): rename_variable raised ValueError instead of returning the substituted contract in:", failures)
    sys.exit(1)
print("ok")
