"""C16: renaming a variable to itself at term / term-list level silently DROPS the variable.

PolyhedralTerm.rename_variable(x, x) and TermList.rename_variable(x, x) are public; the identity
renaming must be the identity substitution (source equal to target changes nothing).  The library
returns a term in which x has disappeared, i.e. a constraint with a different meaning.
"""
import sys
from fractions import Fraction

from pacti.iocontract import Var
from pacti.terms.polyhedra import PolyhedralTerm, PolyhedralTermList

x, y = Var("x"), Var("y")
t = PolyhedralTerm({x: 2, y: 3}, 4)  # 2x + 3y <= 4
tl = PolyhedralTermList([t, PolyhedralTerm({x: -1}, 0)])  # 2x + 3y <= 4, -x <= 0

rt = t.rename_variable(x, x)
rtl = tl.rename_variable(x, x)
print("term          :", t)
print("rename x -> x :", rt)
print("termlist      :", [str(u) for u in tl.terms])
print("rename x -> x :", [str(u) for u in rtl.terms])


def holds(term, point):
    lhs = sum(Fraction(c) * Fraction(point[v.name]) for v, c in term.variables.items())
    return lhs <= Fraction(term.constant)


# semantic check: the identity renaming must not change which behaviours satisfy the constraint
witness = {"x": 10, "y": 0}  # 2*10 + 0 = 20 > 4 : violates the original term
before = holds(t, witness)
after = holds(rt, witness)
before_l = all(holds(u, witness) for u in tl.terms)
after_l = all(holds(u, witness) for u in rtl.terms)
print(f"behaviour {witness}: original term satisfied={before}, renamed term satisfied={after}")
print(f"behaviour {witness}: original list satisfied={before_l}, renamed list satisfied={after_l}")
bad = (before != after) or (before_l != after_l) or (x not in rt.vars)
if bad:
    print("VIOLATION (C16): rename_variable(x, x) is not the identity: variable x was removed from the constraint")
    sys.exit(1)
print("ok")
