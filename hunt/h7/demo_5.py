"""Secondary observation (C16 corner "cancelling coefficients"; hit by any C13-style operation sequence).

Renaming x -> y in a constraint a*x - a*y <= c adds the coefficients (as the property demands) and leaves a
constraint with NO variable, `0 <= c`.  rename_variable keeps that degenerate term in the returned contract
(PolyhedralTerm.rename_variable / remove_variable never drop it, and reduce_polytope returns a single row
untouched).  The renamed contract is semantically the right substitution, but it is not a usable value of the
algebra any more: its own serialisation cannot be parsed back, refines() on itself escapes with scipy's
ValueError, quotient() dies with AssertionError, and a false term `0 <= -1` is reported as non-empty.
"""
import sys

from pacti.contracts import PolyhedralIoContract
from pacti.iocontract import Var

c = PolyhedralIoContract.from_strings(
    assumptions=[], guarantees=["x - y <= 1"], input_vars=["x", "y"], output_vars=[]
)
r = c.rename_variable(Var("x"), Var("y"))  # substituted guarantee: 0 <= 1  (i.e. true)
print("renamed contract guarantees:", [(dict(t.variables), t.constant) for t in r.g.terms], " to_dict:", r.to_dict()["guarantees"])

problems = []
for label, fn in [
    ("from_strings(**r.to_dict())", lambda: PolyhedralIoContract.from_strings(**r.to_dict())),
    ("r.refines(r)", lambda: r.refines(r)),
    ("r.quotient(r)", lambda: r.quotient(r)),
]:
    try:
        out = fn()
        print(f"{label}: ok -> {out if isinstance(out, bool) else 'contract'}")
    except BaseException as e:  # noqa
        print(f"{label}: {type(e).__name__}: {str(e).strip().splitlines()[0] if str(e).strip() else ''}")
        problems.append(label)

c2 = PolyhedralIoContract.from_strings(
    assumptions=[], guarantees=["x - y <= -1"], input_vars=["x", "y"], output_vars=[]
)
r2 = c2.rename_variable(Var("x"), Var("y"))  # substituted guarantee: 0 <= -1 (i.e. false)
print("renamed guarantees:", [(dict(t.variables), t.constant) for t in r2.g.terms], " is_empty():", r2.g.is_empty())
if not r2.g.is_empty():
    problems.append("is_empty() of the false constraint 0 <= -1 is False")

if problems:
    print("DEFECT: contract returned by rename_variable is unusable:", problems)
    sys.exit(1)
print("ok")
