"""
Side observation (NOT a violation of C01 / C15 as stated: compose raises, it does not return a wrong contract).

A constraint WITHOUT variables that the library manufactures itself (cancelling coefficients while relaxing one half of an
equality guarantee with its other half) carries a rounding residue:  0 <= -1.11e-16.  `_split_variable_free_terms` reads any
negative constant as "unsatisfiable", so composing a perfectly consistent producer/consumer pair raises ValueError, with
simplify=True and with simplify=False, for every tactics order that starts with tactic 1 (the default order included).

Run:  PYTHONPATH=/tmp/wt-j3/src /venv/bin/python /tmp/wt-j3/demo_1.py
Exit status 1 when compose fails on the consistent pair (the defect is present), 0 otherwise.
"""
import sys
from fractions import Fraction

import z3

from pacti.contracts import PolyhedralIoContract

producer = PolyhedralIoContract.from_strings(
    input_vars=["i"], output_vars=["x"], assumptions=[], guarantees=["0.1 x - 0.1 i = 0.7"]
)
consumer = PolyhedralIoContract.from_strings(
    input_vars=["x"], output_vars=["y"], assumptions=[], guarantees=["y + x <= 0"]
)
print("producer:\n%s\n" % producer)
print("consumer:\n%s\n" % consumer)


def rat(x):
    f = Fraction(float(x))
    return z3.RatVal(f.numerator, f.denominator)


# exact oracle: the two guarantee sets are jointly satisfiable inside the box |v| <= 1000 (floats read as exact rationals)
zv = {n: z3.Real(n) for n in ("i", "x", "y")}
s = z3.Solver()
for v in zv.values():
    s.add(v >= -1000, v <= 1000)
for c in (producer, consumer):
    for t in c.g.terms:
        s.add(sum(rat(k) * zv[v.name] for v, k in t.variables.items()) <= rat(t.constant))
consistent = s.check() == z3.sat
print("guarantees of the pair jointly satisfiable (z3, exact):", consistent)

failed = False
for simplify in (True, False):
    for order in ([1, 2, 3, 4, 5], [1], [3], [2], [4]):
        try:
            res, _ = producer.compose_tactics(consumer, simplify=simplify, tactics_order=order)
            print("simplify=%s tactics=%s -> returned, G = %s" % (simplify, order, res.g.to_str_list()))
        except ValueError as e:
            failed = True
            msgs, cur = [], e
            while cur is not None:
                msgs.append(str(cur))
                cur = cur.__cause__
            lines = sorted({ln.strip() for m in msgs for ln in m.splitlines() if ln.strip().startswith("0 <=")})
            print("simplify=%s tactics=%s -> ValueError %s" % (simplify, order, lines or str(e).splitlines()[0]))

if consistent and failed:
    print("\nDEFECT: compose raises ValueError on a consistent pair because of the residue '0 <= -1.11e-16'")
    sys.exit(1)
print("\nno failure")
sys.exit(0)
