"""C11 (consistency clause), borderline: a behaviour contained in L is not contained in a list that L is said to refine.

refines() grants the right-hand bound a slack of 1e-9*(1+|bound|) (CONTAINMENT_TOLERANCE), contains_behavior() is exact.
All numbers below are dyadic rationals, so every float evaluation is exact.

Run: PYTHONPATH=/tmp/wt-g3/src /venv/bin/python /tmp/wt-g3/demo_2.py
Exit status 1 when the clause is violated.
"""
import sys
from fractions import Fraction

import pacti
from pacti.iocontract import Var
from pacti.terms.polyhedra import PolyhedralTerm, PolyhedralTermList

print("pacti from", pacti.__file__)
x = Var("x")


def exact_in(tl, beh):
    return all(
        sum(Fraction(c) * Fraction(beh[v]) for v, c in t.variables.items()) <= Fraction(t.constant) for t in tl.terms
    )


violations = 0
for bound, delta in [(1.0, 2.0**-31), (1000.0, 2.0**-21), (8192.0, 2.0**-18)]:
    left = PolyhedralTermList([PolyhedralTerm({x: 1}, bound + delta)])  # x <= bound + delta
    right = PolyhedralTermList([PolyhedralTerm({x: 1}, bound)])  # x <= bound
    assert Fraction(bound + delta) == Fraction(bound) + Fraction(delta)  # exactly representable
    beh = {x: bound + delta}
    says_refines = bool(left.refines(right))
    in_left = left.contains_behavior(beh)
    in_right = right.contains_behavior(beh)
    assert in_left == exact_in(left, beh) and in_right == exact_in(right, beh)  # membership itself is exact
    bad = says_refines and in_left and not in_right
    print(
        f"L: x <= {bound}+{delta:.3g}, R: x <= {bound}:  L.refines(R)={says_refines}, "
        f"behaviour x={bound}+{delta:.3g} in L: {in_left}, in R: {in_right}" + ("   <-- INCONSISTENT" if bad else "")
    )
    violations += bad

if violations:
    print("C11 consistency clause violated: a behaviour of L lies outside a list that L 'refines'")
    sys.exit(1)
print("no violation")
