"""C03: a satisfiable constraint list (small integer data, bounded by the box |v|<=1000) does not refine itself.

Run: PYTHONPATH=/tmp/wt-g3/src /venv/bin/python /tmp/wt-g3/demo_1.py
Exit status 1 when the property is violated.
"""
import sys
from fractions import Fraction

import z3

import pacti
from pacti.contracts import PolyhedralIoContract
from pacti.iocontract import Var
from pacti.terms.polyhedra import PolyhedralTerm, PolyhedralTermList

print("pacti from", pacti.__file__)

ROWS = [
    ({"x": -697, "y": 71, "z": 607}, 2),
    ({"x": -377, "y": -659, "z": 980}, 0),
    ({"x": 1}, 1000),
    ({"x": -1}, 1000),
    ({"y": -1}, 1000),
    ({"z": 1}, 1000),
    ({"z": -1}, 1000),
]


def mk(rows):
    return PolyhedralTermList([PolyhedralTerm({Var(k): v for k, v in co.items()}, c) for co, c in rows])


def q(x):
    fr = Fraction(float(x))
    return z3.RatVal(fr.numerator, fr.denominator)


ZV = {n: z3.Real(n) for n in "xyz"}


def holds(term):
    return z3.Sum([q(c) * ZV[v.name] for v, c in term.variables.items()]) <= q(term.constant)


def exactly_contained(left, right):
    """Exact rational oracle: every point of left satisfies every term of right."""
    for r in right.terms:
        s = z3.Solver()
        s.add(*[holds(t) for t in left.terms], z3.Not(holds(r)))
        if s.check() != z3.unsat:
            return False
    return True


def satisfiable(tl):
    s = z3.Solver()
    s.add(*[holds(t) for t in tl.terms])
    return s.check() == z3.sat


L = mk(ROWS)
sub = mk(ROWS[1:2])  # a sub-list of L: its second constraint only
violations = 0

print("constraint list L:")
for t in L.terms:
    print("   ", t)
print("L satisfiable (exact):", satisfiable(L), "| library is_empty():", L.is_empty())
print("origin in L (library contains_behavior):", L.contains_behavior({Var("x"): 0, Var("y"): 0, Var("z"): 0}))

checks = [
    ("L.refines(L)", L, L, lambda: L.refines(L)),
    ("L <= L", L, L, lambda: L <= L),
    ("L.refines(sub-list {second constraint})", L, sub, lambda: L.refines(sub)),
]
for name, left, right, call in checks:
    expected = exactly_contained(left, right)
    got = bool(call())
    flag = "" if got == expected else "   <-- VIOLATION"
    print(f"{name}: library says {got}, exact containment is {expected}{flag}")
    violations += got != expected

# the same at the contract level
ins = [Var("x"), Var("y"), Var("z")]
c = PolyhedralIoContract(assumptions=L, guarantees=PolyhedralTermList([]), input_vars=ins, output_vars=[Var("o")])
expected = satisfiable(L) and exactly_contained(c.a, c.a) and exactly_contained(c.g | c.a, c.g | c.a)
got = bool(c.refines(c))
print(f"contract (A=L, G=true) refines itself: library says {got}, expected {expected}" + ("" if got == expected else "   <-- VIOLATION"))
violations += got != expected
got = bool(c.contains_environment(L))
print(f"contract.contains_environment(L) with A=L: library says {got}, expected True" + ("" if got else "   <-- VIOLATION"))
violations += not got

c2 = PolyhedralIoContract(
    assumptions=PolyhedralTermList([]), guarantees=L, input_vars=[], output_vars=ins, simplify=False
)
got = bool(c2.contains_implementation(L))
print(f"contract.contains_implementation(L) with G=L: library says {got}, expected True" + ("" if got else "   <-- VIOLATION"))
violations += not got

# a second instance (coefficients are multiples of 100), and the size of the LP excess that causes the wrong answer
ROWS2 = [
    ({"x": -6900, "y": 6200, "z": -2400}, 0),
    ({"x": 2500, "y": 6700, "z": 8500}, 0),
    ({"x": 1}, 1000), ({"x": -1}, 1000), ({"y": 1}, 1000), ({"y": -1}, 1000), ({"z": 1}, 1000), ({"z": -1}, 1000),
]
L2 = mk(ROWS2)
expected = satisfiable(L2) and exactly_contained(L2, L2)
got = bool(L2.refines(L2))
print(f"second instance: L2.refines(L2): library says {got}, expected {expected}" + ("" if got == expected else "   <-- VIOLATION"))
violations += got != expected

import numpy as np
from scipy.optimize import linprog

for lst in (L, L2):
    _, a_l, b_l, a_r, b_r = PolyhedralTermList.termlist_to_polytope(lst, lst)
    for i in range(len(b_r)):
        res = linprog(c=-a_r[i], A_ub=np.vstack([a_l, a_r[[i]]]), b_ub=np.append(b_l, b_r[i] + 1), bounds=(None, None))
        excess = -res.fun - b_r[i]
        if excess > 1e-9 * (1 + abs(b_r[i])):
            print(f"   row {i}: LP optimum exceeds its own bound {b_r[i]} by {excess:.3e} > tolerance {1e-9 * (1 + abs(b_r[i])):.1e}")

if violations:
    print(f"PROPERTY C03 VIOLATED ({violations} wrong answers): a satisfiable list must refine itself and its sub-lists")
    sys.exit(1)
print("no violation")
