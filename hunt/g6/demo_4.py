"""C12 (leftover of the repair of constraints without variables): a contract whose only constraint has cancelling
coefficients ("x - x <= 1", i.e. 0 <= 1, true everywhere) is NOT empty, yet optimising an objective whose
coefficients are zero / cancel ("0 x", "x - x") raises ValueError instead of returning 0.

(With a non-zero objective the same contract correctly answers None, and with no constraint at all the zero
objective correctly answers 0.0.)
"""
import sys

from pacti.contracts import PolyhedralIoContract
from pacti.iocontract import Var

contract = PolyhedralIoContract.from_strings(
    assumptions=[], guarantees=["x - x <= 1"], input_vars=[], output_vars=["x", "y"], simplify=False
)
print(contract)
behaviour = {Var("x"): 3, Var("y"): -2}
nonempty = contract.a.contains_behavior(behaviour) and contract.g.contains_behavior(behaviour)
print("behaviour x=3, y=-2 satisfies assumptions and guarantees:", nonempty)

violations = 0
for expr in ("0 x", "x - x", "0 x + 0 y"):
    for maximize in (True, False):
        try:
            got = contract.optimize(expr, maximize=maximize)
            ok = got is not None and abs(got) <= 1e-9  # the objective is identically 0 over a non-empty set
            print("optimize(%r, maximize=%s) -> %r %s" % (expr, maximize, got, "" if ok else " <-- VIOLATION"))
        except ValueError as e:
            ok = False
            print("optimize(%r, maximize=%s) -> ValueError(%s)  <-- VIOLATION (expected 0.0)" % (expr, maximize, e))
        violations += 0 if ok else 1

# reference points: same objective on a contract without constraints, and a non-zero objective on this contract
free = PolyhedralIoContract.from_strings([], [], [], ["x", "y"])
print("reference: no constraints, optimize('0 x') ->", free.optimize("0 x"))
print("reference: this contract, optimize('y') ->", contract.optimize("y"))

if nonempty and violations:
    print("PROPERTY C12 VIOLATED: ValueError on a non-empty contract (%d cases)" % violations)
    sys.exit(1)
print("no violation")
