"""C12: optimize() / get_variable_bounds() raise ValueError("Constraints are unfeasible") on a NON-EMPTY contract
whose objective is unbounded (the property asks for None).

Contract: no inputs, outputs x, y, z, guarantee  0 <= 1000 x + 3000 y + 3000 z <= 5  (a slab between two parallel
planes; coefficients of ordinary magnitude, one order of magnitude apart at most).
Objective: y (maximize).  The slab contains (0, t, -t) for every t, so y is unbounded above.
"""
import sys
from fractions import Fraction

import z3

from pacti.contracts import PolyhedralIoContract

contract = PolyhedralIoContract.from_strings(
    assumptions=[],
    guarantees=["0 <= 1000 x + 3000 y + 3000 z <= 5"],
    input_vars=[],
    output_vars=["x", "y", "z"],
)
print(contract)

# ---- exact oracle (rationals, z3) on the terms the contract actually holds
zv = {v.name: z3.Real(v.name) for v in contract.vars}


def rat(f):
    fr = Fraction(f)
    return z3.RatVal(fr.numerator, fr.denominator)


cons = [
    z3.Sum([rat(c) * zv[v.name] for v, c in t.variables.items()]) <= rat(t.constant)
    for t in (contract.a | contract.g).terms
]
s = z3.Solver()
s.add(cons)
nonempty = s.check() == z3.sat
print("exact: contract has a behaviour:", nonempty, s.model() if nonempty else "")


def exact_opt(var, maximize):
    o = z3.Optimize()
    o.add(cons)
    h = o.maximize(zv[var]) if maximize else o.minimize(zv[var])
    o.check()
    val = o.upper(h) if maximize else o.lower(h)
    return None if "oo" in str(val) else val


violations = 0
for var in ("x", "y", "z"):
    for maximize in (True, False):
        expected = exact_opt(var, maximize)
        try:
            got = contract.optimize(var, maximize=maximize)
            got_s = repr(got)
        except ValueError as e:
            got = "ValueError"
            got_s = "ValueError(%s)" % e
        ok = (got is None) if expected is None else (got not in (None, "ValueError"))
        print(
            "optimize(%r, maximize=%s): library -> %s ; exact -> %s %s"
            % (var, maximize, got_s, "None (unbounded)" if expected is None else expected, "" if ok else "  <-- VIOLATION")
        )
        if nonempty and not ok:
            violations += 1

try:
    print("get_variable_bounds('y') ->", contract.get_variable_bounds("y"))
except ValueError as e:
    print("get_variable_bounds('y') -> ValueError(%s)   <-- VIOLATION (contract is not empty; expected (None, None))" % e)
    violations += 1

if violations:
    print("PROPERTY C12 VIOLATED: ValueError raised although a behaviour exists (%d cases)" % violations)
    sys.exit(1)
print("no violation")
