"""C18: constraints_to_vertices() lists a corner twice for a NON-degenerate slice (a plain triangle), when three
boundary lines pass through that corner.  (This is the Qhull halfspace-intersection path, not the LP fallback used
for slices without interior.)

Constraints over x, y:   8x - 14y <= -54 ,  -9x + 15y <= 60 ,  -x + 2y <= 8 ;  limits x in [0, 4], y in [-5, 5].
The slice is the triangle (0, 27/7), (0, 4), (2, 5); the lines x = 0, -9x + 15y = 60 and -x + 2y = 8 all pass
through the corner (0, 4).
"""
import itertools
import sys
from fractions import Fraction as F

from pacti.iocontract import Var
from pacti.terms.polyhedra.polyhedra import PolyhedralTerm, PolyhedralTermList
from pacti.utils.plots import constraints_to_vertices

x, y = Var("x"), Var("y")
rows = [(8, -14, -54), (-9, 15, 60), (-1, 2, 8)]
x_lims, y_lims = (0, 4), (-5, 5)
constraints = PolyhedralTermList([PolyhedralTerm({x: a, y: b}, c) for a, b, c in rows])

xs, ys = constraints_to_vertices(constraints, x, y, {}, x_lims, y_lims)
got = [(float(px), float(py)) for px, py in zip(xs, ys)]
print("library returns %d points:" % len(got))
for p in got:
    print("   ", p)

# exact corners: intersections of pairs of boundary lines that satisfy every constraint
allrows = [(F(a), F(b), F(c)) for a, b, c in rows]
allrows += [(F(1), F(0), F(x_lims[1])), (F(-1), F(0), F(-x_lims[0])), (F(0), F(1), F(y_lims[1])), (F(0), F(-1), F(-y_lims[0]))]
corners = set()
for (a1, b1, c1), (a2, b2, c2) in itertools.combinations(allrows, 2):
    det = a1 * b2 - a2 * b1
    if det == 0:
        continue
    px, py = (c1 * b2 - c2 * b1) / det, (a1 * c2 - a2 * c1) / det
    if all(a * px + b * py <= c for a, b, c in allrows):
        corners.add((px, py))
print("exact corners (%d):" % len(corners), sorted((str(a), str(b)) for a, b in corners))

violated = False
for cx, cy in corners:
    n = sum(1 for px, py in got if abs(px - float(cx)) < 1e-6 and abs(py - float(cy)) < 1e-6)
    if n != 1:
        print("corner (%s, %s) is listed %d times" % (cx, cy, n))
        violated = True
for px, py in got:
    if not any(abs(px - float(cx)) < 1e-6 and abs(py - float(cy)) < 1e-6 for cx, cy in corners):
        print("returned point (%r, %r) is not a corner" % (px, py))
        violated = True
if violated:
    print("PROPERTY C18 VIOLATED: the returned vertices are not exactly the corners of the (non-degenerate) slice")
    sys.exit(1)
print("no violation")
