"""C12: optimize() / get_variable_bounds() raise ValueError("Constraints are unfeasible") on a NON-EMPTY, BOUNDED contract
whose objective has a finite optimum.

Contract: no inputs, outputs a, y, z, guarantees
    -1000 a + 3000 y - 3000 z = 0 ,   0 <= a <= 1 ,   0 <= -2000 y + 3000 z <= 1000
(a bounded parallelogram in 3-space containing the origin; coefficients between 1 and 3000).
Objective: z, minimise.  Exact optimum: 0 (at a = y = z = 0).
"""
import sys
from fractions import Fraction

import z3

from pacti.contracts import PolyhedralIoContract

contract = PolyhedralIoContract.from_strings(
    assumptions=[],
    guarantees=["-1000 a + 3000 y - 3000 z = 0", "0 <= a <= 1", "0 <= -2000 y + 3000 z <= 1000"],
    input_vars=[],
    output_vars=["a", "y", "z"],
)
print(contract)

zv = {v.name: z3.Real(v.name) for v in contract.vars}


def rat(f):
    fr = Fraction(f)
    return z3.RatVal(fr.numerator, fr.denominator)


cons = [
    z3.Sum([rat(c) * zv[v.name] for v, c in t.variables.items()]) <= rat(t.constant)
    for t in (contract.a | contract.g).terms
]
s = z3.Solver()
s.add(cons)
nonempty = s.check() == z3.sat
print("exact: contract has a behaviour:", nonempty, s.model() if nonempty else "")


def exact_opt(var, maximize):
    o = z3.Optimize()
    o.add(cons)
    h = o.maximize(zv[var]) if maximize else o.minimize(zv[var])
    o.check()
    val = o.upper(h) if maximize else o.lower(h)
    return None if "oo" in str(val) else Fraction(str(val))


violations = 0
for var in ("a", "y", "z"):
    for maximize in (True, False):
        expected = exact_opt(var, maximize)
        try:
            got = contract.optimize(var, maximize=maximize)
        except ValueError as e:
            got = "ValueError(%s)" % e
        if expected is None:
            ok = got is None
        else:
            ok = isinstance(got, float) and abs(got - float(expected)) <= 1e-6 * max(1.0, abs(float(expected)))
        print(
            "optimize(%r, maximize=%s): library -> %r ; exact -> %s %s"
            % (var, maximize, got, expected, "" if ok else "  <-- VIOLATION")
        )
        violations += 0 if ok else 1

try:
    print("get_variable_bounds('z') ->", contract.get_variable_bounds("z"))
except ValueError as e:
    print("get_variable_bounds('z') -> ValueError(%s)  <-- VIOLATION: exact bounds are (%s, %s)" % (e, exact_opt("z", False), exact_opt("z", True)))
    violations += 1

if violations:
    print("PROPERTY C12 VIOLATED: ValueError raised although the contract is non-empty and the optimum is finite")
    sys.exit(1)
print("no violation")
