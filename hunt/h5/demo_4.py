"""C10 (low severity): the printer decides that two constraints form an opposite pair with a relative tolerance of
1e-5 and then prints ONE set of numbers (those of the first constraint) for both.  When the two constraints' numbers
are within 1e-5 of each other but fall on different sides of a 4-significant-digit rounding boundary, the second
constraint is read back with the first one's digits, not with its own number rounded to four significant digits."""
import sys
from fractions import Fraction as F
import z3
from pacti.contracts import PolyhedralIoContract
from pacti.iocontract import Var
from pacti.terms.polyhedra import PolyhedralTerm, PolyhedralTermList

x, y = Var("x"), Var("y")
r4 = lambda n: float(f"{n:.4g}")


def as_z3(termlist, rounded):
    r = r4 if rounded else (lambda n: n)
    conj = []
    for t in termlist.terms:
        lhs = z3.RealVal(0)
        for v, c in t.variables.items():
            lhs = lhs + z3.RealVal(str(F(r(c)))) * z3.Real(v.name)
        conj.append(lhs <= z3.RealVal(str(F(r(t.constant)))))
    return z3.And(conj) if conj else z3.BoolVal(True)


def difference(p, q):
    s = z3.Solver()
    s.add(z3.Xor(p, q))
    return s.model() if s.check() == z3.sat else None


cases = {
    "constants straddle a rounding boundary": [PolyhedralTerm({x: 1}, 1.23450001), PolyhedralTerm({x: -1}, 1.2344999)],
    "coefficients straddle a rounding boundary": [PolyhedralTerm({x: 1.23450001, y: 1}, 5), PolyhedralTerm({x: -1.2344999, y: -1}, 5)],
    "equality, constants straddle": [PolyhedralTerm({x: 2}, 1.23450001), PolyhedralTerm({x: -2}, -1.2344999)],
}
bad = 0
for name, terms in cases.items():
    c = PolyhedralIoContract(assumptions=PolyhedralTermList([]), guarantees=PolyhedralTermList(terms),
                             input_vars=[], output_vars=[x, y], simplify=False)
    d = c.to_dict()
    back = PolyhedralIoContract.from_strings(**d, simplify=False)
    print(name)
    print("   original :", [str(t) for t in c.g.terms])
    print("   rounded  :", [f"{ {v.name: r4(k) for v, k in t.variables.items()} } <= {r4(t.constant)}" for t in c.g.terms])
    print("   printed  :", d["guarantees"])
    print("   read back:", [str(t) for t in back.g.terms])
    m = difference(as_z3(c.g, True), as_z3(back.g, False))
    if m is not None:
        bad += 1
        print("   VIOLATION: read-back differs from the original rounded to 4 significant digits, e.g. at", m)
print(f"{bad} violation(s)")
sys.exit(1 if bad else 0)
