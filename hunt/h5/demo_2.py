"""C09: a relation in which the absolute-value terms cancel (repeated |x| with opposite signs) or carry a zero
multiplier does not use absolute values non-convexly -- it is an ordinary linear inequality -- yet the parser raises
the convexity error instead of translating it."""
import sys
from fractions import Fraction as F
import z3
from pacti.terms.polyhedra.serializer import polyhedral_termlist_from_string as parse
from pacti.utils.errors import PolyhedralSyntaxConvexException

x, y = z3.Real("x"), z3.Real("y")
ab = lambda e: z3.If(e >= 0, e, -e)


def as_z3(terms):
    conj = []
    for t in terms:
        lhs = z3.RealVal(0)
        for v, c in t.variables.items():
            lhs = lhs + z3.RealVal(str(F(c))) * z3.Real(v.name)
        conj.append(lhs <= z3.RealVal(str(F(t.constant))))
    return z3.And(conj) if conj else z3.BoolVal(True)


def equivalent(p, q):
    s = z3.Solver()
    s.add(z3.Xor(p, q))
    return s.check() == z3.unsat


def is_convex(phi):
    # the sets are closed, so midpoint convexity decides convexity
    p = {v: z3.Real(str(v) + "_p") for v in (x, y)}
    q = {v: z3.Real(str(v) + "_q") for v in (x, y)}
    at = lambda m: z3.substitute(phi, *[(v, m[v]) for v in (x, y)])
    s = z3.Solver()
    s.add(at(p), at(q), z3.Not(at({v: (p[v] + q[v]) / 2 for v in (x, y)})))
    return s.check() == z3.unsat


cases = [
    ("2|x| - |x| + y <= 1", ab(x) + y <= 1),  # control: partial cancellation is handled
    ("|x| - |x| + y <= 1", y <= 1),
    ("|x| + y <= |x| + 1", y <= 1),
    ("2|x| + y - (1+1)|x| <= 1", y <= 1),
    ("0|x| + y <= 1", y <= 1),
    ("y >= |x - 1| - |x - 1|", y >= 0),
]
bad = 0
for s, written in cases:
    try:
        terms = parse(s)
    except PolyhedralSyntaxConvexException:
        bad += 1
        print(f"VIOLATION  {s!r}: convexity error, although the written relation is the half-plane "
              f"{written} (convex: {is_convex(written)})")
        continue
    ok = equivalent(as_z3(terms), written)
    print(f"{'ok       ' if ok else 'VIOLATION'}  {s!r} -> {terms}")
    bad += 0 if ok else 1
print(f"{bad} violation(s)")
sys.exit(1 if bad else 0)
