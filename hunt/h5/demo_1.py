"""C09: a constant multiplier written as a parenthesised sum/difference (or a parenthesised number) in front of a
variable is part of the documented grammar (docs/polyhedral-term-syntax.md: number_and_variable =
(floating_point_number | paren_arith_expr) '*'? variable, "(2/3)x", "one can replace that constant with a
parenthesized arithmetic expression involving the four operations"), but the parser raises the syntax error for it,
while other spellings of the very same number are accepted.  The meaning must not depend on how a number is spelled."""
import sys
from fractions import Fraction as F
import z3
from pacti.terms.polyhedra.serializer import polyhedral_termlist_from_string as parse
from pacti.utils.errors import PolyhedralSyntaxException

x, y = z3.Real("x"), z3.Real("y")


def as_z3(terms):
    conj = []
    for t in terms:
        lhs = z3.RealVal(0)
        for v, c in t.variables.items():
            lhs = lhs + z3.RealVal(str(F(c))) * z3.Real(v.name)
        conj.append(lhs <= z3.RealVal(str(F(t.constant))))
    return z3.And(conj) if conj else z3.BoolVal(True)


def equivalent(p, q):
    s = z3.Solver()
    s.add(z3.Xor(p, q))
    return s.check() == z3.unsat


# (string, written relation under ordinary arithmetic)
cases = [
    # accepted spellings of "5x <= 1" (controls)
    ("5x <= 1", 5 * x <= 1),
    ("(2*1+3)x <= 1", 5 * x <= 1),
    ("(10/2)x <= 1", 5 * x <= 1),
    # the same number written as a sum / difference / bare parenthesised number
    ("(2+3)x <= 1", 5 * x <= 1),
    ("(2+3)*x <= 1", 5 * x <= 1),
    ("(6-1) x <= 1", 5 * x <= 1),
    ("(5)x <= 1", 5 * x <= 1),
    ("y + (2+3)x <= 1", y + 5 * x <= 1),
    ("(2+3)x = 1", 5 * x == 1),
    ("|(2+3)x| <= 1", z3.And(5 * x <= 1, -5 * x <= 1)),
    # with a parenthesised term list the sum is accepted at top level of <= ... but not in an equality or inside |...|
    ("(2+3)(x+1) <= 1", 5 * (x + 1) <= 1),
    ("(2+3)(x+1) = 1", 5 * (x + 1) == 1),
    ("|(2+3)(x+1)| <= 1", z3.And(5 * (x + 1) <= 1, -5 * (x + 1) <= 1)),
]

bad = 0
for s, written in cases:
    try:
        terms = parse(s)
    except PolyhedralSyntaxException as e:
        bad += 1
        print(f"VIOLATION  {s!r}: well-formed per the documented grammar, but rejected with the syntax error")
        continue
    ok = equivalent(as_z3(terms), written)
    print(f"{'ok       ' if ok else 'VIOLATION'}  {s!r} -> {terms}")
    bad += 0 if ok else 1

print(f"{bad} violation(s)")
sys.exit(1 if bad else 0)
