"""C10: a contract that is written to a file cannot always be read back: the file reader re-simplifies
unconditionally (no way to switch it off) and raises ValueError when guarantees and assumptions have no common point.
(a) a feasible contract, accepted by the constructor WITH simplification, whose printed 4-significant-digit form is
    empty: the human-readable file cannot be read back (the property promises the contract of the rounded constraints);
(b) a contract built with simplify=False whose guarantees contradict each other: neither file form can be read back."""
import os
import sys
import tempfile
from fractions import Fraction as F
import z3
from pacti.contracts import PolyhedralIoContract
from pacti.iocontract import Var
from pacti.terms.polyhedra import PolyhedralTerm, PolyhedralTermList
from pacti.utils.fileio import read_contracts_from_file, write_contracts_to_file


def as_z3(termlist, rounded):
    r = (lambda n: float(f"{n:.4g}")) if rounded else (lambda n: n)
    conj = []
    for t in termlist.terms:
        lhs = z3.RealVal(0)
        for v, c in t.variables.items():
            lhs = lhs + z3.RealVal(str(F(r(c)))) * z3.Real(v.name)
        conj.append(lhs <= z3.RealVal(str(F(r(t.constant)))))
    return z3.And(conj) if conj else z3.BoolVal(True)


def satisfiable(p):
    s = z3.Solver()
    s.add(p)
    return s.check() == z3.sat


tmp = tempfile.mkdtemp()
bad = 0

# (a) thin but non-empty triangle, all three guarantees irredundant; constructor simplifies without complaint
ca = PolyhedralIoContract.from_strings(
    input_vars=["i"], output_vars=["o1", "o2"], assumptions=["|i| <= 1"],
    guarantees=["1000 o1 <= 100049", "1000 o2 <= 100049", "1000 o1 + 1000 o2 >= 200097"],  # all points have |o1|,|o2| ~ 100
)
print("(a) contract:", ca.to_dict())
print("    original a & g satisfiable:", satisfiable(z3.And(as_z3(ca.a, False), as_z3(ca.g, False))),
      "| rounded to 4 digits satisfiable:", satisfiable(z3.And(as_z3(ca.a, True), as_z3(ca.g, True))))
fn = os.path.join(tmp, "a.json")
write_contracts_to_file([ca], ["a"], fn, machine_representation=False)
try:
    (back,), _ = read_contracts_from_file(fn)
    print("    read back:", back.to_dict())
except ValueError as e:
    bad += 1
    print("    VIOLATION: human-readable file written by the library cannot be read back: ValueError:",
          str(e).splitlines()[0], "...")

# (b) contradictory guarantees, simplify=False
i, o = Var("i"), Var("o")
cb = PolyhedralIoContract(
    assumptions=PolyhedralTermList([PolyhedralTerm({i: 1}, 1)]),
    guarantees=PolyhedralTermList([PolyhedralTerm({o: 1}, 2), PolyhedralTerm({o: -1}, -5)]),  # o <= 2, o >= 5
    input_vars=[i], output_vars=[o], simplify=False,
)
print("(b) contract:", cb.to_dict())
rt = PolyhedralIoContract.from_dict(cb.to_machine_dict(), simplify=False)
print("    machine dict round trip without simplification equal:", rt == cb)
for machine in (True, False):
    fn = os.path.join(tmp, f"b{int(machine)}.json")
    write_contracts_to_file([cb], ["b"], fn, machine_representation=machine)
    try:
        (back,), _ = read_contracts_from_file(fn)
        print("    read back:", back.to_dict())
    except ValueError as e:
        bad += 1
        print(f"    VIOLATION: {'machine' if machine else 'human-readable'} file written by the library cannot be read back:"
              " ValueError:", str(e).splitlines()[0], "...")

print(f"{bad} violation(s)")
sys.exit(1 if bad else 0)
