"""C05/C02 (interface wiring): quotient accepts a divisor that OUTPUTS a variable which is a top-level INPUT.

self  : inputs {v}, outputs {o}
other : inputs {},  outputs {v}        (v is in self.inputvars and in other.outputvars)

The obligation on a quotient q = self/other is  "other || q  refines  self".  In the composition other || q the
variable v is produced by `other`, so it can never be an input of the composition, whereas it is an input of
`self`: no contract q can meet the obligation and the wiring has to be rejected (as the symmetric wiring
"top-level output that is an input of the divisor" is, by can_quotient_by).  The library returns a contract.

The check below is semantic: it composes the returned quotient with the divisor and asks the library (and an
independent comparison of the interfaces) whether the obligation holds.
"""
import sys

from pacti.contracts import PolyhedralIoContract
from pacti.utils.errors import IncompatibleArgsError

top = PolyhedralIoContract.from_strings(
    input_vars=["v"], output_vars=["o"], assumptions=["v <= 1"], guarantees=["o <= v"]
)
divisor = PolyhedralIoContract.from_strings(input_vars=[], output_vars=["v"], assumptions=[], guarantees=["v <= 0.5"])

print("can_quotient_by:", top.can_quotient_by(divisor))
try:
    q = top.quotient(divisor)
except IncompatibleArgsError as e:
    print("quotient rejected the wiring (expected behaviour):", e)
    sys.exit(0)

print("quotient returned:\n%s\n" % q)
violated = False
for keep in ([], ["v"]):
    system = divisor.compose(q, vars_to_keep=keep)
    same_io = set(map(str, system.inputvars)) == set(map(str, top.inputvars)) and set(
        map(str, system.outputvars)
    ) == set(map(str, top.outputvars))
    print("divisor || quotient (keeping %s): inputs %s outputs %s ; top-level: inputs %s outputs %s" % (
        keep, [str(x) for x in system.inputvars], [str(x) for x in system.outputvars],
        [str(x) for x in top.inputvars], [str(x) for x in top.outputvars]))
    try:
        ok = system.refines(top)
    except IncompatibleArgsError as e:
        ok = False
        print("  system.refines(top) ->", type(e).__name__, e)
    print("  obligation 'divisor || quotient refines top' holds:", ok and same_io)
    if not (ok and same_io):
        violated = True
if violated:
    print("VIOLATION: a quotient was returned for a wiring in which no quotient can satisfy its obligation")
    sys.exit(1)
