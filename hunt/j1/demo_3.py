"""C10: 'every string the printer emits is accepted by the parser' fails for variable names outside the grammar.

Var accepts any string as a name, every other operation of the library (machine dictionary, machine file, algebra)
works with such names, but to_dict()/to_str_list() print the name verbatim and the parser only reads
[A-Za-z][A-Za-z0-9_]* -- so the human-readable form of the contract cannot be read back.  This includes the name '_'
(and any name starting with an underscore), and names such as 'x.out' or 'x[1]'.
"""
import os
import sys
import tempfile

from pacti.contracts import PolyhedralIoContract
from pacti.iocontract import Var
from pacti.terms.polyhedra import PolyhedralTerm, PolyhedralTermList
from pacti.utils.errors import PolyhedralSyntaxException
from pacti.utils.fileio import read_contracts_from_file, write_contracts_to_file

bad = 0
with tempfile.TemporaryDirectory() as td:
    for name in ["_", "_tmp", "x.out", "x[1]"]:
        i, o = Var(name), Var("y")
        c = PolyhedralIoContract(
            PolyhedralTermList([PolyhedralTerm({i: 2}, 3)]),
            PolyhedralTermList([PolyhedralTerm({i: 1, o: -1}, 0)]),
            [i],
            [o],
        )
        # the machine forms work: the name is legal for the library
        assert PolyhedralIoContract.from_dict(c.to_machine_dict(), simplify=False) == c
        fn = os.path.join(td, "m.json")
        write_contracts_to_file([c], ["c"], fn, machine_representation=True)
        assert read_contracts_from_file(fn)[0][0] == c
        # the human-readable forms do not
        d = c.to_dict()
        try:
            back = PolyhedralIoContract.from_strings(**d)
            same = back.inputvars == c.inputvars and back.outputvars == c.outputvars and back.a == c.a and back.g == c.g
            print(f"{name!r:8} printed {d['assumptions'] + d['guarantees']} read back, equal={same}")
            bad += 0 if same else 1
        except PolyhedralSyntaxException:
            print(f"{name!r:8} printed {d['assumptions'] + d['guarantees']} -> parser raises PolyhedralSyntaxException")
            bad += 1
        fn = os.path.join(td, "h.json")
        write_contracts_to_file([c], ["c"], fn, machine_representation=False)
        try:
            read_contracts_from_file(fn)
        except PolyhedralSyntaxException:
            print(f"{'':8} the human-readable file written by the library cannot be read back either")

if bad:
    print(f"PROPERTY C10 VIOLATED: {bad} contracts whose printed constraints the parser rejects")
    sys.exit(1)
print("ok")
