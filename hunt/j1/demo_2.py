"""C09: a linear (convex) relation whose absolute value has a constant argument is rejected with the convexity error.

The documentation of the grammar lists |1+2| (an absolute value of a constant) as a legal abs_term, and the parser does
translate it on the small side of a relation ('|3| <= x').  On the large side ('x <= |3|', '-|3| <= x', 'x + 2 <= 2|1 - 4|')
the relation is the plain linear constraint x <= 3 etc., it does not use the absolute value non-convexly, yet
polyhedral_termlist_from_string raises PolyhedralSyntaxConvexException instead of translating it.
"""
import sys

import z3

from pacti.terms.polyhedra.serializer import polyhedral_termlist_from_string
from pacti.utils.errors import PolyhedralSyntaxConvexException

x = z3.Real("x")


def zabs(e):
    return z3.If(e >= 0, e, -e)


# string, its meaning under ordinary arithmetic
cases = [
    ("|3| <= x", zabs(z3.RealVal(3)) <= x),
    ("x <= |3|", x <= zabs(z3.RealVal(3))),
    ("-|3| <= x", -zabs(z3.RealVal(3)) <= x),
    ("x + 2 <= 2|1 - 4|", x + 2 <= 2 * zabs(z3.RealVal(1) - 4)),
    ("|x| <= |3|", zabs(x) <= zabs(z3.RealVal(3))),
]


def convex(f):
    a, b = z3.Reals("a b")
    s = z3.Solver()
    s.add(z3.substitute(f, (x, a)), z3.substitute(f, (x, b)), z3.Not(z3.substitute(f, (x, (a + b) / 2))))
    return s.check() == z3.unsat


def terms_formula(terms):
    conj = []
    for t in terms:
        lhs = z3.Sum([z3.RealVal(str(c)) * z3.Real(v.name) for v, c in t.variables.items()]) if t.variables else z3.RealVal(0)
        conj.append(lhs <= z3.RealVal(str(t.constant)))
    return z3.And(conj)


bad = 0
for s, f in cases:
    is_convex = convex(f)
    try:
        terms = polyhedral_termlist_from_string(s)
        sol = z3.Solver()
        sol.add(z3.Xor(f, terms_formula(terms)))
        same = sol.check() == z3.unsat
        print(f"{s!r:22} convex={is_convex}  parsed {terms}  same meaning={same}")
        if not same:
            bad += 1
    except PolyhedralSyntaxConvexException as e:
        print(f"{s!r:22} convex={is_convex}  REJECTED with the convexity error")
        if is_convex:
            bad += 1

if bad:
    print(f"PROPERTY C09 VIOLATED: {bad} convex (linear) relations of the documented grammar rejected as non-convex")
    sys.exit(1)
print("ok")
