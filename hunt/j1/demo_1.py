"""C10: a satisfiable contract, written to a file by the library, cannot be read back (both file representations).

The file reader re-simplifies the guarantees.  The redundancy LPs of reduce_polytope (and the emptiness LP) are solved
with feasibility tolerances 1e-10 (polyhedra.py, LP_OPTIONS).  HiGHS cannot meet an absolute 1e-10 on a row whose value
is ~7e5 (that is below one ulp), answers 'infeasible', and the reader raises ValueError("... are unsatisfiable").
All numbers are within [1e-4, 1e6].
"""
import os
import sys
import tempfile
from fractions import Fraction

from pacti.contracts import PolyhedralIoContract
from pacti.iocontract import Var
from pacti.terms.polyhedra import PolyhedralTerm, PolyhedralTermList
from pacti.utils.fileio import read_contracts_from_file, write_contracts_to_file

a, b = Var("a"), Var("b")
# |b| <= 1   and   900000 a + 4000 b = -700000
g = PolyhedralTermList(
    [
        PolyhedralTerm({b: -1}, 1),
        PolyhedralTerm({b: 1}, 1),
        PolyhedralTerm({a: -900000, b: -4000}, 700000),
        PolyhedralTerm({a: 900000, b: 4000}, -700000),
    ]
)
c = PolyhedralIoContract(PolyhedralTermList([]), g, [a], [b], simplify=False)
print(c)

# exact witness: a = -7/9, b = 0 satisfies every guarantee (checked in rational arithmetic)
point = {a: Fraction(-7, 9), b: Fraction(0)}
for t in c.g.terms:
    lhs = sum(Fraction(coef) * point[v] for v, coef in t.variables.items())
    assert lhs <= Fraction(t.constant), t
print("exact witness a=-7/9, b=0 satisfies all guarantees: the contract is satisfiable")

# the dictionary round trip without re-simplification is fine
assert PolyhedralIoContract.from_dict(c.to_machine_dict(), simplify=False) == c

violated = False
with tempfile.TemporaryDirectory() as td:
    for machine in (True, False):
        kind = "machine" if machine else "human-readable"
        fn = os.path.join(td, "c.json")
        write_contracts_to_file([c], ["c"], fn, machine_representation=machine)
        try:
            (back,), names = read_contracts_from_file(fn)
            print(kind, "file read back:", back.to_dict())
        except ValueError as e:
            violated = True
            print(kind, "file: read_contracts_from_file raised ValueError:", str(e).replace("\n", " ")[:140])

if violated:
    print("PROPERTY C10 VIOLATED: a satisfiable contract written by the library cannot be read back")
    sys.exit(1)
print("ok")
