"""C07: simplify (and the contract constructor) raise ValueError for a FEASIBLE system.

L = { -7x <= 21,  10000x + 10y <= -30020,  -10000x - 10000y <= 50000,  y <= 0 }

(x, y) = (-3, -2) satisfies every row (the first three with equality), so L is feasible.  In reduce_polytope the LP for the
first row (HiGHS with presolve and the tolerances 1e-10 of LP_OPTIONS) comes back with status 2 "infeasible", and the
library raises ValueError("The constraints ... are unsatisfiable").  The same happens when a contract with assumption
-7x <= 21 and the other three rows as guarantees is built.
"""
import sys
from fractions import Fraction

import z3

from pacti.contracts import PolyhedralIoContract
from pacti.iocontract import Var
from pacti.terms.polyhedra import PolyhedralTerm, PolyhedralTermList


def tl(rows):
    return PolyhedralTermList([PolyhedralTerm({Var(k): v for k, v in co.items()}, c) for co, c in rows])


rows = [({"x": -7}, 21), ({"x": 10000, "y": 10}, -30020), ({"x": -10000, "y": -10000}, 50000), ({"y": 1}, 0)]
L = tl(rows)


def zlhs(t):
    return z3.Sum([z3.Q(*Fraction(float(a)).as_integer_ratio()) * z3.Real(v.name) for v, a in t.variables.items()])


def zc(x):
    return z3.Q(*Fraction(float(x)).as_integer_ratio())


s = z3.Solver()
s.add([zlhs(t) <= zc(t.constant) for t in L.terms])
s.add([z3.And(z3.Real(n) <= 1000, z3.Real(n) >= -1000) for n in "xy"])
feasible = s.check() == z3.sat
print("L =", L)
print("exact: L feasible inside the box:", feasible, s.model() if feasible else "")
print("library: L.contains_behavior({x:-3, y:-2}) ->", L.contains_behavior({Var("x"): -3, Var("y"): -2}))

violations = 0
try:
    res = L.simplify()
    print("library: L.simplify() ->", res)
except ValueError as e:
    print("library: L.simplify() raised ValueError:", " ".join(str(e).split())[:110], "...")
    if feasible:
        violations += 1

try:
    res = tl(rows[1:]).simplify(tl(rows[:1]))
    print("library: rows[1:].simplify(context=[-7x <= 21]) ->", res)
except ValueError as e:
    print("library: rows[1:].simplify(context=[-7x <= 21]) raised ValueError")
    if feasible:
        violations += 1

try:
    c = PolyhedralIoContract.from_strings(
        input_vars=["x"],
        output_vars=["y"],
        assumptions=["-7x <= 21"],
        guarantees=["10000x + 10y <= -30020", "-10000x - 10000y <= 50000", "y <= 0"],
    )
    print("library: contract built:", c)
except ValueError as e:
    print("library: PolyhedralIoContract.from_strings(...) raised ValueError")
    if feasible:
        violations += 1

if violations:
    print("VIOLATION of C07: ValueError raised for a feasible system")
    sys.exit(1)
print("ok")
