"""C07 / C03: HiGHS answers "unbounded" (status 3) for a bounded LP and the library reads that as "not redundant" /
"not contained".

L  = { -5000x + 2y - 1000z <= 0,   -7x - 5000y <= 0 }                      (small integer data, feasible: the origin)
L+ = L  +  { -5000x + 2y - 1000z <= 0.5 }                                  (a weakened copy of the first row)

C07: L+.simplify() returns all three rows although the third is implied by the first with a margin of 0.5
     (tolerance 1e-4 * (1 + 0.5)).
C03: L.refines(L) is False, L.refines([first row of L]) is False, L.refines([weakened copy]) is False.

In each case the LP is  max a.x  s.t. ...,  a.x <= b + 1  (the tested row relaxed by 1 is among the constraints, so the LP is
bounded); with the options LP_OPTIONS (feasibility tolerances 1e-10) and presolve HiGHS returns status 3 "unbounded".
"""
import sys
from fractions import Fraction

import z3

from pacti.iocontract import Var
from pacti.terms.polyhedra import PolyhedralTerm, PolyhedralTermList


def tl(rows):
    return PolyhedralTermList([PolyhedralTerm({Var(k): v for k, v in co.items()}, c) for co, c in rows])


r1 = ({"x": -5000, "y": 2, "z": -1000}, 0)
r2 = ({"x": -7, "y": -5000}, 0)
r1w = ({"x": -5000, "y": 2, "z": -1000}, 0.5)
L = tl([r1, r2])
Lplus = tl([r1, r2, r1w])


def zlhs(t):
    return z3.Sum([z3.Q(*Fraction(float(a)).as_integer_ratio()) * z3.Real(v.name) for v, a in t.variables.items()])


def zc(x):
    return z3.Q(*Fraction(float(x)).as_integer_ratio())


def implied_with_margin(hyp, t, margin):
    """hyp => lhs(t) <= c - margin  (exactly)."""
    s = z3.Solver()
    s.add([zlhs(u) <= zc(u.constant) for u in hyp])
    s.add(zlhs(t) > zc(t.constant) - zc(margin))
    return s.check() == z3.unsat


def contained(left, right):
    return all(implied_with_margin(left.terms, t, 0) for t in right.terms)


violations = 0

# ---- C07
res = Lplus.simplify()
print("L+ =", Lplus)
print("library: L+.simplify() ->", res)
for i, t in enumerate(res.terms):
    rest = [u for j, u in enumerate(res.terms) if j != i]
    tol = 1e-4 * (1 + abs(t.constant))
    if implied_with_margin(rest, t, tol):
        print("exact: the remaining row  %s  is implied by the other remaining rows with a margin above %g" % (t, tol))
        violations += 1

# ---- C03
print("exact: L contained in L:", contained(L, L))
for name, right in (("L", L), ("[first row of L]", tl([r1])), ("[first row weakened by 0.5]", tl([r1w]))):
    got = L.refines(right)
    print("library: L.refines(%s) -> %s" % (name, got))
    if contained(L, right) and not got:
        violations += 1

if violations:
    print("VIOLATION of C07 (a redundant constraint is left) and C03 (a satisfiable list does not refine itself)")
    sys.exit(1)
print("ok")
