"""C03: a satisfiable constraint list (small integer data) does not refine itself; a contract does not refine itself.

L = { 1000x + w + 10y <= 1,  -z <= -10,  1000y - 10w <= -10,  1000z - x <= 0 }

Every list refines itself (exactly: each right-hand row IS a left-hand row).  The library answers False because the
LP optimum for the row `1000y - 10w <= -10` is returned as -9.9999999 (1.04e-7 above the bound, the LP vertex lies at
w = -9.09e6) and the comparison uses the absolute tolerance 5e-8.
"""
import sys
from fractions import Fraction

import z3

from pacti.contracts import PolyhedralIoContract
from pacti.iocontract import Var
from pacti.terms.polyhedra import PolyhedralTerm, PolyhedralTermList

rows = [
    ({"x": 1000, "w": 1, "y": 10}, 1),
    ({"z": -1}, -10),
    ({"y": 1000, "w": -10}, -10),
    ({"z": 1000, "x": -1}, 0),
]
L = PolyhedralTermList([PolyhedralTerm({Var(k): v for k, v in co.items()}, c) for co, c in rows])


# ---------- exact oracle (z3 over the rationals; floats are taken as the rationals they denote)
def zlhs(t):
    return z3.Sum([z3.Q(*Fraction(float(a)).as_integer_ratio()) * z3.Real(v.name) for v, a in t.variables.items()])


def zholds(t):
    return zlhs(t) <= z3.Q(*Fraction(float(t.constant)).as_integer_ratio())


def contained(left, right):
    for t in right.terms:
        s = z3.Solver()
        s.add([zholds(u) for u in left.terms])
        s.add(z3.Not(zholds(t)))
        if s.check() != z3.unsat:
            return False
    return True


s = z3.Solver()
s.add([zholds(u) for u in L.terms])
satisfiable = s.check() == z3.sat
print("L =", L)
print("L satisfiable (exact):", satisfiable)
print("L contained in L (exact):", contained(L, L))

violations = 0
got = L.refines(L)
print("library  L.refines(L)          ->", got)
if satisfiable and not got:
    violations += 1

sub = PolyhedralTermList([L.terms[2].copy()])
got_sub = L.refines(sub)
print("library  L.refines([row 3 of L]) ->", got_sub, "   (a sub-list of L)")
if not got_sub:
    violations += 1

c = PolyhedralIoContract.from_strings(
    input_vars=["x", "y"],
    output_vars=["z", "w"],
    assumptions=[],
    guarantees=["1000x + w + 10y <= 1", "-z <= -10", "1000y - 10w <= -10", "1000z - x <= 0"],
)
got_c = c.refines(c)
print("library  c.refines(c)          ->", got_c)
if not got_c:
    violations += 1
got_impl = c.contains_implementation(c.g)
print("library  c.contains_implementation(c.g) ->", got_impl)
if not got_impl:
    violations += 1

if violations:
    print("VIOLATION of C03: a satisfiable list / contract must refine itself and any sub-list of itself")
    sys.exit(1)
print("ok")
