"""C08: merging two contracts whose conjunction is satisfiable raises ValueError instead of returning the merged contract.

c1:  inputs [x], outputs [y],  A: -7x <= 21          G: 10000x + 10y <= -30020
c2:  inputs [x], outputs [y],  A: true               G: -10000x - 10000y <= 50000,  y <= 0

The behaviour (x, y) = (-3, -2) satisfies both assumptions and both guarantees, so the merge is the contract
(A1 and A2, G1 and G2) and it allows that behaviour.  c1.merge(c2) and c2.merge(c1) raise ValueError("... unsatisfiable ...")
because the constructor simplifies the guarantees in the context of the assumptions and the first LP of reduce_polytope
comes back "infeasible" (status 2; HiGHS with presolve and the tolerances 1e-10 of LP_OPTIONS).
"""
import sys
from fractions import Fraction

import z3

from pacti.contracts import PolyhedralIoContract
from pacti.iocontract import Var

c1 = PolyhedralIoContract.from_strings(
    input_vars=["x"], output_vars=["y"], assumptions=["-7x <= 21"], guarantees=["10000x + 10y <= -30020"]
)
c2 = PolyhedralIoContract.from_strings(
    input_vars=["x"], output_vars=["y"], assumptions=[], guarantees=["-10000x - 10000y <= 50000", "y <= 0"]
)
print("c1:", c1)
print("c2:", c2)


def zlhs(t):
    return z3.Sum([z3.Q(*Fraction(float(a)).as_integer_ratio()) * z3.Real(v.name) for v, a in t.variables.items()])


def zc(x):
    return z3.Q(*Fraction(float(x)).as_integer_ratio())


s = z3.Solver()
for tl in (c1.a, c1.g, c2.a, c2.g):
    s.add([zlhs(t) <= zc(t.constant) for t in tl.terms])
s.add([z3.And(z3.Real(n) <= 1000, z3.Real(n) >= -1000) for n in "xy"])
feasible = s.check() == z3.sat
print("exact: A1 and A2 and G1 and G2 satisfiable inside the box:", feasible, s.model() if feasible else "")
beh = {Var("x"): -3, Var("y"): -2}
print(
    "library: the behaviour x=-3, y=-2 is accepted by  c1.a, c1.g, c2.a, c2.g:",
    [tl.contains_behavior(beh) for tl in (c1.a, c1.g, c2.a, c2.g)],
)

violations = 0
for name, left, right in (("c1.merge(c2)", c1, c2), ("c2.merge(c1)", c2, c1)):
    try:
        m = left.merge(right)
        print("library:", name, "->", m)
    except ValueError as e:
        print("library:", name, "raised ValueError:", " ".join(str(e).split())[:90], "...")
        if feasible:
            violations += 1

if violations:
    print("VIOLATION of C08 (and C07): merging fails although both viewpoints are jointly satisfiable")
    sys.exit(1)
print("ok")
