"""C03: a feasible left side is taken for infeasible, so it "refines" a right side that it plainly violates.

L = { -7x <= 28,  -929x + 1000y <= -284,  492x - y <= -1964 }      (small integer data)

The three boundary lines meet in (x, y) = (-4, -4) and that point is the whole of L: L is feasible (a thin region, exactly
one point).  The LP behind is_polytope_empty (zero objective, HiGHS with presolve and the feasibility tolerances 1e-10 of
LP_OPTIONS) answers "infeasible" (status 2), so
    L.is_empty()                      -> True     (should be False)
    L.refines([x <= -104])            -> True     (should be False: (-4,-4) is in L and violates x <= -104 by 100)
    c1.refines(c2), c2.contains_implementation(L) -> True  (should be False)
"""
import sys
from fractions import Fraction

import z3

from pacti.contracts import PolyhedralIoContract
from pacti.iocontract import Var
from pacti.terms.polyhedra import PolyhedralTerm, PolyhedralTermList


def tl(rows):
    return PolyhedralTermList([PolyhedralTerm({Var(k): v for k, v in co.items()}, c) for co, c in rows])


L = tl([({"x": -7}, 28), ({"x": -929, "y": 1000}, -284), ({"x": 492, "y": -1}, -1964)])
R = tl([({"x": 1}, -104)])


# ---------- exact oracle (z3 over the rationals)
def zlhs(t):
    return z3.Sum([z3.Q(*Fraction(float(a)).as_integer_ratio()) * z3.Real(v.name) for v, a in t.variables.items()])


def zc(x):
    return z3.Q(*Fraction(float(x)).as_integer_ratio())


s = z3.Solver()
s.add([zlhs(t) <= zc(t.constant) for t in L.terms])
s.add([z3.And(z3.Real(n) <= 1000, z3.Real(n) >= -1000) for n in "xy"])
# a point of L (inside the box |v| <= 1000) that breaks the right-hand row by more than 1e-4 * (1 + |constant|)
r = R.terms[0]
s.add(zlhs(r) > zc(r.constant) + zc(1e-4 * (1 + abs(r.constant))))
witness = s.check() == z3.sat
print("L =", L)
print("exact: a point of L violates  x <= -104  by more than the tolerance:", witness, s.model() if witness else "")
print("library: L.contains_behavior({x:-4, y:-4}) ->", L.contains_behavior({Var("x"): -4, Var("y"): -4}))

violations = 0
got_empty = L.is_empty()
print("library: L.is_empty()           ->", got_empty)
if witness and got_empty:
    violations += 1
got = L.refines(R)
print("library: L.refines([x <= -104]) ->", got)
if witness and got:
    violations += 1

c1 = PolyhedralIoContract.from_strings(
    input_vars=["x"], output_vars=["y"], assumptions=[], guarantees=["-7x <= 28", "-929x + 1000y <= -284", "492x - y <= -1964"]
)
c2 = PolyhedralIoContract.from_strings(input_vars=["x"], output_vars=["y"], assumptions=[], guarantees=["x <= -104"])
got_c = c1.refines(c2)
print("library: c1.refines(c2)         ->", got_c, "  (c1 guarantees L, c2 guarantees x <= -104)")
if witness and got_c:
    violations += 1
got_i = c2.contains_implementation(L)
print("library: c2.contains_implementation(L) ->", got_i)
if witness and got_i:
    violations += 1

if violations:
    print("VIOLATION of C03: refinement answered True although a point of the left side violates the right side")
    sys.exit(1)
print("ok")
