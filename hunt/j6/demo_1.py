"""C19 (and C14): compound contracts and their nested term lists define __eq__ but no __hash__.

Python then sets __hash__ to None: two compound contracts that compare equal cannot be hashed at all, so
"equal objects have equal hashes" cannot hold, and putting a compound contract (or its assumptions) in a set or
using it as a dict key escapes with TypeError.  The plain IoContract, TermList, Term and Var all define both.
"""
import sys

from pacti.contracts import PolyhedralIoContract, PolyhedralIoContractCompound


def build():
    return PolyhedralIoContractCompound.from_strings(
        assumptions=[["x <= 1"], ["x >= 2"]],
        guarantees=[["y <= 1"], ["y >= 5"]],
        input_vars=["x"],
        output_vars=["y"],
    )


violations = []
c1 = build()
c2 = build()
print("c1 == c2:", c1 == c2)

# reference: the simple contract with the same data is hashable and coherent
p1 = PolyhedralIoContract.from_strings(assumptions=["x <= 1"], guarantees=["y <= 1"], input_vars=["x"], output_vars=["y"])
p2 = p1.copy()
print("simple contract: equal", p1 == p2, "hash equal", hash(p1) == hash(p2), "set size", len({p1, p2}))

for label, left, right in (
    ("compound contract", c1, c2),
    ("nested assumptions", c1.a, c2.a),
    ("nested guarantees", c1.g, c2.g),
):
    assert left == right
    try:
        same = hash(left) == hash(right)
        print(label, ": equal objects, hashes equal:", same)
        if not same:
            violations.append(label + ": equal objects hash differently")
    except Exception as e:  # noqa
        print(label, ": hash() raised", type(e).__name__, "-", e)
        violations.append("%s: hash raised %s" % (label, type(e).__name__))
    try:
        print(label, ": set size", len({left, right}))
    except Exception as e:  # noqa
        print(label, ": building a set raised", type(e).__name__, "-", e)
    try:
        print(label, ": dict lookup", {left: "v"}[right])
    except Exception as e:  # noqa
        print(label, ": use as dict key raised", type(e).__name__, "-", e)

if violations:
    print("VIOLATION:", violations)
    sys.exit(1)
print("ok")
