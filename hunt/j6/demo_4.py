"""C14: interface problems of compound contracts are not reported with IncompatibleArgsError.

For IoContract / PolyhedralIoContract every interface problem (repeated variable, variable both input and output,
assumption over a non-input, guarantee over a variable outside the interface, merge producing such an interface) raises
IncompatibleArgsError.  The same problems on IoContractCompound / PolyhedralIoContractCompound raise a bare ValueError,
so a caller that handles the documented interface error (`except IncompatibleArgsError`) does not catch them.
"""
import sys

from pacti.contracts import PolyhedralIoContract, PolyhedralIoContractCompound
from pacti.utils.errors import IncompatibleArgsError


def simple(a, g, i, o):
    return PolyhedralIoContract.from_strings(assumptions=a, guarantees=g, input_vars=i, output_vars=o)


def compound(a, g, i, o):
    return PolyhedralIoContractCompound.from_strings(assumptions=[a], guarantees=[g], input_vars=i, output_vars=o)


cases = {
    "repeated input": (["x <= 1"], ["y <= 1"], ["x", "x"], ["y"]),
    "repeated output": (["x <= 1"], ["y <= 1"], ["x"], ["y", "y"]),
    "input that is also an output": (["x <= 1"], ["y <= 1"], ["x", "y"], ["y"]),
    "assumption over a non-input": (["y <= 1"], ["y <= 1"], ["x"], ["y"]),
    "guarantee outside the interface": (["x <= 1"], ["z <= 1"], ["x"], ["y"]),
}
violations = []


def classify(f):
    try:
        f()
        return "accepted"
    except IncompatibleArgsError:
        return "IncompatibleArgsError"
    except Exception as e:  # noqa
        return type(e).__name__


for label, args in cases.items():
    s = classify(lambda: simple(*args))
    c = classify(lambda: compound(*args))
    print("%-34s simple contract: %-22s compound contract: %s" % (label, s, c))
    if c != "IncompatibleArgsError":
        violations.append(label)

# merge that would make x and y both input and output
s1, s2 = simple(["x <= 1"], ["y <= 1"], ["x"], ["y"]), simple(["y <= 1"], ["x <= 1"], ["y"], ["x"])
c1, c2 = compound(["x <= 1"], ["y <= 1"], ["x"], ["y"]), compound(["y <= 1"], ["x <= 1"], ["y"], ["x"])
s = classify(lambda: s1.merge(s2))
c = classify(lambda: c1.merge(c2))
print("%-34s simple contract: %-22s compound contract: %s" % ("merge with swapped interface", s, c))
if c != "IncompatibleArgsError":
    violations.append("merge")

if violations:
    print("VIOLATION: interface problems not reported with IncompatibleArgsError:", violations)
    sys.exit(1)
print("ok")
