"""C14: PolyhedralTerm.to_symbolic / to_term fail with AttributeError on a constraint without variables.

Constraints whose coefficients cancel (0 <= c) are legal terms (the parser produces them, renaming produces them, the
term lists print, simplify, refine and optimise them).  to_symbolic() however returns a plain Python float for such a
term instead of a sympy expression, and to_term() of that value escapes with AttributeError - not one of the
documented errors.  For every term with a variable, to_term(to_symbolic(t)) == t.
"""
import sys

from pacti.iocontract import Var
from pacti.terms.polyhedra import PolyhedralTerm
from pacti.terms.polyhedra.serializer import polyhedral_termlist_from_string

violations = []
x, y = Var("x"), Var("y")
legal_terms = [
    PolyhedralTerm({x: 1, y: 2}, 3),  # reference: works
    polyhedral_termlist_from_string("x - x <= 1")[0],  # what the parser returns for cancelling coefficients
    PolyhedralTerm({x: 1, y: -1}, 2).rename_variable(x, y),  # what renaming returns when coefficients cancel
    PolyhedralTerm({x: 1}, 5).multiply(0),
]
for t in legal_terms:
    try:
        sym = PolyhedralTerm.to_symbolic(t)
        back = PolyhedralTerm.to_term(sym)
        ok = back == t
        print("term %-22r to_symbolic -> %r (%s); to_term(to_symbolic(t)) == t: %s" % (t, sym, type(sym).__name__, ok))
        if not ok:
            violations.append("round trip differs for %r" % t)
    except Exception as e:  # noqa
        print("term %-22r to_symbolic -> %r (%s); to_term raised %s: %s" % (t, sym, type(sym).__name__, type(e).__name__, e))
        if not isinstance(e, ValueError):
            violations.append("%s escaped for %r" % (type(e).__name__, t))

if violations:
    print("VIOLATION:", violations)
    sys.exit(1)
print("ok")
