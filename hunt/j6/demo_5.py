"""C14: PolyhedralTermList.verify_polytope_containment fails an assert when an optional argument is left out.

All four arguments are declared Optional with default None, and the function replaces a missing matrix / vector by an
empty one ("no constraints").  The replacement matrix np.array([[]]) has shape (1, 0), so the shape asserts that follow
(`assert m_l == m_r`, `assert n_l == len(b_l)`, polyhedra.py lines 1154-1156) fail: AssertionError escapes instead of
an answer (every polytope is contained in the unconstrained one; the unconstrained one is contained in itself) or a
documented error.  reduce_polytope() handles its own omitted context correctly, and the term-list level `refines`
answers these questions without trouble.
"""
import sys

import numpy as np

from pacti.iocontract import Var
from pacti.terms.polyhedra import PolyhedralTerm, PolyhedralTermList

violations = []
x = Var("x")
unit = PolyhedralTermList([PolyhedralTerm({x: 1}, 1), PolyhedralTerm({x: -1}, 0)])  # 0 <= x <= 1
nothing = PolyhedralTermList([])
print("term-list level: unit.refines(no constraints) =", unit.refines(nothing), "; no constraints refines itself =", nothing.refines(nothing))

a = np.array([[1.0], [-1.0]])
b = np.array([1.0, 0.0])
calls = {
    "right-hand side omitted": lambda: PolyhedralTermList.verify_polytope_containment(a_l=a, b_l=b),
    "left-hand side omitted": lambda: PolyhedralTermList.verify_polytope_containment(a_r=a, b_r=b),
    "everything omitted": lambda: PolyhedralTermList.verify_polytope_containment(),
}
for label, call in calls.items():
    try:
        print(label, "->", call())
    except ValueError as e:
        print(label, "-> documented error", type(e).__name__, e)
    except Exception as e:  # noqa
        print(label, "-> escaped", type(e).__name__, repr(e))
        violations.append(label)

if violations:
    print("VIOLATION:", violations)
    sys.exit(1)
print("ok")
