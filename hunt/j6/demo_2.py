"""C19 (round trip): a contract built with the default simplification from small dyadic data is not equal to the contract
read back from its own machine dictionary, nor to the contract rebuilt from its own fields.

reduce_polytope() decides "row i is redundant" with an exact comparison `-res["fun"] <= b_temp[i]` of the LP optimum
(polyhedra.py line 1101).  For the guarantee 4a + 8x <= -4 the LP over the other rows (which contain the same
half-plane written as 2a + 4x <= -2) returns -3.9999999999999996 instead of -4, so the row is kept; the scaled copy is
then tested against it, the LP returns -1.9999999999999998 > -2, and it is kept too.  Simplifying the result once more
(what from_dict / the constructor / merge do) sees the rows in another constellation and removes one of them, so the
simplification is not idempotent and the round trip changes the contract.
"""
import sys
from fractions import Fraction

from pacti.contracts import PolyhedralIoContract
from pacti.iocontract import Var
from pacti.terms.polyhedra import PolyhedralTerm, PolyhedralTermList

a, b, x = Var("a"), Var("b"), Var("x")
g0 = PolyhedralTermList(
    [
        PolyhedralTerm({a: 2, x: 0.25, b: -1}, 4),
        PolyhedralTerm({x: -0.25, b: -2}, 0.5),
        PolyhedralTerm({a: 4, x: 8}, -4),
        PolyhedralTerm({a: -0.25, b: 4, x: -0.25}, 1),
        PolyhedralTerm({a: 0.25}, 4),
        PolyhedralTerm({a: 2, x: 4}, -2),
        PolyhedralTerm({a: 8, x: 0.25, b: 8}, 0),
    ]
)
c = PolyhedralIoContract(PolyhedralTermList([]), g0, [a, b], [x])  # default simplification
print("contract built with the default simplification:")
print(c)


def scaled_copies(terms):
    """Pairs (i, j) of terms that are the same half-plane: one is a positive multiple of the other (exact arithmetic)."""
    pairs = []
    for i, s in enumerate(terms):
        for j, t in enumerate(terms):
            if i < j and s.variables.keys() == t.variables.keys():
                k = next(iter(s.variables))
                ratio = Fraction(t.variables[k]) / Fraction(s.variables[k])
                same = ratio > 0 and all(Fraction(t.variables[v]) == ratio * Fraction(s.variables[v]) for v in s.variables)
                if same and Fraction(t.constant) == ratio * Fraction(s.constant):
                    pairs.append((i, j))
    return pairs


dups = scaled_copies(c.g.terms)
print("pairs of guarantees that are exact positive multiples of each other (redundant):", dups)

violations = []
round_trip = PolyhedralIoContract.from_dict(c.to_machine_dict())
rebuilt = PolyhedralIoContract(c.a, c.g, c.inputvars, c.outputvars)
merged = c.merge(c)
for label, other in (("from_dict(to_machine_dict(c))", round_trip), ("constructor on c's own fields", rebuilt), ("c.merge(c)", merged)):
    equal = other == c
    print("%s == c: %s   (guarantees: %d vs %d terms, hash equal: %s)" % (label, equal, len(other.g.terms), len(c.g.terms), hash(other) == hash(c)))
    if not equal:
        violations.append(label)

if dups:
    violations.append("default simplification keeps a scaled duplicate")
if violations:
    print("VIOLATION:", violations)
    sys.exit(1)
print("ok")
