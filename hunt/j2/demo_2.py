"""C17: two half-planes that share their whole boundary line are taken for disjoint; an equality is taken for empty.

A1: -569x - 204y <= 529890   (i.e. 569x + 204y >= -529890)
A2:  569x + 204y <= -529890
They share the line 569x + 204y = -529890, e.g. p = (-714, -606), inside the box |v| <= 1000.  All numbers are integers
(exact in floating point); coefficients < 1000, constant 5.3e5 (far below 2**53, row scaling within one order).
The library's emptiness test calls A1 & A2 (the equality 569x + 204y = -529890 as a pair of opposite terms) empty, so
  1. [A1, A2] is accepted as a list of disjoint assumption alternatives (no ValueError);
  2. merging a contract over A1 with a contract over A2 returns no alternative at all, although p is in both;
  3. [A1 and A2] <= [x <= -1000.5] answers True, although p (x = -714) is in the left set only.
The answer depends on the order of the two terms: (A2 | A1), the order the parser produces for the equality, is judged
non-empty.
"""
import sys
from fractions import Fraction as F

from pacti.contracts import PolyhedralIoContractCompound
from pacti.contracts.polyhedral_iocontract import NestedPolyhedra
from pacti.iocontract import Var
from pacti.terms.polyhedra.polyhedra import PolyhedralTermList as TL
from pacti.terms.polyhedra.serializer import polyhedral_termlist_from_string

x, y = Var("x"), Var("y")
A1 = ["-569x - 204y <= 529890"]
A2 = ["569x + 204y <= -529890"]
p = {x: -714, y: -606}
violations = []


def exact_in(termlist, point):
    return all(sum(F(c) * F(point[v]) for v, c in t.variables.items()) <= F(t.constant) for t in termlist.terms)


c1 = PolyhedralIoContractCompound.from_strings([A1], [A1], ["x", "y"], [])
c2 = PolyhedralIoContractCompound.from_strings([A2], [A2], ["x", "y"], [])
tl1, tl2 = c1.a.nested_termlist[0], c2.a.nested_termlist[0]
print("A1 =", [str(t) for t in tl1.terms], " A2 =", [str(t) for t in tl2.terms])
print("exact: p = (-714, -606) in A1:", exact_in(tl1, p), " in A2:", exact_in(tl2, p))
assert exact_in(tl1, p) and exact_in(tl2, p)
eq = tl1 | tl2  # the line, written as the pair of opposite terms (A1's term first)
qe = tl2 | tl1  # the same pair in the order the parser gives for "569x + 204y = -529890"
assert qe.terms == polyhedral_termlist_from_string("569x + 204y = -529890")
print("library: (A1 | A2).is_empty() =", eq.is_empty(), " contains_behavior(p) =", eq.contains_behavior(p),
      " -- the same two terms in the other order: is_empty() =", qe.is_empty())
if eq.is_empty() and eq.contains_behavior(p):
    violations.append("is_empty() is True for a pair of opposite terms (an equality) that contains the behaviour p")

try:
    c = PolyhedralIoContractCompound.from_strings([A1, A2], [[]], ["x", "y"], [])
    print("1. from_strings(assumptions=[A1, A2]) accepted; contains_behavior(p) =", c.a.contains_behavior(p))
    violations.append("alternatives A1, A2 share a whole line but were not rejected with ValueError")
except ValueError as e:
    print("1. rejected as it should:", str(e)[:60])

m = c1.merge(c2)
for name, left, right, res in (("assumptions", c1.a, c2.a, m.a), ("guarantees", c1.g, c2.g, m.g)):
    in_ops = left.contains_behavior(p) and right.contains_behavior(p)
    in_res = res.contains_behavior(p)
    print(f"2. merge {name}: {len(res.nested_termlist)} alternative(s); p in both operands: {in_ops}; p in result: {in_res}")
    if in_ops and not in_res:
        violations.append(f"merge lost the behaviour p from the {name}")

left = NestedPolyhedra([eq], force_empty_intersection=False)
right = NestedPolyhedra([TL(polyhedral_termlist_from_string("x <= -1000.5"))], force_empty_intersection=False)
ans = left <= right
print("3. [A1 and A2] <= [x <= -1000.5] answers", ans, "; p in left:", left.contains_behavior(p), "; p in right:", right.contains_behavior(p))
if ans and left.contains_behavior(p) and not right.contains_behavior(p):
    violations.append("<= answered True although p is in the left union and not in the right one (x = -714 breaks x <= -1000.5 by 286.5)")

print()
if violations:
    print("PROPERTY C17 VIOLATED:")
    for v in violations:
        print("  -", v)
    sys.exit(1)
print("no violation")
