"""C17: two fat assumption alternatives that touch in exactly one point are taken for disjoint.

The emptiness test (PolyhedralTermList.is_empty -> is_polytope_empty) calls the non-empty set {(x,y,z)=(2,0,5)} empty.
Consequences, all checked exactly (Fractions / z3) below:
  1. NestedPolyhedra([A1, A2], force_empty_intersection=True) and PolyhedralIoContractCompound.from_strings accept the
     alternatives A1, A2 although they share the behaviour p (no ValueError);
  2. merging a contract that assumes A1 with one that assumes A2 (same for the guarantees) yields NO alternative,
     although p belongs to both operands: the union of the result is not the intersection of the unions;
  3. NestedPolyhedra([A1 and A2]) <= NestedPolyhedra([x <= 0]) answers True although p has x = 2.
All data are dyadic numbers of ordinary size (coefficients 0.75 .. 1000, constants <= 5000): the exact rational
reading and the float reading coincide, there is no rounding anywhere.
"""
import sys
from fractions import Fraction as F

import z3

from pacti.contracts import PolyhedralIoContractCompound
from pacti.contracts.polyhedral_iocontract import NestedPolyhedra
from pacti.iocontract import Var
from pacti.terms.polyhedra.polyhedra import PolyhedralTerm as T
from pacti.terms.polyhedra.polyhedra import PolyhedralTermList as TL

x, y, z = Var("x"), Var("y"), Var("z")
A1 = ["-z <= -5", "0.75x - 1000z <= -4998.5"]            # z >= 5 and x <= 2 + (1000/0.75)(z - 5): unbounded, fat
A2 = ["-100x + y + 10z <= -150", "y + z <= 5", "-y + z <= 5"]  # z <= 5 - |y| and x >= 1.5 + 0.01y + 0.1z: unbounded, fat
p = {x: 2, y: 0, z: 5}
violations = []


def exact_in(termlist, point):
    return all(sum(F(c) * F(point[v]) for v, c in t.variables.items()) <= F(t.constant) for t in termlist.terms)


def to_z3(termlist, zv):
    def q(f):
        fr = F(f)
        return z3.RealVal(str(fr.numerator)) / z3.RealVal(str(fr.denominator))
    return z3.And([sum(q(c) * zv[v.name] for v, c in t.variables.items()) <= q(t.constant) for t in termlist.terms])


# the two alternatives as the library parses them
c1 = PolyhedralIoContractCompound.from_strings([A1], [A1], ["x", "y", "z"], [])
c2 = PolyhedralIoContractCompound.from_strings([A2], [A2], ["x", "y", "z"], [])
tl1, tl2 = c1.a.nested_termlist[0], c2.a.nested_termlist[0]
print("A1 =", [str(t) for t in tl1.terms])
print("A2 =", [str(t) for t in tl2.terms])

# exact facts
zv = {n: z3.Real(n) for n in "xyz"}
s = z3.Solver()
s.add(to_z3(tl1, zv), to_z3(tl2, zv))
assert s.check() == z3.sat
s.add(z3.Or(zv["x"] != 2, zv["y"] != 0, zv["z"] != 5))
only_p = s.check() == z3.unsat
print("exact: p = (2, 0, 5) in A1:", exact_in(tl1, p), " in A2:", exact_in(tl2, p), " A1 & A2 == {p}:", only_p)
assert exact_in(tl1, p) and exact_in(tl2, p) and only_p
for name, tl in (("A1", tl1), ("A2", tl2)):  # each alternative has interior points: they are not degenerate themselves
    s2 = z3.Solver()
    s2.add(z3.And([z3.Not(c) for c in to_z3(TL([t.multiply(-1) for t in tl.terms]), zv).children()]))
    assert s2.check() == z3.sat, name
print("library: A1.is_empty() =", tl1.is_empty(), " A2.is_empty() =", tl2.is_empty())
both = tl1 | tl2
print("library: (A1 | A2).is_empty() =", both.is_empty(), " but (A1 | A2).contains_behavior(p) =", both.contains_behavior(p))
if both.is_empty() and both.contains_behavior(p):
    violations.append("is_empty() is True for a termlist that contains the behaviour p")

# 1. overlapping assumption alternatives must be rejected exactly when they share a behaviour
try:
    c = PolyhedralIoContractCompound.from_strings([A1, A2], [[]], ["x", "y", "z"], [])
    print("1. from_strings(assumptions=[A1, A2]) accepted; c.a.contains_behavior(p) =", c.a.contains_behavior(p))
    violations.append("alternatives A1, A2 share the behaviour p but were not rejected with ValueError")
except ValueError as e:
    print("1. rejected as it should:", str(e)[:60])

# 2. merge: union of the result == intersection of the unions
m = c1.merge(c2)
for name, left, right, res in (("assumptions", c1.a, c2.a, m.a), ("guarantees", c1.g, c2.g, m.g)):
    in_ops = left.contains_behavior(p) and right.contains_behavior(p)
    in_res = res.contains_behavior(p)
    print(f"2. merge {name}: {len(res.nested_termlist)} alternative(s); p in both operands: {in_ops}; p in result: {in_res}")
    if in_ops and not in_res:
        violations.append(f"merge lost the behaviour p from the {name}")

# 3. <= answers True only if the left union is contained in the right one
left = NestedPolyhedra([both], force_empty_intersection=False)
right = NestedPolyhedra([TL([T({x: 1}, 0)])], force_empty_intersection=False)  # x <= 0
ans = left <= right
print("3. [A1 and A2] <= [x <= 0] answers", ans, "; p in left:", left.contains_behavior(p), "; p in right:", right.contains_behavior(p), "(x = 2 breaks x <= 0 by 2)")
if ans and left.contains_behavior(p) and not right.contains_behavior(p):
    violations.append("<= answered True although p is in the left union and not in the right one")

print()
if violations:
    print("PROPERTY C17 VIOLATED:")
    for v in violations:
        print("  -", v)
    sys.exit(1)
print("no violation")
