"""C02 violation: quotient treats "C.a implies C1.a" as established although it fails by more than the 1e-7 slack.

IoContract.quotient_tactics asks `self.a.refines(other.a)`; PolyhedralTermList.refines answers True when the
containment fails by up to 1e-6*(1+|b|) (CONTAINMENT_TOLERANCE).  On a True answer the quotient ADDS the divisor's
guarantees to its own assumptions.  For environments in the gap (C.a holds, C1.a is broken by ~1.5e-6 > 1e-7) the
divisor owes nothing, so the quotient's assumptions are not met, the quotient owes nothing either, and C's guarantee
is lost by an arbitrary margin.

Run: PYTHONPATH=/tmp/wt-h2/src /venv/bin/python /tmp/wt-h2/demo_1.py   (exit status 1 = property violated)
"""
import sys
from fractions import Fraction

import z3

from pacti.contracts import PolyhedralIoContract
from pacti.iocontract import Var

BOX = 1000
TOL = Fraction(1, 10**4)       # conclusions: violated only beyond 1e-4*(1+|const|)
SLACK = Fraction(1, 10**7)     # a component's own assumptions are granted this slack (taken relative AND absolute below)


def _lhs(t, zs):
    return sum((z3.RealVal(str(Fraction(c))) * zs[v.name] for v, c in t.variables.items()), z3.RealVal(0))


def _holds(tl, zs, slack=Fraction(0)):
    cs = [_lhs(t, zs) <= z3.RealVal(str(Fraction(t.constant) + slack * (1 + abs(Fraction(t.constant))))) for t in tl.terms]
    return z3.And(cs) if cs else z3.BoolVal(True)


def check_c02(C, C1, Q):
    """Search a point of the box where C.a holds, C1 and Q honour their contracts, and C1.a, Q.a or C.g is broken."""
    names = sorted({v.name for c in (C, C1, Q) for v in c.vars})
    zs = {n: z3.Real(n) for n in names}
    s = z3.Solver()
    for n in names:
        s.add(zs[n] <= BOX, zs[n] >= -BOX)
    s.add(_holds(C.a, zs))
    s.add(z3.Or(z3.Not(_holds(C1.a, zs, SLACK)), _holds(C1.g, zs)))
    s.add(z3.Or(z3.Not(_holds(Q.a, zs, SLACK)), _holds(Q.g, zs)))
    concl = [(nm, t) for nm, tl in (("C1.a", C1.a), ("Q.a", Q.a), ("C.g", C.g)) for t in tl.terms]
    # ask for a gross violation (margin 1) so that no tolerance discussion is possible for the conclusion
    s.add(z3.Or([_lhs(t, zs) > z3.RealVal(str(Fraction(t.constant) + TOL * (1 + abs(Fraction(t.constant))) + 1)) for _, t in concl]))
    if s.check() != z3.sat:
        return None
    m = s.model()
    val = {n: m.eval(zs[n], model_completion=True).as_fraction() for n in names}
    broken = []
    for nm, t in concl:
        lhs = sum(Fraction(c) * val[v.name] for v, c in t.variables.items())
        if lhs > Fraction(t.constant) + TOL * (1 + abs(Fraction(t.constant))):
            broken.append("%s: %s  (lhs=%s)" % (nm, t, float(lhs)))
    return val, broken


C = PolyhedralIoContract.from_strings(
    assumptions=["x <= 1.0000015"], guarantees=["z <= 5"], input_vars=["x"], output_vars=["z"]
)
C1 = PolyhedralIoContract.from_strings(
    assumptions=["x <= 1"], guarantees=["y <= 0"], input_vars=["x"], output_vars=["y"]
)
print("C.a does NOT imply C1.a (x = 1.0000015 is allowed by C, exceeds C1's bound by 1.5e-6)")
print("library: C.a.refines(C1.a) =", C.a.refines(C1.a))
Q = C.quotient(C1, additional_inputs=[Var("x")])
print("dividend C:\n%s\ndivisor C1:\n%s\nquotient Q:\n%s" % (C, C1, Q))
print("Q.a terms (repr):", [(dict((k.name, v) for k, v in t.variables.items()), t.constant) for t in Q.a.terms])
res = check_c02(C, C1, Q)
if res is None:
    print("property C02 holds on this input")
    sys.exit(0)
val, broken = res
print("COUNTEREXAMPLE valuation:", {k: float(v) for k, v in val.items()})
print("  C.a holds exactly; C1.a is broken by %.3g (> 1e-7 slack) so C1 owes nothing;" % (float(val["x"]) - 1))
print("  hence Q.a is not met, Q owes nothing, and these conclusions fail:")
for b in broken:
    print("   ", b)
print("PROPERTY C02 VIOLATED")
sys.exit(1)
