"""C02 violation: a contract variable named "_" collides with the auxiliary variable of elimination tactic 3.

PolyhedralTermList._tactic_3 (polyhedra.py, lines 1353-1364) introduces a fresh variable by hard-coding Var("_") for the
linear combination of the variables being eliminated, rewrites the context with it and then eliminates "_" with
tactic 1.  Nothing prevents the user's contracts from using a variable of that name (Var accepts any string,
from_dict / to_machine_dict accept it; only the string grammar does not).  A context term about the user's "_" is then
taken for a bound on the combination being eliminated, and the "refined" guarantee no longer implies the original.

Run: PYTHONPATH=/tmp/wt-h2/src /venv/bin/python /tmp/wt-h2/demo_2.py   (exit status 1 = property violated)
"""
import sys
from fractions import Fraction

import z3

from pacti.contracts import PolyhedralIoContract
from pacti.iocontract import Var

BOX = 1000
TOL = Fraction(1, 10**4)       # conclusions: violated only beyond 1e-4*(1+|const|)
SLACK = Fraction(1, 10**7)     # a component's own assumptions are granted this slack (taken relative AND absolute below)


def _lhs(t, zs):
    return sum((z3.RealVal(str(Fraction(c))) * zs[v.name] for v, c in t.variables.items()), z3.RealVal(0))


def _holds(tl, zs, slack=Fraction(0)):
    cs = [_lhs(t, zs) <= z3.RealVal(str(Fraction(t.constant) + slack * (1 + abs(Fraction(t.constant))))) for t in tl.terms]
    return z3.And(cs) if cs else z3.BoolVal(True)


def check_c02(C, C1, Q):
    """Search a point of the box where C.a holds, C1 and Q honour their contracts, and C1.a, Q.a or C.g is broken."""
    names = sorted({v.name for c in (C, C1, Q) for v in c.vars})
    zs = {n: z3.Real(n) for n in names}
    s = z3.Solver()
    for n in names:
        s.add(zs[n] <= BOX, zs[n] >= -BOX)
    s.add(_holds(C.a, zs))
    s.add(z3.Or(z3.Not(_holds(C1.a, zs, SLACK)), _holds(C1.g, zs)))
    s.add(z3.Or(z3.Not(_holds(Q.a, zs, SLACK)), _holds(Q.g, zs)))
    concl = [(nm, t) for nm, tl in (("C1.a", C1.a), ("Q.a", Q.a), ("C.g", C.g)) for t in tl.terms]
    # ask for a gross violation (margin 1) so that no tolerance discussion is possible for the conclusion
    s.add(z3.Or([_lhs(t, zs) > z3.RealVal(str(Fraction(t.constant) + TOL * (1 + abs(Fraction(t.constant))) + 1)) for _, t in concl]))
    if s.check() != z3.sat:
        return None
    m = s.model()
    val = {n: m.eval(zs[n], model_completion=True).as_fraction() for n in names}
    broken = []
    for nm, t in concl:
        lhs = sum(Fraction(c) * val[v.name] for v, c in t.variables.items())
        if lhs > Fraction(t.constant) + TOL * (1 + abs(Fraction(t.constant))):
            broken.append("%s: %s  (lhs=%s)" % (nm, t, float(lhs)))
    return val, broken



C = PolyhedralIoContract.from_dict(
    {
        "input_vars": ["u", "v"],
        "output_vars": ["a"],
        "assumptions": [],
        "guarantees": [{"coefficients": {"u": 1, "v": 1, "a": 1}, "constant": 0}],  # u + v + a <= 0
    }
)
C1 = PolyhedralIoContract.from_dict(
    {
        "input_vars": ["u", "v"],
        "output_vars": ["_"],
        "assumptions": [],
        "guarantees": [{"coefficients": {"_": 1}, "constant": 5}],  # _ <= 5   (says nothing about u, v)
    }
)
status = 0
for order in ([1, 2, 3, 4], [3], None):
    if order is None:
        Q = C.quotient(C1)
        used = "default"
    else:
        Q, used = C.quotient_tactics(C1, tactics_order=order)
    print("tactics order", order, "-> tactics used", used)
    print("dividend C:\n%s\ndivisor C1:\n%s\nquotient Q:\n%s" % (C, C1, Q))
    res = check_c02(C, C1, Q)
    if res is None:
        print("property C02 holds on this input")
        continue
    val, broken = res
    print("COUNTEREXAMPLE valuation:", {k: float(v) for k, v in val.items()})
    print("  C.a, C1.a are empty; C1 honours _ <= 5, Q honours its guarantee, yet:")
    for b in broken:
        print("   ", b)
    print("PROPERTY C02 VIOLATED")
    status = 1
sys.exit(status)
