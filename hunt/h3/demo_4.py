"""C11 / C03: emptiness of a plainly infeasible integer system is not decided (ValueError), and the
infeasible list therefore does not 'refine everything' either.

The system needs every constant relaxed by about 0.2 to become feasible, so it is not a thin case.
"""
import sys
import z3
from fractions import Fraction as F
from pacti.terms.polyhedra.polyhedra import PolyhedralTerm as T, PolyhedralTermList as L
from pacti.iocontract import Var

x, y, z, w = Var("x"), Var("y"), Var("z"), Var("w")
terms = L(
    [
        T({y: 1, x: 1}, 1),
        T({y: -1, w: -4771, x: 5}, 0),
        T({w: 1, x: -1}, 0),
        T({z: -97, w: 1}, -1),
        T({z: 1, y: -1}, 0),
        T({z: 25}, 0),
        T({y: 29263, z: -1, x: -1, w: 1}, 0),
    ]
)
def zlhs(t):
    return sum([z3.RealVal(str(F(c))) * z3.Real(v.name) for v, c in t.variables.items()], z3.RealVal(0))
s = z3.Solver(); s.add([zlhs(t) <= z3.RealVal(str(F(t.constant))) for t in terms.terms])
infeasible = s.check() == z3.unsat
o = z3.Optimize(); r = z3.Real("r"); o.add([zlhs(t) - r <= z3.RealVal(str(F(t.constant))) for t in terms.terms]); h = o.minimize(r); o.check()
print("terms:", terms.terms)
print("exact: infeasible =", infeasible, "; uniform relaxation needed for feasibility =", float(o.lower(h).as_fraction()))
res = {}
for name, f in [("terms.is_empty()", lambda: terms.is_empty()), ("terms.refines([x <= 0])", lambda: terms.refines(L([T({x: 1}, 0)])))]:
    try:
        res[name] = f()
    except Exception as e:  # noqa
        res[name] = "raised %s: %s" % (type(e).__name__, e)
    print("library:", name, "=", res[name])
bad = infeasible and (res["terms.is_empty()"] is not True or res["terms.refines([x <= 0])"] is not True)
print("VIOLATION" if bad else "ok")
sys.exit(1 if bad else 0)
