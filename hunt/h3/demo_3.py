"""C03: a satisfiable constraint list (dyadic data, contains the origin) is reported not to refine itself.

The LP built for the second constraint is answered by HiGHS with a non-optimal status (or with an
"optimal" point of magnitude 1e16 that violates the constraint by 1); verify_polytope_containment turns
"the solver gave no usable optimum" into the answer False.
"""
import sys
import z3
from fractions import Fraction as F
from pacti.terms.polyhedra.polyhedra import PolyhedralTerm as T, PolyhedralTermList as L
from pacti.iocontract import Var

x, w, z, y = Var("x"), Var("w"), Var("z"), Var("y")
terms = L(
    [
        T({x: 2.0**-16, w: 1024.0}, 0),
        T({z: 53.0, w: 1.0, y: 0.25}, 0),
        T({x: -1.0, w: 1.0, z: -3.0}, 0),
        T({w: 1.0, x: 1.0}, 0),
    ]
)
def zterm(t):
    return sum([z3.RealVal(str(F(c))) * z3.Real(v.name) for v, c in t.variables.items()], z3.RealVal(0)) <= z3.RealVal(str(F(t.constant)))
s = z3.Solver(); s.add([zterm(t) for t in terms.terms]); s.add([z3.Real(v.name) == 0 for v in terms.vars])
print("terms:", terms.terms)
print("the origin satisfies every term:", s.check() == z3.sat)
sub = L([terms.terms[1]])
results = {}
for name, f in [("terms.refines(terms)", lambda: terms.refines(terms)), ("terms.refines([second term])", lambda: terms.refines(sub)), ("terms.is_empty()", lambda: terms.is_empty())]:
    try:
        results[name] = f()
    except Exception as e:  # noqa
        results[name] = "raised %s: %s" % (type(e).__name__, e)
    print("library:", name, "=", results[name])
# semantic oracle: terms => second term is valid (trivially, it is one of them)
o = z3.Solver(); o.add([zterm(t) for t in terms.terms]); o.add(z3.Not(zterm(terms.terms[1])))
contained = o.check() == z3.unsat
print("exact: every point of the list satisfies its second term:", contained)
bad = contained and (results["terms.refines(terms)"] is not True or results["terms.refines([second term])"] is not True)
print("VIOLATION" if bad else "ok")
sys.exit(1 if bad else 0)
