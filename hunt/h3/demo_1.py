"""C03: constraints whose coefficients cancel ("i - i <= 1") break the refinement tests.

The parser / PolyhedralTerm constructor drop zero coefficients, so "i - i <= 1" becomes the variable-free
term " <= 1" (always true).  Such a list is semantically the whole space, yet
  * [] does not "refine" it (answer False, must be True),
  * it does not refine itself (ValueError from linprog instead of True),
  * a contract carrying it as assumption cannot be compared with itself, and is reported NOT to refine the
    semantically identical contract without assumptions.
"""
import sys
import z3
from fractions import Fraction as F
from pacti.contracts.polyhedral_iocontract import PolyhedralIoContract as C
from pacti.terms.polyhedra.polyhedra import PolyhedralTerm as T, PolyhedralTermList as L
from pacti.iocontract import Var

def zterm(t):
    return sum([z3.RealVal(str(F(c))) * z3.Real(v.name) for v, c in t.variables.items()], z3.RealVal(0)) <= z3.RealVal(str(F(t.constant)))
def zlist(l):
    return z3.And([zterm(t) for t in l.terms]) if l.terms else z3.BoolVal(True)
def valid(f):
    s = z3.Solver(); s.add(z3.Not(f)); return s.check() == z3.unsat
def sem_list_refines(l, r):
    return valid(z3.Implies(zlist(l), zlist(r)))
def sem_contract_refines(c, d):  # assumptions no stronger, guarantees no weaker under d's assumptions
    return valid(z3.Implies(zlist(d.a), zlist(c.a))) and valid(z3.Implies(z3.And(zlist(c.g), zlist(d.a)), zlist(d.g)))
def call(f):
    try:
        return f()
    except Exception as e:  # noqa
        return "raised %s: %s" % (type(e).__name__, str(e)[:60])

violations = 0
def check(name, got, expected):
    global violations
    ok = got is expected or got == expected
    print("%-55s library: %-45s semantics: %s %s" % (name, got, expected, "" if ok else "  <-- VIOLATION"))
    violations += 0 if ok else 1

c_taut = C.from_strings(assumptions=["i - i <= 1"], guarantees=["o <= i"], input_vars=["i"], output_vars=["o"])
c_none = C.from_strings(assumptions=[], guarantees=["o <= i"], input_vars=["i"], output_vars=["o"])
print("assumptions of c_taut:", c_taut.a.terms, " guarantees:", c_taut.g.terms)
taut = c_taut.a                       # the list [ <= 1 ]
empty = L([])

check("[] refines [i - i <= 1]", call(lambda: empty.refines(taut)), sem_list_refines(empty, taut))
check("[i - i <= 1] refines itself", call(lambda: taut.refines(taut)), sem_list_refines(taut, taut))
check("c_taut <= c_taut", call(lambda: c_taut <= c_taut), sem_contract_refines(c_taut, c_taut))
check("c_taut <= c_none (same contract, no assumption)", call(lambda: c_taut <= c_none), sem_contract_refines(c_taut, c_none))
check("c_none <= c_taut", call(lambda: c_none <= c_taut), sem_contract_refines(c_none, c_taut))
check("c_taut.contains_environment([])", call(lambda: c_taut.contains_environment(empty)), sem_list_refines(empty, c_taut.a))
false_list = L([T({Var("i"): 0}, -1)])   # 0*i <= -1 : no behaviour satisfies it
s = z3.Solver(); s.add(zlist(false_list))
check("[0*i <= -1].is_empty()", call(lambda: false_list.is_empty()), s.check() == z3.unsat)
sys.exit(1 if violations else 0)
