"""C03: for a right-hand constant of magnitude >= 2**53 the containment test answers True for everything.

verify_polytope_containment maximises a_r.x under the left constraints plus the tested row relaxed to
b_r + 1 and then checks  optimum <= b_r + tolerance.  For |b_r| >= 2**53 the float sum b_r + 1 equals b_r,
so the LP optimum can never exceed b_r and every left side is declared contained.
"""
import sys
import z3
from fractions import Fraction as F
from pacti.contracts.polyhedral_iocontract import PolyhedralIoContract as C
from pacti.terms.polyhedra.polyhedra import PolyhedralTerm as T, PolyhedralTermList as L
from pacti.iocontract import Var

x = Var("x")
left = L([T({x: 1}, 1000), T({x: -1}, 1000)])          # -1000 <= x <= 1000
right = L([T({x: 1e14}, 1e16)])                         # 1e14 x <= 1e16, i.e. x <= 100
got = left.refines(right)
print("left :", left.terms)
print("right:", right.terms)
print("library: left.refines(right) =", got)

# exact oracle: a point of the left side inside the box |x|<=1000 violating the right term by more than
# 1e-4*(1+|constant|)
zx = z3.Real("x")
s = z3.Solver()
s.add(zx <= 1000, -zx <= 1000)
t = right.terms[0]
tol = F(1, 10000) * (1 + abs(F(t.constant)))
s.add(z3.RealVal(str(F(t.variables[x]))) * zx > z3.RealVal(str(F(t.constant) + tol)))
must_be_false = s.check() == z3.sat
if must_be_false:
    print("witness: x =", s.model()[zx], "satisfies the left side and violates the right term by more than", float(tol))

# the same through contracts
c1 = C.from_strings([], ["o <= 1000", "-o <= 1000"], ["i"], ["o"])
c2 = C(L([]), L([T({Var("o"): 1e14}, 1e16)]), [Var("i")], [Var("o")])
got_c = c1 <= c2
print("library: c1 <= c2 =", got_c, " (c1 guarantees |o|<=1000, c2 guarantees 1e14*o <= 1e16)")
bad = must_be_false and (got is True or got_c is True)
print("VIOLATION" if bad else "ok")
sys.exit(1 if bad else 0)
