"""C10: a folded pair of opposite constraints is printed with the numbers of its FIRST member only.

Two constraints are folded into '|...| <= c' / '... = c' when their numbers agree up to a relative 1e-5.  Two numbers
that close can still round to different 4-significant-digit values (1234.5 -> 1234, 1234.51 -> 1235).  The string form
then carries, for the second constraint, a number that is not the 4-digit rounding of the original one, so the contract
read back is not "the original constraints with every number rounded to the four significant digits".

Run: PYTHONPATH=/tmp/wt-g5/src /venv/bin/python /tmp/wt-g5/demo_1.py      (exit status 1 = property violated)
"""
import sys
from fractions import Fraction as F

import z3

from pacti.contracts import PolyhedralIoContract
from pacti.iocontract import Var
from pacti.terms.polyhedra import PolyhedralTerm, PolyhedralTermList


def r4(v):
    """The number rounded to four significant digits, as the printer formats it."""
    return float(f"{v:.4g}")


def formula(termlist, zv, rounded):
    cs = []
    for t in termlist.terms:
        lhs = z3.RealVal(0)
        for var, coeff in t.variables.items():
            lhs = lhs + z3.RealVal(str(F(r4(coeff) if rounded else coeff))) * zv[var.name]
        cs.append(lhs <= z3.RealVal(str(F(r4(t.constant) if rounded else t.constant))))
    return z3.And(cs) if cs else z3.BoolVal(True)


def witness(f, g):
    """A point of f that is not in g (None when f implies g)."""
    s = z3.Solver()
    s.add(f, z3.Not(g))
    if s.check() == z3.sat:
        m = s.model()
        return {str(d): m[d] for d in m.decls()}
    return None


x, y = Var("x"), Var("y")
zv = {"x": z3.Real("x"), "y": z3.Real("y")}
violated = False

cases = {
    "coefficients 1234.5 / 1234.51": PolyhedralTermList(
        [PolyhedralTerm({x: 1234.5, y: 1.0}, 10.0), PolyhedralTerm({x: -1234.51, y: -1.0}, 10.0)]
    ),
    "constants 2.000505 / 2.00049": PolyhedralTermList(
        [PolyhedralTerm({x: 1.0, y: 3.0}, 2.000505), PolyhedralTerm({x: -1.0, y: -3.0}, -2.00049)]
    ),
}
for name, g in cases.items():
    c = PolyhedralIoContract(PolyhedralTermList([]), g, [x], [y], simplify=False)
    d = c.to_dict()
    back = PolyhedralIoContract.from_strings(**d, simplify=False)
    print("case:", name)
    print("  original guarantees :", [str(t) for t in c.g.terms])
    print("  printed             :", d["guarantees"])
    print("  read back           :", [str(t) for t in back.g.terms])
    expected = formula(c.g, zv, rounded=True)  # the original constraints, every number rounded to 4 significant digits
    got = formula(back.g, zv, rounded=False)
    print("  expected (rounded)  :", [(sorted((k.name, r4(v)) for k, v in t.variables.items()), r4(t.constant)) for t in c.g.terms])
    w1, w2 = witness(got, expected), witness(expected, got)
    if w1 is not None or w2 is not None:
        violated = True
        print("  NOT the rounded reading. point accepted by the read-back contract but not by the rounded original:", w1)
        print("                           point accepted by the rounded original but not by the read-back contract:", w2)
    else:
        print("  same meaning as the rounded original")
    # the same pair printed in the other order gives other numbers: the text depends on which member comes first
    g_rev = PolyhedralTermList(list(reversed(g.terms)))
    print("  printed, pair in the other order:", g_rev.to_str_list())

sys.exit(1 if violated else 0)
