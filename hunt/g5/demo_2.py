"""C10: the printer emits ' <= c' for a constraint without variables, and the parser rejects that string.

A constraint without variables arises from ordinary inputs: renaming input y to input x in a contract whose assumptions
contain 'x - y <= 1' leaves '0 <= 1' in the assumptions (assumptions are never simplified), and the string 'x <= x + 1'
parses to the same thing.  The rest of the library now copes with such constraints (refines, is_empty, simplify), and
the machine dictionary / machine file round trip works, but to_dict() / the human-readable file print the constraint as
' <= 1', which polyhedral_termlist_from_string rejects: the contract cannot be read back from its own string form.

Run: PYTHONPATH=/tmp/wt-g5/src /venv/bin/python /tmp/wt-g5/demo_2.py      (exit status 1 = property violated)
"""
import os
import sys
import tempfile

from pacti.contracts import PolyhedralIoContract
from pacti.utils import read_contracts_from_file, write_contracts_to_file


def same_meaning(c1, c2):
    """Same interface; assumptions and assumptions+guarantees contain each other (variable-free terms are handled by refines)."""
    if [v.name for v in c1.inputvars] != [v.name for v in c2.inputvars]:
        return False
    if [v.name for v in c1.outputvars] != [v.name for v in c2.outputvars]:
        return False
    a1, a2, ag1, ag2 = c1.a, c2.a, c1.a | c1.g, c2.a | c2.g
    return a1.refines(a2) and a2.refines(a1) and ag1.refines(ag2) and ag2.refines(ag1)


violated = False
c = PolyhedralIoContract.from_strings(["x - y <= 1", "x <= 4"], ["z - x <= 2"], ["x", "y"], ["z"])
r = c.rename_variables([("y", "x")])  # both inputs are driven by the same signal
print("renamed contract, assumption terms:", [str(t) for t in r.a.terms])
d = r.to_dict()
print("to_dict():", d)

# 1. strings
try:
    back = PolyhedralIoContract.from_strings(**d)
    print("from_strings(to_dict()) ok, same meaning:", same_meaning(r, back))
    violated |= not same_meaning(r, back)
except Exception as e:  # noqa
    violated = True
    print("from_strings(to_dict()) raised", type(e).__name__, "- the printer emitted a string the parser does not accept:")
    print("   ", str(e).replace("\n", "\n    "))

# 2. files, both representations
tmp = tempfile.mkdtemp()
for machine in (True, False):
    fn = os.path.join(tmp, f"c_{machine}.json")
    write_contracts_to_file([r], ["renamed"], fn, machine_representation=machine)
    try:
        cs, names = read_contracts_from_file(fn)
        ok = same_meaning(r, cs[0])
        print(f"file round trip, machine_representation={machine}: read ok, same meaning: {ok}")
        violated |= not ok
    except Exception as e:  # noqa
        violated = True
        print(f"file round trip, machine_representation={machine}: read raised {type(e).__name__}")

# 3. the same constraint straight from a string in which every constraint mentions a variable
c2 = PolyhedralIoContract.from_strings(["x <= x + 1", "x <= 4"], ["z - x <= 2"], ["x"], ["z"])
print("from_strings(['x <= x + 1', ...]).to_dict()['assumptions'] =", c2.to_dict()["assumptions"])

sys.exit(1 if violated else 0)
