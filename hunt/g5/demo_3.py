"""C13 (low severity): PolyhedralTermList(terms) copies the list but keeps the very same PolyhedralTerm objects.

A term list built from the terms of a contract (or of another term list) therefore shares mutable state with it:
changing a term of the new list changes the contract it was taken from.  Every other way of obtaining a term list
(copy, |, -, &, rename_variable, simplify, the contract constructor) returns fresh terms; get_terms_with_vars is the
other, already known, exception and it goes through this same constructor.

Run: PYTHONPATH=/tmp/wt-g5/src /venv/bin/python /tmp/wt-g5/demo_3.py      (exit status 1 = property violated)
"""
import sys

from pacti.contracts import PolyhedralIoContract
from pacti.iocontract import Var
from pacti.terms.polyhedra import PolyhedralTermList

c = PolyhedralIoContract.from_strings(["x <= 4"], ["y - x <= 2", "y >= 0"], ["x"], ["y"])
before = [(dict(t.variables), t.constant) for t in c.g.terms]

# a user collects the guarantees of a contract into a term list of his own ...
mine = PolyhedralTermList(c.g.terms)
shared = [t for t in mine.terms if any(t is u for u in c.g.terms)]
print("term objects of the new list that ARE objects of the contract:", len(shared), "of", len(mine.terms))

# ... and edits his list (the harness of the property mutates results to detect aliasing)
mine.terms[0].constant = 100.0
mine.terms[0].variables[Var("x")] = 7.0
after = [(dict(t.variables), t.constant) for t in c.g.terms]
print("contract guarantees before:", before)
print("contract guarantees after :", after)
print("y=50, x=0 allowed by the contract now?", (c.a | c.g).contains_behavior({Var("x"): 0.0, Var("y"): 50.0}))

violated = before != after
sys.exit(1 if violated else 0)
