"""C12 (borderline: affine objective): the constant of the objective is silently dropped.

optimize() parses the objective with the constraint grammar (as 'expr <= 0') and keeps only the variable
coefficients of the parsed term, so optimize('x + 1') returns the optimum of 'x', not of 'x + 1'; no error is
raised.  The expected value is computed exactly with z3.
"""
import sys
from fractions import Fraction

import z3
from pacti.contracts import PolyhedralIoContract

c = PolyhedralIoContract.from_strings(["0 <= x <= 3"], ["y <= x", "y >= -2"], ["x"], ["y"])
x, y = z3.Reals("x y")
cons = [x >= 0, x <= 3, y <= x, y >= -2]
violations = 0
for expr, zobj in (("x + y", x + y), ("x + y + 1", x + y + 1), ("2x - 4", 2 * x - 4), ("5", z3.RealVal(5))):
    for maximize in (True, False):
        o = z3.Optimize()
        o.add(*cons)
        h = o.maximize(zobj) if maximize else o.minimize(zobj)
        o.check()
        expected = float(Fraction(str(o.upper(h) if maximize else o.lower(h))))
        got = c.optimize(expr, maximize)
        ok = got is not None and abs(got - expected) <= 1e-6 * max(1.0, abs(expected))
        print(f"optimize({expr!r}, maximize={maximize}): exact optimum {expected}, library -> {got}  {'ok' if ok else 'VIOLATION'}")
        violations += 0 if ok else 1
print("violations:", violations)
sys.exit(1 if violations else 0)
