"""C18: for a degenerate slice (segment or point) the vertex routine does not return exactly the corners.

A segment has two corners and a point has one.  constraints_to_vertices always returns FOUR points in these
cases (the answers of four LPs), so corners are listed several times; the result is not 'exactly the corner
points' and a consumer that counts vertices/edges (or draws the polygon) sees a 4-gon with zero-length edges.
The expected corners are computed by exact rational vertex enumeration.
"""
import itertools
import sys
from fractions import Fraction as F

from pacti.iocontract import Var
from pacti.terms.polyhedra.polyhedra import PolyhedralTerm, PolyhedralTermList
from pacti.utils.plots import constraints_to_vertices


def exact_corners(rows, vals, xl, yl):
    hs = []
    for coeffs, k in rows:
        a, b = F(coeffs.get("x", 0)), F(coeffs.get("y", 0))
        c = F(k) - sum(F(co) * vals[n] for n, co in coeffs.items() if n not in ("x", "y"))
        hs.append((a, b, c))
    hs += [(F(1), F(0), F(xl[1])), (F(-1), F(0), F(-xl[0])), (F(0), F(1), F(yl[1])), (F(0), F(-1), F(-yl[0]))]
    if any(a == 0 and b == 0 and c < 0 for a, b, c in hs):
        return []
    hs = [h for h in hs if (h[0], h[1]) != (0, 0)]
    pts = set()
    for (a1, b1, c1), (a2, b2, c2) in itertools.combinations(hs, 2):
        det = a1 * b2 - a2 * b1
        if det != 0:
            p = ((c1 * b2 - c2 * b1) / det, (a1 * c2 - a2 * c1) / det)
            if all(a * p[0] + b * p[1] <= c for a, b, c in hs):
                pts.add(p)
    return sorted(pts)


cases = [
    # (description, constraints as ({var: coeff}, const) meaning sum <= const, values, x_lims, y_lims)
    ("segment x + y = 0", [({"x": 1, "y": 1}, 0), ({"x": -1, "y": -1}, 0)], {}, (-5, 5), (-5, 5)),
    ("segment y = 1", [({"y": 1}, 1), ({"y": -1}, -1)], {}, (-3, 4), (-5, 5)),
    ("segment x - y + z = 0 at z=2", [({"x": 1, "y": -1, "z": 1}, 0), ({"x": -1, "y": 1, "z": -1}, 0)], {"z": 2}, (-5, 5), (-5, 5)),
    ("point x+y<=0, x>=0, y>=0", [({"x": 1, "y": 1}, 0), ({"x": -1}, 0), ({"y": -1}, 0)], {}, (-5, 5), (-5, 5)),
    ("control: triangle", [({"x": 1, "y": 1}, 2), ({"x": -1}, 0), ({"y": -1}, 0)], {}, (-5, 5), (-5, 5)),
]
violations = 0
tol = 1e-6
for label, rows, vals, xl, yl in cases:
    tl = PolyhedralTermList([PolyhedralTerm({Var(n): c for n, c in r.items()}, k) for r, k in rows])
    xs, ys = constraints_to_vertices(tl, Var("x"), Var("y"), {Var(n): v for n, v in vals.items()}, xl, yl)
    got = [(float(a), float(b)) for a, b in zip(xs, ys)]
    exp = exact_corners(rows, {n: F(v) for n, v in vals.items()}, xl, yl)
    near = lambda p, q: abs(p[0] - float(q[0])) <= tol and abs(p[1] - float(q[1])) <= tol  # noqa: E731
    all_are_corners = all(any(near(p, q) for q in exp) for p in got)
    none_missing = all(any(near(p, q) for p in got) for q in exp)
    # 'exactly the corner points': a one-to-one correspondence between returned points and corners
    exact = all_are_corners and none_missing and len(got) == len(exp)
    print(f"{label}:\n   corners (exact) : {[(str(a), str(b)) for a, b in exp]}\n   library returns : {got}")
    print(f"   every returned point is a corner: {all_are_corners}; no corner missing: {none_missing}; "
          f"returned {len(got)} points for {len(exp)} corners -> {'ok' if exact else 'VIOLATION'}")
    if not exact:
        violations += 1
print("violations:", violations)
sys.exit(1 if violations else 0)
