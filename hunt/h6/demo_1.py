"""C12: a contract without constraints is satisfiable, yet optimize / get_variable_bounds raise ValueError.

Every valuation of (x, y) is a behaviour of the contract (no assumptions, no guarantees), so the set of
behaviours is non-empty and any non-zero objective is unbounded on it: optimize must return None and
get_variable_bounds must return (None, None).  ValueError is reserved for contracts without behaviours.
"""
import sys
import z3
from pacti.contracts import PolyhedralIoContract

violations = 0


def oracle(constraints, objective, maximize):
    """Exact answer with z3 over the rationals: 'infeasible', None (unbounded) or the optimum."""
    s = z3.Solver()
    s.add(*constraints)
    if s.check() != z3.sat:
        return "infeasible"
    o = z3.Optimize()
    o.add(*constraints)
    h = o.maximize(objective) if maximize else o.minimize(objective)
    o.check()
    v = o.upper(h) if maximize else o.lower(h)
    return None if "oo" in str(v) else v


x, y = z3.Reals("x y")
cases = [
    ("no constraints at all", dict(assumptions=[], guarantees=[], input_vars=["x"], output_vars=["y"]), []),
    # the guarantee is implied by the assumption: the constructor (simplify=True) removes it, a|g keeps 'x <= 1'
    ("control: one assumption", dict(assumptions=["x <= 1"], guarantees=[], input_vars=["x"], output_vars=["y"]), [x <= 1]),
]
for label, kwargs, zc in cases:
    for simplify in (True, False):
        c = PolyhedralIoContract.from_strings(simplify=simplify, **kwargs)
        for expr, zobj in (("y", y), ("2x - y", 2 * x - y)):
            for maximize in (True, False):
                expected = oracle(zc, zobj, maximize)
                try:
                    got = c.optimize(expr, maximize)
                except ValueError as e:
                    got = "infeasible"
                    msg = str(e)
                else:
                    msg = ""
                ok = (expected == got) if (expected is None or got is None or isinstance(got, str) or isinstance(expected, str)) else abs(got - float(expected.as_fraction())) <= 1e-6
                print(f"{label:26s} simplify={simplify!s:5s} optimize({expr!r}, maximize={maximize!s:5s}): expected {expected}, library -> {got} {('[ValueError: ' + msg[:60] + '...]') if msg else ''}")
                if not ok:
                    violations += 1

c = PolyhedralIoContract.from_strings([], [], ["x"], ["y"])
try:
    b = c.get_variable_bounds("y")
    print("get_variable_bounds('y') ->", b)
    if b != (None, None):
        violations += 1
except ValueError as e:
    print("get_variable_bounds('y') raised ValueError (expected (None, None)):", str(e)[:70])
    violations += 1

print("violations:", violations)
sys.exit(1 if violations else 0)
