"""C12: optimize() raises ValueError("Constraints are unfeasible") where it has to return None.

Contracts with one to three inequality guarantees, obviously satisfiable, and an objective that is unbounded
(in the first contract the objective variable v is in the interface but in no constraint).  The LP solver,
run with primal_feasibility_tolerance=1e-10, returns scipy status 4 (HiGHS 'Not Set'), which optimize()
turns into "Constraints are unfeasible".
"""
import sys
import warnings
from fractions import Fraction

import z3

from pacti.contracts import PolyhedralIoContract

warnings.filterwarnings("ignore")

CASES = [
    (["-4214y - z <= -1685778.375"], [], ["y", "z", "v"], "v", True),
    (["-4214y - z <= -1685778.375"], [], ["y", "z", "v"], "v", False),
    (["-47z <= -222679.625", "443y - 964z <= 119506", "163w - 276z + 812x <= 196746.5"], ["x"], ["y", "z", "w"], "w", True),
    (["-491z - 261y + 602w <= -873548", "854y - 508x <= 120819"], ["x"], ["y", "z", "w"], "y", True),
]


def exact(contract, names, objective, maximize):
    zs = {n: z3.Real(n) for n in names}
    opt = z3.Optimize()
    for t in contract.a.terms + contract.g.terms:
        opt.add(z3.Sum([z3.RealVal(str(Fraction(c))) * zs[v.name] for v, c in t.variables.items()]) <= z3.RealVal(str(Fraction(t.constant))))
    h = opt.maximize(zs[objective]) if maximize else opt.minimize(zs[objective])
    if opt.check() != z3.sat:
        return "infeasible"
    v = str(opt.upper(h) if maximize else opt.lower(h))
    return "unbounded" if "oo" in v else Fraction(v)


violations = 0
for guarantees, ins, outs, objective, maximize in CASES:
    contract = PolyhedralIoContract.from_strings([], guarantees, ins, outs)
    expected = exact(contract, ins + outs, objective, maximize)
    try:
        got = contract.optimize(objective, maximize=maximize)
    except ValueError as e:
        got = "ValueError(%s)" % e
    ok = (expected == "unbounded" and got is None)
    print("G =", guarantees)
    print("   optimize(%r, maximize=%s): exact answer %s, library -> %s%s" % (objective, maximize, expected, got, "" if ok else "   <-- VIOLATION"))
    violations += 0 if ok else 1
print("violations:", violations)
sys.exit(1 if violations else 0)
