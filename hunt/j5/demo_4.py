"""C11 on compound contracts: NestedTermList.contains_behavior depends on the order of the disjuncts when a
constrained variable is left unassigned, and an empty list of disjuncts prints as "true" but contains nothing.
"""
import sys

from pacti.contracts import PolyhedralIoContractCompound
from pacti.iocontract import Var

x, y = Var("x"), Var("y")
violations = 0


def ask(nested, behaviour):
    try:
        return nested.contains_behavior(behaviour)
    except ValueError:
        return "ValueError"


c1 = PolyhedralIoContractCompound.from_strings([], [["x <= 0"], ["y <= 0"]], [], ["x", "y"])
c2 = PolyhedralIoContractCompound.from_strings([], [["y <= 0"], ["x <= 0"]], [], ["x", "y"])
b = {x: -1}  # y, which the guarantees constrain, has no value
r1, r2 = ask(c1.g, b), ask(c2.g, b)
print("guarantees (x <= 0) or (y <= 0), behaviour {x: -1}:", r1)
print("guarantees (y <= 0) or (x <= 0), behaviour {x: -1}:", r2)
print("constrained variables:", c1.g.vars, "- y is unassigned, a ValueError is documented")
if r1 != r2 or r1 != "ValueError":
    violations += 1
    print("VIOLATION: the same disjunction answers differently / does not raise for an unassigned variable")

c3 = PolyhedralIoContractCompound.from_strings([], [["x <= 0"]], [], ["x"])
print("assumptions of a compound contract without assumptions print as:", str(c3.a))
r3 = ask(c3.a, {x: -1})
print("   ... and contain the behaviour {x: -1}:", r3)
if str(c3.a) == "true" and r3 is not True:
    violations += 1
    print("VIOLATION: assumptions 'true' contain no behaviour")
sys.exit(1 if violations else 0)
