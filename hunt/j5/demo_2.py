"""C12: optimize() / get_variable_bounds() raise ValueError("Constraints are unfeasible") on contracts that
have behaviours.

The guarantees are consistent equalities with integer coefficients; an integer behaviour with |v| <= 1000
satisfies all of them exactly (checked here with rational arithmetic), and the exact optimum (z3, rationals) is
finite.  In the first contract the solver gives up (scipy status 4) and optimize() calls that "unfeasible"; in the
second one the solver, run with feasibility tolerance 1e-10, answers "infeasible" with and without presolve.
"""
import sys
import warnings
from fractions import Fraction

import z3

from pacti.contracts import PolyhedralIoContract
from pacti.iocontract import Var

warnings.filterwarnings("ignore")

CASES = [
    (
        [
            "-11x + 36y - 58z = 10024",
            "87x - 87y - 70z = -1158",
            "-77x + 56y + 6z = 9544",
            "-89x - 28y + 100z = -2372",
            "58x + 47y - 94z = 5698",
        ],
        ["x"],
        ["y", "z"],
        {"x": -140, "y": -6, "z": -150},
    ),
    (
        ["482x - 872y = 1198800", "-747x - 393y = -150105", "-290x + 38y = -244842"],
        ["x"],
        ["y"],
        {"x": 716, "y": -979},
    ),
]


def exact_optimum(terms, names, name, maximize):
    zs = {n: z3.Real(n) for n in names}
    opt = z3.Optimize()
    for t in terms:
        opt.add(
            z3.Sum([z3.RealVal(str(Fraction(c))) * zs[v.name] for v, c in t.variables.items()])
            <= z3.RealVal(str(Fraction(t.constant)))
        )
    h = opt.maximize(zs[name]) if maximize else opt.minimize(zs[name])
    assert opt.check() == z3.sat
    return Fraction(str(opt.upper(h) if maximize else opt.lower(h)))


violations = 0
for guarantees, ins, outs, point in CASES:
    print("guarantees:", guarantees)
    contract = PolyhedralIoContract.from_strings([], guarantees, ins, outs, simplify=False)
    terms = contract.a.terms + contract.g.terms
    exact_member = all(
        sum(Fraction(c) * point[v.name] for v, c in t.variables.items()) <= Fraction(t.constant) for t in terms
    )
    print("  behaviour", point, "satisfies assumptions and guarantees exactly:", exact_member)
    print("  library: g.contains_behavior ->", contract.g.contains_behavior({Var(n): v for n, v in point.items()}))
    for name in ins + outs:
        for maximize in (True, False):
            expected = exact_optimum(terms, ins + outs, name, maximize)
            try:
                got = contract.optimize(name, maximize=maximize)
            except ValueError as e:
                got = "ValueError(%s)" % e
            ok = isinstance(got, float) and abs(got - float(expected)) <= 1e-6 * max(1, abs(float(expected)))
            print(
                "  optimize(%s, maximize=%s): exact optimum %s, library -> %s%s"
                % (name, maximize, expected, got, "" if ok else "   <-- VIOLATION")
            )
            violations += 0 if ok else 1
    try:
        print("  get_variable_bounds('x') ->", contract.get_variable_bounds("x"))
    except ValueError as e:
        print("  get_variable_bounds('x') raised ValueError:", e, "  <-- VIOLATION (bounds are %s)" % point["x"])
        violations += 1
    # for information: the default constructor (simplify=True)
    try:
        PolyhedralIoContract.from_strings([], guarantees, ins, outs)
        print("  (constructor with simplify=True: accepted)")
    except ValueError as e:
        print("  (constructor with simplify=True raises ValueError: %s ...)" % str(e).split("\n")[0])
print("violations:", violations)
sys.exit(1 if violations else 0)
