"""C11: a constraint list that contains a behaviour (exactly, boundary included) is reported EMPTY.

Consistent systems of equalities with small integer coefficients (<= 100), satisfied by an integer point
with |v| <= 60.  PolyhedralTermList.is_empty() answers True, although contains_behavior() of the very same
list answers True for that point; as a consequence the list "refines" everything, also lists that do not
contain the point.
"""
import sys
import warnings
from fractions import Fraction

from pacti.contracts import PolyhedralIoContract
from pacti.iocontract import Var
from pacti.terms.polyhedra import PolyhedralTerm, PolyhedralTermList

warnings.filterwarnings("ignore")

CASES = [
    # (constraints, variables, behaviour)
    (["68x - 38y = 2180", "3x + 67y = 3530", "54x - 30y = 1740"], ["x", "y"], {"x": 60, "y": 50}),
    (
        [
            "-18x - 23y + 7z - 4w = 231",
            "11x - 27y - 8z + 28w = -1789",
            "-27x - 3y - 8z + 5w = 232",
            "-5x - 15y - 26z + 25w = -1508",
            "17x + 17y + 30z - 28w = 1451",
        ],
        ["x", "y", "z", "w"],
        {"x": -23, "y": 20, "z": 23, "w": -29},
    ),
    (["22x - 15y = 13880", "29x - 10y = 21365", "-28x + 19y = -17694"], ["x", "y"], {"x": 845, "y": 314}),
]

violations = 0
for strings, names, point in CASES:
    contract = PolyhedralIoContract.from_strings([], strings, [], names, simplify=False)
    tl = contract.g
    behaviour = {Var(n): v for n, v in point.items()}
    # exact check, rational arithmetic on the stored float coefficients
    exact = all(
        sum(Fraction(c) * Fraction(point[v.name]) for v, c in t.variables.items()) <= Fraction(t.constant)
        for t in tl.terms
    )
    contained = tl.contains_behavior(behaviour)
    empty = tl.is_empty()
    print("constraints:", strings)
    print("  behaviour", point, "satisfies every inequality exactly:", exact)
    print("  contains_behavior ->", contained, "   is_empty ->", empty)
    if exact and contained and empty:
        violations += 1
        print("  VIOLATION: the list contains a behaviour and is reported empty")
    # consequence for refinement: an 'empty' list refines anything
    first = Var(names[0])
    sign = 1 if point[names[0]] > 0 else -1
    other = PolyhedralTermList([PolyhedralTerm({first: sign}, 0)])  # sign * first <= 0, violated by the behaviour
    ref = tl.refines(other)
    in_other = other.contains_behavior(behaviour)
    print("  refines(%s) -> %s ; behaviour in that list -> %s" % (other.to_str_list(), ref, in_other))
    if ref and contained and not in_other:
        violations += 1
        print("  VIOLATION: behaviour is in the list, the list refines the other one, behaviour is not in the other")
    # the same object answers optimisation questions as if it were not empty
    try:
        print("  get_variable_bounds(%s) -> %s" % (names[0], contract.get_variable_bounds(names[0])))
    except ValueError as e:
        print("  get_variable_bounds raised", e)

print("violations:", violations)
sys.exit(1 if violations else 0)
