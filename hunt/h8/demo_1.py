"""C14 / C06: an AssertionError escapes from construction, rename, from_dict, quotient and compose.

Whenever the assumptions of the contract being built consist only of constraints whose coefficients
cancel (e.g. "x = x", or |x - y| <= 1 after x and y have been renamed into one variable) and the
guarantees mention no variable either, the constructor's simplification calls reduce_polytope with a
context matrix of shape (k, 0); reduce_polytope then fails on `assert len(b_help) == 0`.

All the inputs below are well formed and satisfiable; the only documented failures are
IncompatibleArgsError / ValueError / syntax errors.  The script exits with status 1 when an
undocumented exception type escapes.
"""
import sys

import pyparsing as pp

from pacti.contracts import PolyhedralIoContract
from pacti.iocontract import Var
from pacti.utils.errors import ContractFormatError

DOCUMENTED = (ValueError, ContractFormatError, pp.ParseBaseException)  # IncompatibleArgsError is a ValueError


def well_formed(c):
    return (
        len(set(c.inputvars)) == len(c.inputvars)
        and len(set(c.outputvars)) == len(c.outputvars)
        and not set(c.inputvars) & set(c.outputvars)
        and set(c.a.vars) <= set(c.inputvars)
        and set(c.g.vars) <= set(c.inputvars) | set(c.outputvars)
    )


def scenario_construct():
    # an assumption that is trivially true: x = x
    return PolyhedralIoContract.from_strings(["x = x"], [], ["x"], [])


def scenario_from_dict():
    return PolyhedralIoContract.from_dict(
        {
            "input_vars": ["x"],
            "output_vars": [],
            "assumptions": [{"constant": 1.0, "coefficients": {"x": 0.0}}],
            "guarantees": [],
        }
    )


def scenario_rename():
    # inputs x and y are assumed to be within 1 of each other; both are then connected to the same signal
    c = PolyhedralIoContract.from_strings(["|x - y| <= 1"], [], ["x", "y"], [])
    return c.rename_variable(Var("x"), Var("y"))


def scenario_quotient():
    top = PolyhedralIoContract.from_strings([], [], ["i"], ["o"])
    comp = PolyhedralIoContract.from_strings([], ["o - p <= 0", "p - o <= 2"], ["i"], ["o", "p"])
    return top.quotient(comp, simplify=False)


def scenario_compose():
    c1 = PolyhedralIoContract.from_strings([], ["2c <= 0", "-2c <= 0.5"], [], ["c"])
    c2 = PolyhedralIoContract.from_strings(["c = 0"], ["3c - d = 2"], ["c"], ["d"])
    return c1.compose_tactics(c2, tactics_order=[4])[0]


bad = 0
for scenario in (scenario_construct, scenario_from_dict, scenario_rename, scenario_quotient, scenario_compose):
    try:
        result = scenario()
    except DOCUMENTED as e:
        print(f"{scenario.__name__}: documented error {type(e).__name__}")
    except Exception as e:  # noqa: B902
        tb = e.__traceback__
        while tb.tb_next:
            tb = tb.tb_next
        print(
            f"{scenario.__name__}: UNDOCUMENTED {type(e).__name__} escaped from "
            f"{tb.tb_frame.f_code.co_filename.split('/')[-1]}:{tb.tb_lineno} ({tb.tb_frame.f_code.co_name})"
        )
        bad += 1
    else:
        ok = well_formed(result)
        print(f"{scenario.__name__}: returned a contract, well formed = {ok}")
        bad += 0 if ok else 1

if bad:
    print(f"VIOLATION: {bad} call(s) on well-formed input let an undocumented exception escape")
    sys.exit(1)
print("no violation")
