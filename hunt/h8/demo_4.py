"""C14 (empty constraint lists): get_variable_bounds / optimize on a contract without constraints.

A contract with no assumptions and no guarantees is satisfiable and every variable is unbounded, so
get_variable_bounds must return (None, None) (the documented answer for "unbounded").  The library
raises ValueError("Invalid input for linprog ...") coming from scipy's argument validation, i.e. neither
a result nor the documented reason for a ValueError (unsatisfiable / undecidable constraints).

Oracle: z3 shows the (empty) constraint system is satisfiable and x unbounded.  Exit status 1 on violation.
"""
import sys

import z3

from pacti.contracts import PolyhedralIoContract

c = PolyhedralIoContract.from_strings([], [], ["x"], ["y"])
print(c)
x = z3.Real("x")
s = z3.Solver()
s.add(x >= 1000000)  # no constraint of the contract to add: the list is empty
unbounded_above = s.check() == z3.sat
s = z3.Solver()
s.add(x <= -1000000)
unbounded_below = s.check() == z3.sat
print("z3: satisfiable and x unbounded in both directions:", unbounded_above and unbounded_below)
try:
    bounds = c.get_variable_bounds("x")
    print("library returned", bounds)
    ok = bounds == (None, None)
except ValueError as e:
    print("library raised ValueError:", " ".join(str(e).split())[:150])
    ok = False
if not ok:
    print("VIOLATION: expected (None, None)")
    sys.exit(1)
print("no violation")
