"""C14: a file entry whose "name" field is of the wrong kind is accepted.

read_contracts_from_file checks that "type", "name" and "data" are present, validates "type" and "data",
but never the kind of "name": a number, null, a list or a dictionary is returned as the contract's name
instead of being rejected with ContractFormatError / ValueError.  Exit status 1 on violation.
"""
import json
import os
import sys
import tempfile

from pacti.utils.errors import ContractFormatError
from pacti.utils.fileio import read_contracts_from_file

DATA = {
    "PolyhedralIoContract": {"input_vars": ["x"], "output_vars": ["y"], "assumptions": ["x <= 1"], "guarantees": ["y <= x"]},
    "PolyhedralIoContract_machine": {
        "input_vars": ["x"],
        "output_vars": ["y"],
        "assumptions": [{"constant": 1.0, "coefficients": {"x": 1.0}}],
        "guarantees": [{"constant": 0.0, "coefficients": {"y": 1.0, "x": -1.0}}],
    },
    "PolyhedralIoContractCompound": {
        "input_vars": ["x"],
        "output_vars": ["y"],
        "assumptions": [["x <= 1"], ["x >= 2"]],
        "guarantees": [["y <= x"]],
    },
}
violations = 0
for typ, data in DATA.items():
    for bad_name in (None, 7, 2.5, True, ["c"], {"k": "v"}):
        fd, fn = tempfile.mkstemp(suffix=".json")
        os.close(fd)
        with open(fn, "w") as f:
            json.dump([{"type": typ, "name": bad_name, "data": data}], f)
        try:
            contracts, names = read_contracts_from_file(fn)
            accepted = True
        except (ContractFormatError, ValueError):
            accepted = False
        finally:
            os.remove(fn)
        if accepted and not all(isinstance(n, str) for n in names):
            print(f"{typ}: name={bad_name!r} accepted, returned names={names!r}")
            violations += 1
# secondary: an unknown extra field in a string-form / compound entry escapes as TypeError
for typ in ("PolyhedralIoContract", "PolyhedralIoContractCompound", "PolyhedralIoContract_machine"):
    fd, fn = tempfile.mkstemp(suffix=".json")
    os.close(fd)
    with open(fn, "w") as f:
        json.dump([{"type": typ, "name": "c", "data": dict(DATA[typ], comment="hi")}], f)
    try:
        read_contracts_from_file(fn)
        print(f"{typ}: extra field 'comment' ignored")
    except (ContractFormatError, ValueError) as e:
        print(f"{typ}: extra field rejected with {type(e).__name__}")
    except Exception as e:  # noqa: B902
        print(f"{typ}: extra field 'comment' -> UNDOCUMENTED {type(e).__name__}: {e}")
        violations += 1
    finally:
        os.remove(fn)
if violations:
    print("VIOLATION: %d entries were accepted with a wrong-kind name or escaped with an undocumented exception" % violations)
    sys.exit(1)
print("no violation")
