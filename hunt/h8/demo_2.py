"""C06 / C14: satisfiable constraints are rejected as "unsatisfiable" when all their coefficients cancel.

Renaming output x into output y in a contract that guarantees |x - y| <= 1 must return the contract
with outputs [y] (the old name removed, since y is already an output) and a trivially true guarantee.
Instead rename_variable raises ValueError("The constraints ... are unsatisfiable").  The same
happens when such a contract is written directly (guarantee "x = x") and in quotient(simplify=False).

Oracle: z3 over the rationals decides whether assumptions and guarantees (after the renaming) are
satisfiable.  Exit status 1 when the library reports a satisfiable system as unsatisfiable.
"""
import sys
from fractions import Fraction

import z3

from pacti.contracts import PolyhedralIoContract
from pacti.iocontract import Var
from pacti.utils.errors import IncompatibleArgsError


def z3_satisfiable(termlists, renaming=None):
    renaming = renaming or {}
    solver = z3.Solver()
    for tl in termlists:
        for t in tl.terms:
            lhs = z3.RealVal(0)
            for v, c in t.variables.items():
                name = renaming.get(v.name, v.name)
                lhs = lhs + z3.RealVal(str(Fraction(c))) * z3.Real(name)
            solver.add(lhs <= z3.RealVal(str(Fraction(t.constant))))
    return solver.check() == z3.sat


violations = 0

# 1. rename: two outputs guaranteed to be within 1 of each other are mapped onto one name
c = PolyhedralIoContract.from_strings([], ["|x - y| <= 1"], [], ["x", "y"])
print("contract:\n%s" % c)
sat = z3_satisfiable([c.a, c.g], {"x": "y"})
print("z3: constraints after renaming x -> y satisfiable:", sat)
try:
    r = c.rename_variable(Var("x"), Var("y"))
    print("rename returned:\n%s" % r)
    if [v.name for v in r.inputvars] != [] or [v.name for v in r.outputvars] != ["y"]:
        print("wrong interface")
        violations += 1
except IncompatibleArgsError as e:
    print("IncompatibleArgsError:", e)
    violations += 1
except ValueError as e:
    print("rename_variable raised ValueError:", " ".join(str(e).split()))
    if sat:
        print("-> VIOLATION: satisfiable contract, legal renaming, but no contract is returned")
        violations += 1

# 2. direct construction
try:
    d = PolyhedralIoContract.from_strings([], ["x = x"], ["x"], [])
    print("construction returned:\n%s" % d)
except ValueError as e:
    print('from_strings([], ["x = x"], ["x"], []) raised ValueError:', " ".join(str(e).split()))
    print("-> VIOLATION: x = x is satisfiable")
    violations += 1

# 3. quotient with simplify=False
top = PolyhedralIoContract.from_strings(["b <= 5", "0.5b + 2f <= 4"], [], ["f", "b"], ["h"])
comp = PolyhedralIoContract.from_strings(["b <= 5", "0.5b + 2f <= 4"], ["-2b - d + 3f <= 0"], ["f", "b"], ["d"])
sat = z3_satisfiable([top.a, top.g, comp.a, comp.g])
try:
    q = top.quotient(comp, simplify=False)
    print("quotient returned:\n%s" % q)
except IncompatibleArgsError as e:
    print("quotient: IncompatibleArgsError", e)
except ValueError as e:
    print("quotient(simplify=False) raised ValueError:", " ".join(str(e).split()))
    if sat:
        print("-> VIOLATION: operands are jointly satisfiable (z3), the reported system '0 = 0' is not unsatisfiable")
        violations += 1

if violations:
    print("VIOLATIONS:", violations)
    sys.exit(1)
print("no violation")
