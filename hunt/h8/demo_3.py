"""C17: empty alternatives whose coefficients cancel are treated as non-empty.

(a) Two assumption alternatives that are both empty sets ("x + 1 <= x" and "x + 2 <= x") share no
    behaviour, yet the compound constructor rejects them with ValueError("... have nonempty intersection").
(b) Merging keeps an alternative that is the empty set instead of discarding it.

Root cause: PolyhedralTermList.is_empty / is_polytope_empty answers False whenever the constraint matrix
has no columns, without looking at the constants (0 <= -1 is infeasible).

Oracle: z3 over the rationals.  Exit status 1 on violation.
"""
import sys
from fractions import Fraction

import z3

from pacti.contracts import PolyhedralIoContractCompound
from pacti.terms.polyhedra import PolyhedralTermList
from pacti.terms.polyhedra.serializer import polyhedral_termlist_from_string


def z3_formula(tl):
    conj = [z3.BoolVal(True)]
    for t in tl.terms:
        lhs = z3.RealVal(0)
        for v, c in t.variables.items():
            lhs = lhs + z3.RealVal(str(Fraction(c))) * z3.Real(v.name)
        conj.append(lhs <= z3.RealVal(str(Fraction(t.constant))))
    return z3.And(conj)


def z3_sat(f):
    s = z3.Solver()
    s.add(f)
    return s.check() == z3.sat


violations = 0

# (a) overlap check
alt1, alt2 = ["x + 1 <= x"], ["x + 2 <= x"]
tl1 = PolyhedralTermList(polyhedral_termlist_from_string(alt1[0]))
tl2 = PolyhedralTermList(polyhedral_termlist_from_string(alt2[0]))
share = z3_sat(z3.And(z3_formula(tl1), z3_formula(tl2)))
print("alternatives", alt1, "and", alt2, "- z3: they share a behaviour:", share)
try:
    c = PolyhedralIoContractCompound.from_strings([alt1, alt2], [[]], ["x"], [])
    print("accepted")
    rejected = False
except ValueError as e:
    print("library: ValueError:", " ".join(str(e).split()))
    rejected = True
if rejected != share:
    print("-> VIOLATION: alternatives must be rejected exactly when they share a behaviour")
    violations += 1

# (b) merge keeps an empty alternative
c1 = PolyhedralIoContractCompound.from_strings([["x + 1 <= x"], ["x >= 5"]], [[]], ["x"], [])
c2 = PolyhedralIoContractCompound.from_strings([["x + 1 <= x"], ["x <= 7"]], [[]], ["x"], [])
m = c1.merge(c2)
print("merged assumptions:")
print(m.a)
for alt in m.a.nested_termlist:
    if not z3_sat(z3_formula(alt)):
        print("-> VIOLATION: merged contract keeps the empty alternative", " ".join(str(alt).split()),
              "(library is_empty() =", alt.is_empty(), ")")
        violations += 1

if violations:
    print("VIOLATIONS:", violations)
    sys.exit(1)
print("no violation")
