"""C14: PolyhedralTerm.get_polarity / get_sign raise KeyError for a variable whose coefficient is zero.

The docstrings say: get_polarity: "If the variable's coefficient in the term is zero, return True";
get_sign: "0 has +1 sign".  A zero coefficient is never stored (the constructor drops it), so asking about
such a variable indexes the coefficient dictionary with a missing key.
"""
import sys
import pacti
from pacti.iocontract import Var
from pacti.terms.polyhedra import PolyhedralTerm

print("pacti from", pacti.__file__)
x, y, z = Var("x"), Var("y"), Var("z")
term = PolyhedralTerm({x: -2, y: 3, z: 0}, 4)  # -2x + 3y + 0z <= 4
print("term:", term, " coefficient of z:", term.get_coefficient(z))
bad = 0
for name, call, expected in (
    ("get_polarity(z, True)", lambda: term.get_polarity(z, True), True),
    ("get_polarity(z, False)", lambda: term.get_polarity(z, False), True),
    ("get_sign(z)", lambda: term.get_sign(z), 1),
):
    try:
        got = call()
        ok = got == expected
        print(f"{name}: returned {got!r} (documented: {expected!r})")
        bad += 0 if ok else 1
    except ValueError as e:
        print(f"{name}: documented error {type(e).__name__}")
    except Exception as e:  # noqa
        bad += 1
        print(f"{name}: UNDOCUMENTED {type(e).__name__}: {e!r} (documented result: {expected!r})")
if bad:
    print("VIOLATION of C14")
    sys.exit(1)
print("no violation")
