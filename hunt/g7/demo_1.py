"""C14: a TypeError escapes from compose()/quotient() when a variable name contains ':' ',' or a blank.

Var() and the dictionary/JSON representation accept any string as a variable name.  The elimination tactics
hand the names to sympy.symbols(), which reads ':' as a range, and ',' / ' ' as separators, and returns a
tuple of symbols; multiplying that tuple by a float raises TypeError, which none of the tactic dispatchers
catches (they only absorb ValueError).
"""
import sys
import pacti
from pacti.contracts import PolyhedralIoContract

print("pacti from", pacti.__file__)


def pair(mid):
    c1 = PolyhedralIoContract.from_dict(
        {
            "input_vars": ["i"],
            "output_vars": [mid],
            "assumptions": [{"constant": 1, "coefficients": {"i": 1}}],  # i <= 1
            "guarantees": [{"constant": 0, "coefficients": {mid: 1, "i": -1}}],  # mid <= i
        }
    )
    c2 = PolyhedralIoContract.from_dict(
        {
            "input_vars": [mid],
            "output_vars": ["o"],
            "assumptions": [{"constant": 2, "coefficients": {mid: 1}}],  # mid <= 2
            "guarantees": [{"constant": 0, "coefficients": {"o": 1, mid: -1}}],  # o <= mid
        }
    )
    top = PolyhedralIoContract.from_dict(
        {
            "input_vars": ["i"],
            "output_vars": ["o"],
            "assumptions": [{"constant": 1, "coefficients": {"i": 1}}],  # i <= 1
            "guarantees": [{"constant": 0, "coefficients": {"o": 1, "i": -1}}],  # o <= i
        }
    )
    return c1, c2, top


bad = 0
for mid in ["m", "bus:v", "x:1", "room temp", "a,b"]:
    c1, c2, top = pair(mid)
    for label, op in (("compose", lambda: c1.compose(c2)), ("quotient", lambda: top.quotient(c1))):
        try:
            res = op()
            print(f"{mid!r:12} {label:9}: ok  A={[str(t) for t in res.a.terms]} G={[str(t) for t in res.g.terms]}")
        except ValueError as e:  # IncompatibleArgsError is a ValueError: documented failures
            print(f"{mid!r:12} {label:9}: documented error {type(e).__name__}")
        except Exception as e:  # noqa
            bad += 1
            print(f"{mid!r:12} {label:9}: UNDOCUMENTED {type(e).__name__}: {e}")

if bad:
    print("VIOLATION of C14: %d calls on well-formed contracts ended in an exception that is not a documented error" % bad)
    sys.exit(1)
print("no violation")
