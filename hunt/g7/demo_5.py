"""C14 (minor): plot_guarantees() fails with AssertionError when the two transforms are given but an optional label is
left at its default (None), or number_of_points is 0.  The docstring promises ValueError for arguments that fail the
sanity checks; the checks are bare `assert` statements (plots.py lines 144-146).
"""
import sys

import matplotlib

matplotlib.use("Agg")
import pacti  # noqa: E402
from pacti.contracts import PolyhedralIoContract  # noqa: E402
from pacti.utils.plots import plot_guarantees  # noqa: E402

print("pacti from", pacti.__file__)
c = PolyhedralIoContract.from_strings(["0 <= i <= 2"], ["o <= 2 i", "o >= i"], ["i"], ["o"])
bad = 0
cases = {
    "labels given (reference)": dict(new_x_var="s", new_y_var="d"),
    "labels omitted": dict(),
    "only new_x_var given": dict(new_x_var="s"),
    "number_of_points=0": dict(new_x_var="s", new_y_var="d", number_of_points=0),
}
for label, kw in cases.items():
    try:
        fig = plot_guarantees(
            c, "i", "o", {}, (0, 2), (0, 4), x_transform=lambda x, y: x + y, y_transform=lambda x, y: y - x, show=False, **kw
        )
        print(f"{label}: figure with {len(fig.axes)} axes")
    except ValueError as e:
        print(f"{label}: documented error ValueError: {e}")
    except Exception as e:  # noqa
        bad += 1
        print(f"{label}: UNDOCUMENTED {type(e).__name__}")
if bad:
    print("VIOLATION of C14: AssertionError escaped")
    sys.exit(1)
print("no violation")
