"""C14: compose() (default options) ends in TypeError when the LP of elimination tactic 2 is not solved to optimality.

_tactic_2 only tests the LP status for 2 (infeasible) and 3 (unbounded); any other non-optimal status (here HiGHS
"model_status is Unknown; primal_status is Feasible", reported by scipy as status 4 for an LP that is in fact
unbounded) falls through to `polarity * res["fun"]` with res["fun"] = None.  The dispatcher only absorbs ValueError,
so the TypeError escapes from compose().  All coefficients have one decimal and lie between 0.2 and 52.3.
"""
import sys
import warnings

import pacti
from pacti.contracts import PolyhedralIoContract

warnings.simplefilter("ignore")
print("pacti from", pacti.__file__)

c1 = PolyhedralIoContract.from_strings(
    assumptions=[],
    guarantees=[
        "6.8 m0 + 0.5 m2 <= 1.2",
        "-11.9 m0 + 15.4 m1 + 49 m2 + 22 m3 <= 0.3",
        "-0.5 m0 + 25 m1 - 3.1 m3 <= 0",
        "-13.3 m0 - 0.2 m1 - 14.1 m3 <= 2.6",
        "-44.5 m0 + 4.2 m1 - 0.4 m2 <= 0.2",
        "-2.2 m1 - 7.8 m2 + 0.6 m3 <= 52.3",
        "0.5 m0 + 0.5 m1 - 3.4 m2 - 3 m3 <= 0",
    ],
    input_vars=[],
    output_vars=["m0", "m1", "m2", "m3"],
)
c2 = PolyhedralIoContract.from_strings(
    assumptions=[],
    guarantees=["o - 5.8 m0 + 0.4 m1 + 0.1 m3 <= 0"],
    input_vars=["m0", "m1", "m2", "m3"],
    output_vars=["o"],
)
# the operands are sane: c1's guarantees are satisfiable (e.g. the origin shifted a little) and nothing is empty
print("c1.g empty:", c1.g.is_empty(), " c2.g empty:", c2.g.is_empty())
bad = 0
for first, second, label in ((c1, c2, "c1.compose(c2)"), (c2, c1, "c2.compose(c1)")):
    for simplify in (True, False):
        try:
            res = first.compose(second, simplify=simplify)
            print(f"{label} simplify={simplify}: returned a contract with guarantees {[str(t) for t in res.g.terms]}")
        except ValueError as e:  # includes IncompatibleArgsError
            print(f"{label} simplify={simplify}: documented error {type(e).__name__}")
        except Exception as e:  # noqa
            bad += 1
            print(f"{label} simplify={simplify}: UNDOCUMENTED {type(e).__name__}: {e}")
# operands must remain usable
print("operands still usable:", c1.g.is_empty() is False and c2.refines(c2))
if bad:
    print("VIOLATION of C14: an exception that is not a documented error escaped from compose()")
    sys.exit(1)
print("no violation")
