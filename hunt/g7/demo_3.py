"""C14 (remaining problem with constraints WITHOUT variables): such a constraint is written as the string ' <= c',
which the library's own reader rejects with a syntax error.

A constraint whose coefficients cancel ('i - i <= 1', or a machine-form clause with "coefficients": {}) is legal and
is kept in the assumptions (the constructor only simplifies the guarantees).  to_dict() / write_contracts_to_file()
then emit ' <= 1' for it, so the user-readable form of a perfectly satisfiable contract cannot be read back:
from_strings(**c.to_dict()) and read_contracts_from_file() raise PolyhedralSyntaxException on the library's own output.
"""
import os
import sys
import tempfile

import pyparsing as pp

import pacti
from pacti.contracts import PolyhedralIoContract
from pacti.utils.fileio import read_contracts_from_file, write_contracts_to_file

print("pacti from", pacti.__file__)
c = PolyhedralIoContract.from_strings(
    assumptions=["i - i <= 1", "i <= 5"], guarantees=["o <= i"], input_vars=["i"], output_vars=["o"]
)
print("contract:\n", c)
d = c.to_dict()
print("to_dict():", d)
bad = 0
# semantic check of to_dict: every emitted string must be a constraint the library can parse, and the contract read
# back must be equivalent (same interface, a and g mutually refining)
try:
    back = PolyhedralIoContract.from_strings(**d)
    same = back.refines(c) and c.refines(back)
    print("read back from to_dict(): equivalent =", same)
    bad += 0 if same else 1
except pp.ParseBaseException as e:
    bad += 1
    print("from_strings(**c.to_dict()) raised", type(e).__name__, "on the library's own output:", str(e).splitlines()[1:4])
fn = os.path.join(tempfile.mkdtemp(), "c.json")
write_contracts_to_file([c], ["c"], fn, machine_representation=False)
try:
    cs, names = read_contracts_from_file(fn)
    same = cs[0].refines(c) and c.refines(cs[0])
    print("file round trip: equivalent =", same)
    bad += 0 if same else 1
except pp.ParseBaseException as e:
    bad += 1
    print("read_contracts_from_file raised", type(e).__name__, "on a file written by write_contracts_to_file")
# the machine form of the same contract is fine, which shows the contract itself is legal
write_contracts_to_file([c], ["c"], fn, machine_representation=True)
cs, names = read_contracts_from_file(fn)
print("machine-form round trip ok:", cs[0].refines(c) and c.refines(cs[0]))
if bad:
    print("VIOLATION: to_dict()/write produce a constraint string that is not a constraint")
    sys.exit(1)
print("no violation")
