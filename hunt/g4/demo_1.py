"""C16: renaming an absent variable, a variable to itself, or a variable to a fresh name must not fail.

The contract below is legal: the constructor accepts it (simplify=False), copy() returns it, and it has a
well defined meaning (its guarantees cannot be met together with its assumptions).  C16 says that renaming
an absent variable changes nothing, that source == target changes nothing, and that renaming to a fresh name
yields the substituted contract.  IoContract.rename_variable rebuilds the result through the constructor with
the default simplify=True (iocontract.py line 507), which re-simplifies the guarantees and raises ValueError.

Run: PYTHONPATH=/tmp/wt-g4/src /venv/bin/python /tmp/wt-g4/demo_1.py   (exit status 1 = property violated)
"""
import sys
from fractions import Fraction

import z3

from pacti.contracts import PolyhedralIoContract
from pacti.iocontract import Var

ALL = ["x", "z", "w", "q", "r"]
ZV = {n: z3.Real(n) for n in ALL}


def formula(termlist, rename=None):
    """Exact z3 formula of a term list; `rename` = (source, target) applies the substitution on the fly."""
    conj = []
    for t in termlist.terms:
        lhs = z3.RealVal(0)
        for v, c in t.variables.items():
            name = v.name
            if rename and name == rename[0]:
                name = rename[1]
            lhs = lhs + z3.RealVal(str(Fraction(c))) * ZV[name]
        conj.append(lhs <= z3.RealVal(str(Fraction(t.constant))))
    return z3.And(conj + [z3.BoolVal(True)])


def equivalent(f, g):
    s = z3.Solver()
    s.add(z3.Xor(f, g))
    return s.check() == z3.unsat


c = PolyhedralIoContract.from_strings(
    assumptions=["x <= 1"],
    guarantees=["z <= x", "z >= 5", "x >= 3"],
    input_vars=["x"],
    output_vars=["z"],
    simplify=False,
)
print("contract accepted by the constructor:\n%s" % c)
print("copy() works and is equal:", c.copy() == c)

violations = 0
cases = [
    ("absent source", lambda: c.rename_variable(Var("q"), Var("r")), None, ["x"], ["z"]),
    ("source == target", lambda: c.rename_variable(Var("x"), Var("x")), None, ["x"], ["z"]),
    ("fresh target", lambda: c.rename_variable(Var("x"), Var("w")), ("x", "w"), ["w"], ["z"]),
    ("rename_variables, absent source", lambda: c.rename_variables([("q", "r")]), None, ["x"], ["z"]),
    ("rename_variables, fresh and back", lambda: c.rename_variables([("x", "w"), ("w", "x")]), None, ["x"], ["z"]),
]
for label, call, subst, exp_in, exp_out in cases:
    try:
        r = call()
    except Exception as e:  # noqa: BLE001
        violations += 1
        print("VIOLATION [%s]: raised %s: %s" % (label, type(e).__name__, str(e).replace("\n", " ")[:110]))
        continue
    exp_a = formula(c.a, subst)
    exp_ag = z3.And(exp_a, formula(c.g, subst))
    ok = (
        [v.name for v in r.inputvars] == exp_in
        and [v.name for v in r.outputvars] == exp_out
        and equivalent(exp_a, formula(r.a))
        and equivalent(exp_ag, z3.And(formula(r.a), formula(r.g)))
    )
    print("[%s] returned a contract; faithful substitution: %s" % (label, ok))
    if not ok:
        violations += 1

print("violations:", violations)
sys.exit(1 if violations else 0)
