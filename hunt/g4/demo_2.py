"""C16: renaming a variable onto an existing variable of the same side must yield the substituted contract.

All contracts below are built with the default simplification and are perfectly ordinary (satisfiable
assumptions, satisfiable guarantees).  Renaming one input onto another input (or one output onto another output)
is a case C16 lists explicitly ("target an existing input", "target an existing output": the name is removed on
that side and the coefficients are added).  When the merged constraints happen to contradict each other the
substituted contract is still a well defined contract (one whose assumptions, or guarantees, admit no behaviour),
but IoContract.rename_variable raises ValueError, because it rebuilds the result through the constructor with
simplify=True (iocontract.py line 507) and the simplification refuses unsatisfiable systems.  The same renaming
succeeds when the contract has no guarantee, so the outcome depends on which side the contradiction sits.

Run: PYTHONPATH=/tmp/wt-g4/src /venv/bin/python /tmp/wt-g4/demo_2.py   (exit status 1 = property violated)
"""
import sys
from fractions import Fraction

import z3

from pacti.contracts import PolyhedralIoContract
from pacti.iocontract import Var

ALL = ["x", "y", "z", "p", "q"]
ZV = {n: z3.Real(n) for n in ALL}


def formula(termlist, rename=None):
    conj = []
    for t in termlist.terms:
        lhs = z3.RealVal(0)
        for v, c in t.variables.items():
            name = rename[1] if rename and v.name == rename[0] else v.name
            lhs = lhs + z3.RealVal(str(Fraction(c))) * ZV[name]
        conj.append(lhs <= z3.RealVal(str(Fraction(t.constant))))
    return z3.And(conj + [z3.BoolVal(True)])


def equivalent(f, g):
    s = z3.Solver()
    s.add(z3.Xor(f, g))
    return s.check() == z3.unsat


cases = [
    (
        "two inputs merged, assumptions become contradictory",
        PolyhedralIoContract.from_strings(["x <= 1", "y >= 2"], ["z <= x + y"], ["x", "y"], ["z"]),
        ("x", "y"),
        ["y"],
        ["z"],
    ),
    (
        "same renaming, contract without guarantees (control: this one works)",
        PolyhedralIoContract.from_strings(["x <= 1", "y >= 2"], [], ["x", "y"], ["z"]),
        ("x", "y"),
        ["y"],
        ["z"],
    ),
    (
        "two outputs merged, guarantees become contradictory by a margin of 3",
        PolyhedralIoContract.from_strings(["x >= 0"], ["p <= x", "q >= x + 3"], ["x"], ["p", "q"]),
        ("p", "q"),
        ["x"],
        ["q"],
    ),
    (
        "same, margin of 1 (control: this one works, the simplification relaxes each row by 1 before deciding)",
        PolyhedralIoContract.from_strings(["x >= 0"], ["p <= x", "q >= x + 1"], ["x"], ["p", "q"]),
        ("p", "q"),
        ["x"],
        ["q"],
    ),
    (
        "two outputs merged, coefficients cancel to 0 <= -1",
        PolyhedralIoContract.from_strings(["x >= 0"], ["p - q <= -1", "q <= x"], ["x"], ["p", "q"]),
        ("p", "q"),
        ["x"],
        ["q"],
    ),
]

violations = 0
for label, c, (src, tgt), exp_in, exp_out in cases:
    print("---- %s: rename %s -> %s in\n%s" % (label, src, tgt, c))
    try:
        r = c.rename_variable(Var(src), Var(tgt))
    except Exception as e:  # noqa: BLE001
        violations += 1
        print("VIOLATION: raised %s: %s" % (type(e).__name__, str(e).replace("\n", " ")[:120]))
        continue
    exp_a = formula(c.a, (src, tgt))
    exp_ag = z3.And(exp_a, formula(c.g, (src, tgt)))
    ok = (
        [v.name for v in r.inputvars] == exp_in
        and [v.name for v in r.outputvars] == exp_out
        and equivalent(exp_a, formula(r.a))
        and equivalent(exp_ag, z3.And(formula(r.a), formula(r.g)))
    )
    print("returned\n%s\nfaithful substitution: %s" % (r, ok))
    if not ok:
        violations += 1

print("violations:", violations)
sys.exit(1 if violations else 0)
