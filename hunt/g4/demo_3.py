"""C16: a renaming that adds coefficients loses a guarantee (well scaled data, error 3e-2 inside the box |v| <= 1000).

The contract has inputs x, u, output y and four guarantees with ordinary coefficients (1 .. 300):

    -2.00003 x - u - 300 y <= 20      (g1)
    -300 x + 5 y           <= 1       (g2)
    -3 x - 300 y           <= 20      (g3)
    10 y                   <= 0       (g4)

Renaming u -> x (target an existing input; coefficients are added) must give the contract over x, y with
g1' = -3.00003 x - 300 y <= 20 together with g2, g3, g4.  g3 is NOT implied by the others: for x > 0 it is stronger
than g1' by 3e-5 * x, i.e. by 0.03 at x = 1000.  IoContract.rename_variable rebuilds the result with simplify=True
(iocontract.py line 507); reduce_polytope (polyhedra.py lines 1083-1090) asks HiGHS for max(-3x - 300y) over the other
rows, HiGHS stops at a vertex whose reduced cost (3e-5 against coefficients of 300) is within its default dual tolerance
and reports 19.99999987 instead of 21, and the row is dropped as redundant without any check of the answer.
No coefficient is small and the coefficients span two orders of magnitude only.

Run: PYTHONPATH=/tmp/wt-g4/src /venv/bin/python /tmp/wt-g4/demo_3.py   (exit status 1 = property violated)
"""
import sys
from fractions import Fraction

import z3

from pacti.contracts import PolyhedralIoContract
from pacti.iocontract import Var

ZV = {n: z3.Real(n) for n in ["x", "u", "y"]}
SLACK = Fraction(1, 10**6)  # far above the 1e-7 slack of the numerical reading
BOX = 1000


def rows(termlist, rename=None):
    out = []
    for t in termlist.terms:
        lhs = z3.RealVal(0)
        for v, c in t.variables.items():
            name = rename[1] if rename and v.name == rename[0] else v.name
            lhs = lhs + z3.RealVal(str(Fraction(c))) * ZV[name]
        out.append((lhs, z3.RealVal(str(Fraction(t.constant))), t))
    return out


c = PolyhedralIoContract.from_strings(
    assumptions=[],
    guarantees=["-2.00003 x - u - 300 y <= 20", "-300 x + 5 y <= 1", "-3 x - 300 y <= 20", "10 y <= 0"],
    input_vars=["x", "u"],
    output_vars=["y"],
)
print("original contract (all four guarantees are kept by the constructor: %s)\n%s" % (len(c.g.terms) == 4, c))
r = c.rename_variable(Var("u"), Var("x"))
print("\nafter rename u -> x the library returns\n%s" % r)
print("guarantee terms returned:", [(dict((v.name, k) for v, k in t.variables.items()), t.constant) for t in r.g.terms])

# Exact check: is there a behaviour in the box that satisfies the returned A and G but violates a substituted row?
violations = 0
box = [z3.And(ZV[n] <= BOX, ZV[n] >= -BOX) for n in ["x", "y"]]
returned = [lhs <= rhs for lhs, rhs, _ in rows(r.a) + rows(r.g)]
for lhs, rhs, term in rows(c.g, ("u", "x")):
    opt = z3.Optimize()
    opt.add(box + returned)
    h = opt.maximize(lhs - rhs)
    assert opt.check() == z3.sat
    worst = Fraction(str(opt.upper(h)))
    if worst > SLACK:
        violations += 1
        m = opt.model()
        print(
            "VIOLATION: substituted guarantee of [%s] exceeded by %.6g at x=%s y=%s, a behaviour the returned contract accepts"
            % (term, float(worst), m[ZV["x"]], m[ZV["y"]].as_decimal(6))
        )

# the same thing with the library's own membership test, on a round witness
witness_renamed = {Var("x"): 1000, Var("y"): -10.0667}
witness_original = {Var("x"): 1000, Var("u"): 1000, Var("y"): -10.0667}  # the correspondingly renamed behaviour (u = x)
acc_new = (r.a | r.g).contains_behavior(witness_renamed)
acc_old = (c.a | c.g).contains_behavior(witness_original)
print("behaviour x=u=1000, y=-10.0667: original A and G hold: %s; renamed A and G hold: %s" % (acc_old, acc_new))
print("   (-3*1000 - 300*(-10.0667) = %.4f > 20)" % (-3 * 1000 - 300 * (-10.0667)))
if acc_new != acc_old:
    violations += 1

print("violations:", violations)
sys.exit(1 if violations else 0)
