"""C04: tactic 3 silently loses a kept variable that is named "_".

Tactic 3 introduces an auxiliary variable with the hard-coded name "_" (polyhedra.py, _tactic_3) without
checking that the name is free.  Var("_") is a legal variable (Var takes any string, from_dict accepts it).
If the term being transformed has a *kept* variable called "_", `new_term.variables[Var("_")] = 1` overwrites its
coefficient and the auxiliary variable is then eliminated: the user's variable vanishes from the result.
This happens with tactics_order=[3] and also with the default order (tactics 1 and 2 decline on this input).

  refine  {y + z + _ + x <= 3}  in context {y + z - w <= 1}, eliminate y, z
      library : w + x <= 2            (correct would be  w + x + _ <= 2)
  relax   {-y - z + _ + x <= 3} in the same context
      library : -w + x <= 4           (correct would be -w + x + _ <= 4)
"""
import sys
from fractions import Fraction

import z3

from pacti.iocontract import Var
from pacti.terms.polyhedra import PolyhedralTerm, PolyhedralTermList


def q(x):
    f = Fraction(float(x))
    return z3.RealVal(str(f.numerator)) / z3.RealVal(str(f.denominator))


def counterexample(hyps, concl):
    """point of the box |v|<=1000 satisfying all hyps and breaking a term of concl by > 1e-4*(1+|const|)"""
    names = {v.name for tl in hyps + [concl] for t in tl.terms for v in t.vars}
    zv = {n: z3.Real("v_" + n) for n in names}
    s = z3.Solver()
    for x in zv.values():
        s.add(x >= -1000, x <= 1000)
    for tl in hyps:
        for t in tl.terms:
            s.add(sum((q(c) * zv[v.name] for v, c in t.variables.items()), z3.RealVal(0)) <= q(t.constant))
    for t in concl.terms:
        s.push()
        tol = 1e-4 * (1 + abs(t.constant))
        s.add(sum((q(c) * zv[v.name] for v, c in t.variables.items()), z3.RealVal(0)) > q(t.constant) + q(tol))
        if s.check() == z3.sat:
            m = s.model()
            return t, {n: m.eval(x, model_completion=True) for n, x in zv.items()}
        s.pop()
    return None


x, y, z, w, u = Var("x"), Var("y"), Var("z"), Var("w"), Var("_")
ctx = PolyhedralTermList([PolyhedralTerm({y: 1, z: 1, w: -1}, 1)])
violations = 0

terms = PolyhedralTermList([PolyhedralTerm({y: 1, z: 1, u: 1, x: 1}, 3)])
for order in (None, [3]):
    for simplify in (True, False):
        res, stats = terms.elim_vars_by_refining(ctx, [y, z], simplify=simplify, tactics_order=order)
        cex = counterexample([res, ctx], terms)
        print("refine order=%s simplify=%s -> %s (tactic %s)" % (order, simplify, [str(t) for t in res.terms], stats[0][0]))
        if cex:
            print("   VIOLATION: result & context do not imply", cex[0], "at", cex[1])
            violations += 1

terms = PolyhedralTermList([PolyhedralTerm({y: -1, z: -1, u: 1, x: 1}, 3)])
for order in (None, [3]):
    res, stats = terms.elim_vars_by_relaxing(ctx, [y, z], simplify=True, tactics_order=order)
    cex = counterexample([terms, ctx], res)
    print("relax  order=%s -> %s (tactic %s)" % (order, [str(t) for t in res.terms], stats[0][0]))
    if cex:
        print("   VIOLATION: terms & context do not imply", cex[0], "at", cex[1])
        violations += 1

# control: the same input with the kept variable called "k" is handled correctly
k = Var("k")
terms = PolyhedralTermList([PolyhedralTerm({y: 1, z: 1, k: 1, x: 1}, 3)])
res, _ = terms.elim_vars_by_refining(ctx, [y, z])
print("control (variable named k):", [str(t) for t in res.terms], "counterexample:", counterexample([res, ctx], terms))

print("violations:", violations)
sys.exit(1 if violations else 0)
