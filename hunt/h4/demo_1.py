"""C07: simplification of constraint lists that contain no variable at all.

A constraint whose variables cancel ("x - x <= 5", "0 <= 3", "y <= 2 + y") is a legal, trivially true
constraint; the string front end produces it happily.  A list made only of such constraints is feasible
(every point satisfies it), so simplify() must return the empty selection (nothing is needed) and must not
raise.  Instead:
  (a) two or more such constraints, no context        -> ValueError "unsatisfiable" (spurious)
  (b) such constraints in a context of the same kind  -> AssertionError (also when building a contract)
  (c) a single such constraint, no context            -> returned unchanged, i.e. a redundant constraint is left
"""
import sys

from pacti.contracts import PolyhedralIoContract
from pacti.iocontract import Var
from pacti.terms.polyhedra import PolyhedralTerm, PolyhedralTermList

violations = 0


def always_true(termlist):
    """A variable-free list '0 <= c_i' is satisfied by every point iff every c_i >= 0 (exact check)."""
    assert all(not t.vars for t in termlist.terms)
    return all(t.constant >= 0 for t in termlist.terms)


# the constraints as a user would write them
c = PolyhedralIoContract.from_strings(
    input_vars=["x"], output_vars=["y"], assumptions=[], guarantees=["x - x <= 5", "y <= 3 + y"], simplify=False
)
g = c.g
print("guarantees parsed from 'x - x <= 5', 'y <= 3 + y':", [str(t) for t in g.terms])
assert always_true(g)  # feasible: every behaviour satisfies them

# (a) spurious ValueError
try:
    r = g.simplify()
    print("(a) simplify() ->", [str(t) for t in r.terms])
    if r.terms:
        print("    VIOLATION: redundant (always true) constraints left")
        violations += 1
except ValueError as e:
    print("(a) VIOLATION: simplify() of a feasible system raised ValueError:", str(e).splitlines()[0], "...")
    violations += 1

# the same thing through contract construction
try:
    PolyhedralIoContract.from_strings(
        input_vars=["x"], output_vars=["y"], assumptions=[], guarantees=["x - x <= 5", "y <= 3 + y"]
    )
    print("(a') contract built")
except ValueError as e:
    print("(a') VIOLATION: building the contract raised ValueError for feasible guarantees")
    violations += 1

# (b) AssertionError when the context is variable-free too
ctx = PolyhedralTermList([PolyhedralTerm({}, 1)])  # 0 <= 1
one = PolyhedralTermList([PolyhedralTerm({}, 5)])  # 0 <= 5
try:
    r = one.simplify(ctx)
    print("(b) simplify(ctx) ->", [str(t) for t in r.terms])
    if r.terms:
        violations += 1
except AssertionError:
    print("(b) VIOLATION: simplify('0 <= 5' in context '0 <= 1') raised AssertionError")
    violations += 1
except ValueError:
    print("(b) VIOLATION: spurious ValueError")
    violations += 1
try:
    PolyhedralIoContract.from_strings(
        input_vars=["x"], output_vars=["y"], assumptions=["x - x <= 1"], guarantees=["y - y <= 5"]
    )
    print("(b') contract built")
except AssertionError:
    print("(b') VIOLATION: building contract A=['x - x <= 1'] G=['y - y <= 5'] raised AssertionError")
    violations += 1

try:
    PolyhedralIoContract.from_strings(input_vars=["x"], output_vars=["y"], assumptions=["x - x <= 1"], guarantees=[])
    print("(b'') contract built")
except AssertionError:
    print("(b'') VIOLATION: building contract A=['x - x <= 1'] G=[] raised AssertionError")
    violations += 1

# (c) a redundant constraint is left
r = one.simplify()
print("(c) ['0 <= 5'].simplify() ->", [str(t) for t in r.terms])
if r.terms and always_true(r):
    print("    VIOLATION: the remaining constraint is implied by the empty list with margin 5: it is droppable")
    violations += 1

# sanity: as soon as one variable is around, the library does the right thing
mixed = PolyhedralTermList([PolyhedralTerm({}, 5), PolyhedralTerm({}, 3), PolyhedralTerm({Var("a"): 1}, 3)])
print("sanity: ['0<=5','0<=3','a<=3'].simplify() ->", [str(t) for t in mixed.simplify().terms])

print("violations:", violations)
sys.exit(1 if violations else 0)
