"""C15: compose(simplify=True) forgets a guarantee that only ONE operand gives.

The consumer c1 guarantees `p <= 0` by itself.  The producer c2 never mentions p, so this is
not the "term present in / implied by both operands" situation.  `p <= 0` happens to be redundant
with respect to c1's *other* guarantee (p <= y + y2, which mentions the internal variables y, y2)
taken together with c2's guarantees (which bound y, y2).  elim_vars_by_relaxing simplifies first
(dropping `p <= 0`), then relaxes `p <= y + y2` to the weaker `p <= z`, and the terms of c2 that
justified the simplification are dropped because y, y2 cannot be eliminated from them.

Run:  PYTHONPATH=/tmp/wt-h1/src /venv/bin/python /tmp/wt-h1/demo_1.py     (exit status 1 = violated)
"""
import sys
import warnings
from fractions import Fraction

import z3

from pacti.contracts import PolyhedralIoContract

warnings.filterwarnings("ignore")
BOX = 1000


def q(x):
    f = Fraction(float(x))
    return z3.RatVal(f.numerator, f.denominator)


def lhs(t, zv):
    return z3.Sum([q(c) * zv[v.name] for v, c in t.variables.items()] + [z3.RealVal(0)])


def holds(tl, zv):
    return z3.And([lhs(t, zv) <= q(t.constant) for t in tl.terms] + [z3.BoolVal(True)])


def violated(t, zv):
    tol = Fraction(1, 10000) * (1 + abs(Fraction(float(t.constant))))
    return lhs(t, zv) > q(t.constant) + z3.RatVal(tol.numerator, tol.denominator)


def witness_against(hyps, t, names):
    """A point of the box satisfying all hyps and breaking t by more than the tolerance (or None)."""
    zv = {n: z3.Real(n) for n in names}
    s = z3.Solver()
    s.add([z3.And(v >= -BOX, v <= BOX) for v in zv.values()])
    s.add([holds(h, zv) for h in hyps])
    s.add(violated(t, zv))
    if s.check() == z3.sat:
        m = s.model()
        return {n: float(Fraction(str(m.eval(v, model_completion=True)))) for n, v in zv.items()}
    return None


def forgotten_guarantees(a, b, c):
    """C15: guarantee terms of a / b over c's interface that c.a & c.g do not imply."""
    names = sorted({v.name for k in (a, b, c) for v in k.inputvars + k.outputvars})
    iface = {v.name for v in c.inputvars + c.outputvars}
    out = []
    for tag, k, other in (("c1", a, b), ("c2", b, a)):
        for t in k.g.terms:
            if {v.name for v in t.vars} <= iface:
                w = witness_against([c.a, c.g], t, names)
                if w is not None:
                    # is it the already-known situation (the other operand alone implies t)?
                    also_other = witness_against([other.a, other.g], t, names) is None
                    out.append((tag, t, w, also_other))
    return out


c1 = PolyhedralIoContract.from_strings(
    input_vars=["y", "y2"], output_vars=["p"], assumptions=[], guarantees=["p <= 0", "p - y - y2 <= 0"]
)
c2 = PolyhedralIoContract.from_strings(
    input_vars=[], output_vars=["y", "y2", "z"], assumptions=[], guarantees=["y - z <= 0", "y + z <= 0", "y2 <= 0"]
)
print("c1 (consumer):\n%s\n\nc2 (producer):\n%s\n" % (c1, c2))

status = 0
for label, fn in (
    ("c1.compose(c2)                       [defaults: simplify=True]", lambda: c1.compose(c2)),
    ("c2.compose(c1)                       [defaults: simplify=True]", lambda: c2.compose(c1)),
    ("c1.compose_tactics(c2, order=[1,2,3,4]) (tactic 5 excluded)", lambda: c1.compose_tactics(c2, tactics_order=[1, 2, 3, 4])[0]),
    ("c1.compose(c2, simplify=False)", lambda: c1.compose(c2, simplify=False)),
):
    comp = fn()
    print("----", label)
    print("   result inputs=%s outputs=%s" % ([v.name for v in comp.inputvars], [v.name for v in comp.outputvars]))
    print("   result A: %s" % [str(t) for t in comp.a.terms])
    print("   result G: %s" % [str(t) for t in comp.g.terms])
    lost = forgotten_guarantees(c1, c2, comp)
    if not lost:
        print("   C15 holds: every interface-level guarantee of the operands is implied by the result")
    for tag, t, w, also_other in lost:
        status = 1
        print("   C15 VIOLATED: guarantee `%s` of %s is not implied by the result" % (t, tag))
        print("      witness satisfying result A and G: %s" % w)
        print("      implied by the other operand alone (the already-known case)? %s" % also_other)
print("\nexit status", status)
sys.exit(status)
