"""C01: tactic 3 uses the hard-coded scratch variable Var("_") and silently erases a user variable named "_".

"_" is a legal variable name for Var / PolyhedralTerm / PolyhedralIoContract.from_dict (only the string
grammar of from_strings rejects it).  Here "_" is a top-level input of the consumer:

    producer:  inputs [x]           outputs [y1, y2]   G: y1 + y2 - x <= 0
    consumer:  inputs [y1, y2, _]   outputs [z]        G: z - y1 - y2 + 5*_ <= 0      (z <= y1 + y2 - 5*_)

Only the sum y1 + y2 is bounded, so the elimination of y1, y2 from the consumer's guarantee goes through
tactic 3, which does `new_term.variables[Var("_")] = 1` and thereby overwrites the coefficient 5 of the
user's "_".  The composition guarantees  z - x <= 0  instead of  z - x + 5*_ <= 0 : for _ < 0 the real
system allows z up to x - 5*_ > x.  (Renaming "_" to "u" gives the right answer.)

Run:  PYTHONPATH=/tmp/wt-h1/src /venv/bin/python /tmp/wt-h1/demo_4.py     (exit status 1 = violated)
"""
import sys
import warnings
from fractions import Fraction

import z3

from pacti.contracts import PolyhedralIoContract

warnings.filterwarnings("ignore")
BOX = 1000


def q(x):
    f = Fraction(float(x))
    return z3.RatVal(f.numerator, f.denominator)


def lhs(t, zv):
    return z3.Sum([q(c) * zv[v.name] for v, c in t.variables.items()] + [z3.RealVal(0)])


def holds(tl, zv, slack=0.0):
    return z3.And([lhs(t, zv) <= q(t.constant) + q(slack) for t in tl.terms] + [z3.BoolVal(True)])


def violated(t, zv):
    tol = Fraction(1, 10000) * (1 + abs(Fraction(float(t.constant))))
    return lhs(t, zv) > q(t.constant) + z3.RatVal(tol.numerator, tol.denominator)


def check_c01(a, b, c):
    names = sorted({v.name for k in (a, b, c) for v in k.inputvars + k.outputvars})
    zv = {n: z3.Real("v_" + n) for n in names}
    s = z3.Solver()
    s.add([z3.And(v >= -BOX, v <= BOX) for v in zv.values()])
    s.add(holds(c.a, zv))
    s.add(z3.Or(z3.Not(holds(a.a, zv, 1e-7)), holds(a.g, zv)))
    s.add(z3.Or(z3.Not(holds(b.a, zv, 1e-7)), holds(b.g, zv)))
    goals = [("assumption of operand 1", t) for t in a.a.terms]
    goals += [("assumption of operand 2", t) for t in b.a.terms]
    goals += [("guarantee of the result", t) for t in c.g.terms]
    for tag, t in goals:
        s.push()
        s.add(violated(t, zv))
        if s.check() == z3.sat:
            m = s.model()
            return tag, t, {n: float(Fraction(str(m.eval(v, model_completion=True)))) for n, v in zv.items()}
        s.pop()
    return None


def build(extra):
    producer = PolyhedralIoContract.from_dict(
        {
            "input_vars": ["x"],
            "output_vars": ["y1", "y2"],
            "assumptions": [],
            "guarantees": [{"coefficients": {"y1": 1, "y2": 1, "x": -1}, "constant": 0}],
        }
    )
    consumer = PolyhedralIoContract.from_dict(
        {
            "input_vars": ["y1", "y2", extra],
            "output_vars": ["z"],
            "assumptions": [],
            "guarantees": [{"coefficients": {"z": 1, "y1": -1, "y2": -1, extra: 5}, "constant": 0}],
        }
    )
    return producer, consumer


status = 0
for extra in ("_", "u"):
    producer, consumer = build(extra)
    print("==== third input of the consumer is named %r" % extra)
    print("producer G: %s" % [str(t) for t in producer.g.terms])
    print("consumer G: %s" % [str(t) for t in consumer.g.terms])
    for label, a, b, order in (
        ("producer.compose(consumer)", producer, consumer, None),
        ("consumer.compose(producer)", consumer, producer, None),
        ("producer.compose_tactics(consumer, tactics_order=[1,2,3,4])", producer, consumer, [1, 2, 3, 4]),
    ):
        if order is None:
            comp, used = a.compose(b), None
        else:
            comp, used = a.compose_tactics(b, tactics_order=order)
        print("----", label)
        print("   result inputs=%s outputs=%s" % ([v.name for v in comp.inputvars], [v.name for v in comp.outputvars]))
        print("   result G: %s" % [str(t) for t in comp.g.terms])
        if used is not None:
            print("   tactics used: %s" % [[u[0] for u in ul] for ul in used])
        r = check_c01(a, b, comp)
        if r is None:
            print("   C01 holds")
        else:
            status = 1
            print("   C01 VIOLATED: %s `%s` fails at %s" % r)
print("\nexit status", status)
sys.exit(status)
