"""C01 / C15: coefficients of magnitude <= 1e-9 are invisible to the simplifier.

reduce_polytope hands the raw rows to scipy's HiGHS, which treats every matrix entry with |a| <= 1e-9 as
zero (its `small_matrix_value`) and stops as soon as the reduced costs are below 1e-7.  A row whose
coefficients are that small is therefore always found "redundant", and a row that contains such a
coefficient is read as a different (stronger) constraint.

  (a) C01: the consumer assumes  1e-9*w <= 1e-8  (i.e. w <= 10; e.g. w measured in nano-units).
      compose() (simplify=True, default) returns assumptions that do not mention w at all, but still
      promises the consumer's guarantee z <= w.  With w = 111 the consumer's assumption is false, the
      consumer owes nothing, z = 112 is possible, and the result's guarantee is broken by 1.
  (b) C15: merge() of  {100000*z <= 0}  with  {0.00002*z - 0.000000001*w <= 0}  keeps only the second
      term (HiGHS reads it as z <= 0); at w = 1000 it allows z = 0.05, which breaks the first operand's
      guarantee 100000*z <= 0 by 5000.

Run:  PYTHONPATH=/tmp/wt-h1/src /venv/bin/python /tmp/wt-h1/demo_3.py     (exit status 1 = violated)
"""
import sys
import warnings
from fractions import Fraction

import z3

from pacti.contracts import PolyhedralIoContract

warnings.filterwarnings("ignore")
BOX = 1000


def q(x):
    f = Fraction(float(x))
    return z3.RatVal(f.numerator, f.denominator)


def lhs(t, zv):
    return z3.Sum([q(c) * zv[v.name] for v, c in t.variables.items()] + [z3.RealVal(0)])


def holds(tl, zv, slack=0.0):
    return z3.And([lhs(t, zv) <= q(t.constant) + q(slack) for t in tl.terms] + [z3.BoolVal(True)])


def violated(t, zv):
    tol = Fraction(1, 10000) * (1 + abs(Fraction(float(t.constant))))
    return lhs(t, zv) > q(t.constant) + z3.RatVal(tol.numerator, tol.denominator)


def model(s, zv):
    m = s.model()
    return {n: float(Fraction(str(m.eval(v, model_completion=True)))) for n, v in zv.items()}


def check_c01(a, b, c):
    names = sorted({v.name for k in (a, b, c) for v in k.inputvars + k.outputvars})
    zv = {n: z3.Real(n) for n in names}
    s = z3.Solver()
    s.add([z3.And(v >= -BOX, v <= BOX) for v in zv.values()])
    s.add(holds(c.a, zv))
    s.add(z3.Or(z3.Not(holds(a.a, zv, 1e-7)), holds(a.g, zv)))
    s.add(z3.Or(z3.Not(holds(b.a, zv, 1e-7)), holds(b.g, zv)))
    goals = [("assumption of operand 1", t) for t in a.a.terms]
    goals += [("assumption of operand 2", t) for t in b.a.terms]
    goals += [("guarantee of the result", t) for t in c.g.terms]
    for tag, t in goals:
        s.push()
        s.add(violated(t, zv))
        if s.check() == z3.sat:
            return tag, t, model(s, zv)
        s.pop()
    return None


def check_c15(a, b, c):
    names = sorted({v.name for k in (a, b, c) for v in k.inputvars + k.outputvars})
    iface = {v.name for v in c.inputvars + c.outputvars}
    for tag, k in (("operand 1", a), ("operand 2", b)):
        for t in k.g.terms:
            if {v.name for v in t.vars} <= iface:
                zv = {n: z3.Real(n) for n in names}
                s = z3.Solver()
                s.add([z3.And(v >= -BOX, v <= BOX) for v in zv.values()])
                s.add(holds(c.a, zv), holds(c.g, zv), violated(t, zv))
                if s.check() == z3.sat:
                    return tag, t, model(s, zv)
    return None


status = 0

print("==== (a) compose: an assumption with a 1e-9 coefficient disappears")
c1 = PolyhedralIoContract.from_strings(
    input_vars=["x"], output_vars=["p"], assumptions=["x <= 1"], guarantees=["p - x <= 0"]
)
for a2 in ("1e-9 w <= 1e-8", "1e-8 w <= 1e-7"):
    c2 = PolyhedralIoContract.from_strings(
        input_vars=["w"], output_vars=["z"], assumptions=[a2], guarantees=["z - w <= 0"]
    )
    for label, fn in (
        ("c1.compose(c2)", lambda: c1.compose(c2)),
        ("c2.compose(c1)", lambda: c2.compose(c1)),
        ("c1.compose(c2, simplify=False)", lambda: c1.compose(c2, simplify=False)),
    ):
        comp = fn()
        ops = (c2, c1) if label.startswith("c2") else (c1, c2)
        print("---- consumer assumes `%s`;  %s" % (a2, label))
        print("   result A: %s" % [str(t) for t in comp.a.terms])
        print("   result G: %s" % [str(t) for t in comp.g.terms])
        r = check_c01(ops[0], ops[1], comp)
        if r is None:
            print("   C01 holds")
        else:
            status = 1
            print("   C01 VIOLATED: %s `%s` fails at %s" % r)

print("\n==== (b) merge: a term containing a 1e-9 coefficient is read as a stronger one")
m1 = PolyhedralIoContract.from_strings(input_vars=["w"], output_vars=["z"], assumptions=[], guarantees=["100000 z <= 0"])
m2 = PolyhedralIoContract.from_strings(
    input_vars=["w"], output_vars=["z"], assumptions=[], guarantees=["0.00002 z - 0.000000001 w <= 0"]
)
for label, a, b in (("m1.merge(m2)", m1, m2), ("m2.merge(m1)", m2, m1)):
    mer = a.merge(b)
    print("----", label)
    print("   result G: %s" % [str(t) for t in mer.g.terms])
    r = check_c15(a, b, mer)
    if r is None:
        print("   C15 holds")
    else:
        status = 1
        print("   C15 VIOLATED: guarantee of %s `%s` is not implied by the result; witness %s" % r)

print("\nexit status", status)
sys.exit(status)
