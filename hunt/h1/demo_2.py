"""C01: tactic 2 turns an UNBOUNDED internal variable into a bound (unsound assumptions and guarantees).

The producer only promises y >= 1 (written `-20000 y <= -20000`); y has no upper bound.
  (a) the consumer guarantees  z <= 0.001*y     -> nothing can be said about z without y
  (b) the consumer assumes     x + 0.001*y <= 1 -> no assumption on x alone can ensure this
Both compositions must be refused (or return something weaker).  Instead tactic 2 asks linprog for
min(-0.001*y) / max(0.001*y) over {-20000 y <= -20000}; the LP is unbounded, but HiGHS answers
"optimal, y = 1" because the objective/constraint coefficient ratio (5e-8) is below its 1e-7 dual
tolerance, and tactic 2 uses that value:
  (a) result guarantees  z <= 0.001           (wrong by ~1 at y = 1000, inside the box)
  (b) result assumes only x <= 0.999          (x = 0.999, y = 1000 breaks the consumer's assumption by 0.999)
Tactic 5 is not involved (the same happens with tactics_order=[1,2,3,4] and [2]).

Run:  PYTHONPATH=/tmp/wt-h1/src /venv/bin/python /tmp/wt-h1/demo_2.py     (exit status 1 = violated)
"""
import sys
import warnings
from fractions import Fraction

import z3

from pacti.contracts import PolyhedralIoContract
from pacti.utils.errors import IncompatibleArgsError

warnings.filterwarnings("ignore")
BOX = 1000


def q(x):
    f = Fraction(float(x))
    return z3.RatVal(f.numerator, f.denominator)


def lhs(t, zv):
    return z3.Sum([q(c) * zv[v.name] for v, c in t.variables.items()] + [z3.RealVal(0)])


def holds(tl, zv, slack=0.0):
    return z3.And([lhs(t, zv) <= q(t.constant) + q(slack) for t in tl.terms] + [z3.BoolVal(True)])


def violated(t, zv):
    tol = Fraction(1, 10000) * (1 + abs(Fraction(float(t.constant))))
    return lhs(t, zv) > q(t.constant) + z3.RatVal(tol.numerator, tol.denominator)


def check_c01(a, b, c):
    """Look for a point of the box where c's assumptions hold, a and b honour their contracts
    (own assumptions granted a 1e-7 slack), and an assumption of a or b or a guarantee of c is broken
    by more than 1e-4*(1+|constant|)."""
    names = sorted({v.name for k in (a, b, c) for v in k.inputvars + k.outputvars})
    zv = {n: z3.Real(n) for n in names}
    s = z3.Solver()
    s.add([z3.And(v >= -BOX, v <= BOX) for v in zv.values()])
    s.add(holds(c.a, zv))
    s.add(z3.Or(z3.Not(holds(a.a, zv, 1e-7)), holds(a.g, zv)))
    s.add(z3.Or(z3.Not(holds(b.a, zv, 1e-7)), holds(b.g, zv)))
    goals = [("assumption of operand 1", t) for t in a.a.terms]
    goals += [("assumption of operand 2", t) for t in b.a.terms]
    goals += [("guarantee of the result", t) for t in c.g.terms]
    for tag, t in goals:
        s.push()
        s.add(violated(t, zv))
        if s.check() == z3.sat:
            m = s.model()
            return tag, t, {n: float(Fraction(str(m.eval(v, model_completion=True)))) for n, v in zv.items()}
        s.pop()
    return None


producer = PolyhedralIoContract.from_strings(
    input_vars=[], output_vars=["y"], assumptions=[], guarantees=["-20000 y <= -20000"]
)
consumer_g = PolyhedralIoContract.from_strings(
    input_vars=["y"], output_vars=["z"], assumptions=[], guarantees=["z - 0.001 y <= 0"]
)
consumer_a = PolyhedralIoContract.from_strings(
    input_vars=["y", "x"], output_vars=["z"], assumptions=["x + 0.001 y <= 1"], guarantees=["z - x <= 0"]
)
# control: same contracts, producer written with a smaller scale factor (ratio 1e-6 > 1e-7)
producer_ok = PolyhedralIoContract.from_strings(
    input_vars=[], output_vars=["y"], assumptions=[], guarantees=["-1000 y <= -1000"]
)

status = 0
runs = [
    ("(a) producer.compose(consumer_g)", producer, consumer_g, None),
    ("(a) consumer_g.compose(producer)", consumer_g, producer, None),
    ("(a) producer.compose_tactics(consumer_g, tactics_order=[1,2,3,4])", producer, consumer_g, [1, 2, 3, 4]),
    ("(b) producer.compose(consumer_a)", producer, consumer_a, None),
    ("(b) consumer_a.compose(producer)", consumer_a, producer, None),
    ("(b) producer.compose_tactics(consumer_a, tactics_order=[2])", producer, consumer_a, [2]),
    ("control (a) with producer `-1000 y <= -1000`", producer_ok, consumer_g, None),
    ("control (b) with producer `-1000 y <= -1000`", producer_ok, consumer_a, None),
]
for label, a, b, order in runs:
    print("----", label)
    try:
        if order is None:
            comp, used = a.compose(b), None
        else:
            comp, used = a.compose_tactics(b, tactics_order=order)
    except (IncompatibleArgsError, ValueError) as e:
        print("   refused (%s) -> fine" % type(e).__name__)
        continue
    print("   result A: %s" % [str(t) for t in comp.a.terms])
    print("   result G: %s" % [str(t) for t in comp.g.terms])
    if used is not None:
        print("   tactics used: %s" % [[u[0] for u in ul] for ul in used])
    r = check_c01(a, b, comp)
    if r is None:
        print("   C01 holds")
    else:
        status = 1
        print("   C01 VIOLATED: %s `%s` fails at %s" % r)
print("\nexit status", status)
sys.exit(status)
