"""
C01 (composition is a sound abstraction) -- LOW PRIORITY / contrived input: two variables whose names differ only
by surrounding white space ("m" and " m").  Var accepts any string and from_dict does not validate names, but
tactic 1 hands the names to sympy.symbols(), which strips white space (and splits on blanks/commas), so both
variables become the same sympy symbol and the linear system is solved for the wrong unknowns.

Run:  PYTHONPATH=/tmp/wt-g1/src /venv/bin/python /tmp/wt-g1/demo_2.py     (exit status 1 = property violated)
"""
import sys
import warnings
from fractions import Fraction

import z3

warnings.filterwarnings("ignore")

from pacti.contracts import PolyhedralIoContract

TOL = Fraction(1, 10**4)
SLACK = Fraction(1, 10**7)

# c1: input " m", output "m";   G: m + " m" <= 3
# c2: input "m",  output "p";   A: m <= 2      G: p <= m
c1 = PolyhedralIoContract.from_dict(
    {
        "input_vars": [" m"],
        "output_vars": ["m"],
        "assumptions": [],
        "guarantees": [{"coefficients": {"m": 1.0, " m": 1.0}, "constant": 3.0}],
    }
)
c2 = PolyhedralIoContract.from_dict(
    {
        "input_vars": ["m"],
        "output_vars": ["p"],
        "assumptions": [{"coefficients": {"m": 1.0}, "constant": 2.0}],
        "guarantees": [{"coefficients": {"p": 1.0, "m": -1.0}, "constant": 0.0}],
    }
)
c = c1.compose_tactics(c2, tactics_order=[1])[0]
print("composition with tactic 1:", c.to_machine_dict())
print("  (the consumer's assumption m <= 2 needs ' m' >= 1; the library returns no assumption at all)")


def zv(n):
    return z3.Real("v[" + n + "]")


def lhs(t):
    return z3.Sum([z3.RealVal(0)] + [z3.Q(*Fraction(k).as_integer_ratio()) * zv(v.name) for v, k in t.variables.items()])


def rv(fr):
    return z3.Q(fr.numerator, fr.denominator)


def holds(tl, slack=Fraction(0)):
    return z3.And([z3.BoolVal(True)] + [lhs(t) <= rv(Fraction(t.constant) + slack) for t in tl.terms])


def broken(tl):
    return z3.Or(
        [z3.BoolVal(False)] + [lhs(t) > rv(Fraction(t.constant) + TOL * (1 + abs(Fraction(t.constant)))) for t in tl.terms]
    )


names = [" m", "m", "p"]
s = z3.Solver()
s.add([z3.And(zv(n) >= -1000, zv(n) <= 1000) for n in names])
s.add(holds(c.a))
s.add(z3.Implies(holds(c1.a, SLACK), holds(c1.g)))
s.add(z3.Implies(holds(c2.a, SLACK), holds(c2.g)))
s.add(z3.Or(broken(c1.a), broken(c2.a), broken(c.g)))
r = s.check()
if r == z3.sat:
    m = s.model()
    print("COUNTEREXAMPLE:", {n: float(m.eval(zv(n), model_completion=True).as_fraction()) for n in names})
    print("PROPERTY C01 VIOLATED (contrived variable names)")
    sys.exit(1)
print("no counterexample:", r)
sys.exit(0)
