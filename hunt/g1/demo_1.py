"""
C02 (quotient composed with the divisor refines the dividend) -- violated through the containment tolerance.

quotient_tactics decides "the dividend's assumptions imply the divisor's" with PolyhedralTermList.refines, whose
LP comparison accepts an excess of CONTAINMENT_TOLERANCE * (1 + |b|) = 1e-9 * (1 + |b|).  For |b| >= 100 this is
more than the 1e-7 slack of the property's numerical reading: with b = 500 an assumption violated by 4e-7 is
accepted as implied.  The quotient then ASSUMES the divisor's guarantees, although the divisor does not owe them.

Run:  PYTHONPATH=/tmp/wt-g1/src /venv/bin/python /tmp/wt-g1/demo_1.py     (exit status 1 = property violated)
"""
import sys
import warnings
from fractions import Fraction

import z3

warnings.filterwarnings("ignore")

from pacti.contracts import PolyhedralIoContract
from pacti.iocontract import Var

TOL = Fraction(1, 10**4)
SLACK = Fraction(1, 10**7)
BOX = 1000

# dividend C:    inputs x       outputs z      A: x <= 500.0000004     G: z <= 0
# divisor  C1:   inputs x       outputs y      A: x <= 500             G: y <= 0
top = PolyhedralIoContract.from_dict(
    {
        "input_vars": ["x"],
        "output_vars": ["z"],
        "assumptions": [{"coefficients": {"x": 1.0}, "constant": 500.0000004}],
        "guarantees": [{"coefficients": {"z": 1.0}, "constant": 0.0}],
    }
)
div = PolyhedralIoContract.from_dict(
    {
        "input_vars": ["x"],
        "output_vars": ["y"],
        "assumptions": [{"coefficients": {"x": 1.0}, "constant": 500.0}],
        "guarantees": [{"coefficients": {"y": 1.0}, "constant": 0.0}],
    }
)
print("dividend C:\n%s\n" % top)
print("divisor C1:\n%s\n" % div)
print("library: C.a.refines(C1.a) =", top.a.refines(div.a), " (exactly: x <= 500.0000004 does NOT imply x <= 500)")

violated = False
for simplify in (True, False):
    q = top.quotient(div, additional_inputs=[Var("x")], simplify=simplify)
    print("\nquotient(additional_inputs=[x], simplify=%s):\n%s" % (simplify, q))
    print("exact terms of Q:", q.to_machine_dict())

    def zv(name):
        return z3.Real(name)

    def lhs(t):
        return z3.Sum([z3.RealVal(0)] + [z3.Q(*Fraction(c).as_integer_ratio()) * zv(v.name) for v, c in t.variables.items()])

    def rv(fr):
        return z3.Q(fr.numerator, fr.denominator)

    def holds(tl, slack=Fraction(0)):
        return z3.And([z3.BoolVal(True)] + [lhs(t) <= rv(Fraction(t.constant) + slack) for t in tl.terms])

    def broken(tl):
        return z3.Or(
            [z3.BoolVal(False)]
            + [lhs(t) > rv(Fraction(t.constant) + TOL * (1 + abs(Fraction(t.constant)))) for t in tl.terms]
        )

    names = ["x", "y", "z"]
    s = z3.Solver()
    s.add([z3.And(zv(n) >= -BOX, zv(n) <= BOX) for n in names])
    s.add(holds(top.a))  # the dividend's assumptions hold (exactly)
    s.add(z3.Implies(holds(div.a, SLACK), holds(div.g)))  # C1 honours its contract (1e-7 slack on its assumptions)
    s.add(z3.Implies(holds(q.a, SLACK), holds(q.g)))  # Q honours its contract
    s.add(z3.Or(broken(div.a), broken(q.a), broken(top.g)))  # ... and yet a conclusion fails by > 1e-4*(1+|c|)
    s.add(zv("y") == 1000, zv("z") == 1000)  # not a marginal failure: the outputs can be anything in the box
    r = s.check()
    if r == z3.sat:
        m = s.model()
        val = {n: m.eval(zv(n), model_completion=True) for n in names}
        print("COUNTEREXAMPLE:", {n: float(val[n].as_fraction()) for n in names})
        x = val["x"].as_fraction()
        print("  C.a  holds: x - 500.0000004 =", float(x - Fraction(500.0000004)))
        print("  C1.a fails by", float(x - 500), "(> 1e-7 slack), so C1 owes nothing: y =", float(val["y"].as_fraction()))
        print("  Q.a contains C1's guarantee y <= 0, which fails, so Q owes nothing: z =", float(val["z"].as_fraction()))
        print("  => Q's assumptions and C's guarantee z <= 0 are broken although C.a holds and both parts honour their contracts")
        violated = True
    else:
        print("no counterexample:", r)

print("\nPROPERTY C02", "VIOLATED" if violated else "holds on this input")
sys.exit(1 if violated else 0)
