/-
A3 (used by the H-domain proof hints of /verif/contracts/h_lp.py, `HEnv.comb_hint` / `AbstractSpace.comb`):
a linear functional is affine along segments.  The hints evaluate every row of an LP at the point
q = x + lam • (p - x) of the segment from the optimum x to the skolem point p and use
  row(q) = row(x) + lam * (row(p) - row(x)).
Also A-card: a list has as many distinct elements as its length iff it has no duplicates
(`len(set(L)) == len(L)` in pacti.utils.lists / IoContract.__init__).
-/
import Mathlib.Algebra.Module.LinearMap.Defs
import Mathlib.Data.Finset.Card
import Mathlib.Data.List.Dedup
import Mathlib.Data.Real.Basic

theorem A3_affine_along_segments {V : Type*} [AddCommGroup V] [Module ℝ V]
    (row : V →ₗ[ℝ] ℝ) (x p : V) (lam : ℝ) :
    row (x + lam • (p - x)) = row x + lam * (row p - row x) := by
  simp [map_add, map_smul, map_sub]

theorem A3_convex_combination {V : Type*} [AddCommGroup V] [Module ℝ V]
    (row : V →ₗ[ℝ] ℝ) (x p : V) (lam : ℝ) :
    row ((1 - lam) • x + lam • p) = (1 - lam) * row x + lam * row p := by
  simp [map_add, map_smul]

theorem A_card_nodup {α : Type*} [DecidableEq α] (l : List α) :
    l.toFinset.card = l.length ↔ l.Nodup := by
  rw [List.card_toFinset]
  constructor
  · intro h
    exact List.dedup_eq_self.mp ((List.dedup_sublist l).eq_of_length h)
  · intro h
    rw [h.dedup]
